import Libp2pModel.Proofs.C39_Next
/-!
# C39 — the invariant of `ClosestPeersIter` and its preservation
-/
namespace C39

/-- `NonZeroUsize` parameters -/
structure CfgOk (c : Cfg) : Prop where
  par_pos : 0 < c.parallelism
  nr_pos : 0 < c.numResults

/-- the limit `at_capacity` compares `num_waiting` with -/
def cap (s : Iter) : Nat :=
  match s.state with
  | .stalled => max s.cfg.numResults s.cfg.parallelism
  | _ => s.cfg.parallelism

structure Inv (s : Iter) : Prop where
  cfg_ok : CfgOk s.cfg
  sorted : Sorted s.closest
  nw_eq : s.numWaiting = countW s.closest
  nw_le : s.numWaiting ≤ max s.cfg.numResults s.cfg.parallelism

theorem cap_le_max (s : Iter) : cap s ≤ max s.cfg.numResults s.cfg.parallelism := by
  unfold cap; split <;> omega

theorem atCapacity_false {s : Iter} (hf : s.state ≠ .finished) (h : atCapacity s = false) :
    s.numWaiting < cap s := by
  unfold atCapacity at h
  unfold cap
  cases hs : s.state <;> simp_all

theorem counts_ins' (cl : List (Nat × PState)) (p : Nat) :
    countW (ins cl p) = countW cl ∧ countU (ins cl p) = countU cl := by
  induction cl with
  | nil => simp [ins, countW, countU, isWaiting]
  | cons e t ih =>
    obtain ⟨r, s0⟩ := e
    by_cases h1 : p < r
    · simp [ins, h1, countW_cons, countU_cons, isWaiting]
    · by_cases h2 : p = r
      · simp [ins, h1, h2]
      · simp [ins, h1, h2, countW_cons, countU_cons, ih.1, ih.2]

theorem init_foldl (l : List Nat) : ∀ cl, Sorted cl → countW cl = 0 →
    Sorted (l.foldl ins cl) ∧ countW (l.foldl ins cl) = 0 := by
  induction l with
  | nil => intro cl h1 h2; exact ⟨h1, h2⟩
  | cons p t ih =>
    intro cl h1 h2
    exact ih (ins cl p) (sorted_ins h1 p) (by rw [(counts_ins' cl p).1]; exact h2)

theorem Inv.init {cfg : Cfg} (hc : CfgOk cfg) (k : Nat) (known : List Nat) : Inv (init cfg k known) := by
  have := init_foldl (known.take k) [] sorted_nil rfl
  exact ⟨hc, this.1, by simp [C39.init, this.2], by simp [C39.init]⟩

/-! ## `next` -/

theorem next_finished {s : Iter} (h : s.state = .finished) (now : Nat) : next s now = (s, .finished) := by
  simp [next, h]

/-- the fields of the state after `next` on an unfinished iterator -/
theorem next_fields {s : Iter} (h : s.state ≠ .finished) (now : Nat) :
    (next s now).1.closest = (nextLoop s.cfg now (atCapacity s) s.closest s.numWaiting (some 0)).1 ∧
    (next s now).1.numWaiting = (nextLoop s.cfg now (atCapacity s) s.closest s.numWaiting (some 0)).2.1 ∧
    (next s now).1.cfg = s.cfg ∧
    ((next s now).1.state = s.state ∨ (next s now).1.state = .finished) := by
  simp only [next, h, if_false]
  split <;> (try split) <;> simp

theorem Inv.next {s : Iter} (h : Inv s) (now : Nat) : Inv (next s now).1 := by
  by_cases hf : s.state = .finished
  · rw [next_finished hf]; exact h
  · obtain ⟨h1, h2, h3, _⟩ := next_fields hf now
    have hk := nextLoop_keys s.cfg now (atCapacity s) s.closest s.numWaiting (some 0)
    have hn := nextLoop_nw s.cfg now (atCapacity s) s.closest s.numWaiting (some 0) 0 (by simpa using h.nw_eq)
    have hc := nextLoop_counts s.cfg now (atCapacity s) s.closest s.numWaiting (some 0)
    refine ⟨h3 ▸ h.cfg_ok, ?_, ?_, ?_⟩
    · unfold Sorted; rw [h1, hk]; exact h.sorted
    · rw [h1, h2]; simpa using hn.2
    · rw [h2, h3, hn.2]
      have hle := h.nw_le
      have hnw := h.nw_eq
      cases hi : issue (nextLoop s.cfg now (atCapacity s) s.closest s.numWaiting (some 0)).2.2 with
      | zero => rw [hi] at hc; omega
      | succ n =>
        -- a request was issued: the iterator was not at capacity
        have : atCapacity s = false := by
          cases hr : (nextLoop s.cfg now (atCapacity s) s.closest s.numWaiting (some 0)).2.2 with
          | ret o =>
            rcases nextLoop_ret _ _ _ _ _ _ o hr with ⟨ho, _⟩ | ⟨p, _, hcap⟩
            · rw [hr, ho] at hi; simp [issue] at hi
            · exact hcap
          | done => rw [hr] at hi; simp [issue] at hi
          | finish => rw [hr] at hi; simp [issue] at hi
          | panic => rw [hr] at hi; simp [issue] at hi
        have hlt := atCapacity_false hf this
        have hcm := cap_le_max s
        have : issue (nextLoop s.cfg now (atCapacity s) s.closest s.numWaiting (some 0)).2.2 ≤ 1 := by
          unfold issue; split <;> omega
        omega

/-! ## `on_success` / `on_failure` -/

theorem addCloser_foldl (cr : Nat) (closer : List Nat) : ∀ (cl : List (Nat × PState)) (b : Bool),
    Sorted cl →
    Sorted (closer.foldl (addCloser cr) (cl, b)).1 ∧
    countW (closer.foldl (addCloser cr) (cl, b)).1 = countW cl ∧
    countU (closer.foldl (addCloser cr) (cl, b)).1 = countU cl ∧
    countNC (closer.foldl (addCloser cr) (cl, b)).1 + cl.length =
      countNC cl + (closer.foldl (addCloser cr) (cl, b)).1.length ∧
    cl.length ≤ (closer.foldl (addCloser cr) (cl, b)).1.length ∧
    (∀ q, find (closer.foldl (addCloser cr) (cl, b)).1 q =
      if (find cl q).isSome then find cl q else if q ∈ closer then some .notContacted else none) := by
  induction closer with
  | nil =>
    intro cl b hs
    refine ⟨hs, rfl, rfl, rfl, Nat.le_refl _, fun q => ?_⟩
    cases hq : find cl q <;> simp [hq]
  | cons c t ih =>
    intro cl b hs
    simp only [List.foldl_cons]
    cases hc : find cl c with
    | some st =>
      have : addCloser cr (cl, b) c = (cl, b) := by simp [addCloser, hc]
      rw [this]
      obtain ⟨h1, h2, h3, h4, h5, h6⟩ := ih cl b hs
      refine ⟨h1, h2, h3, h4, h5, fun q => ?_⟩
      rw [h6 q]
      by_cases hq : q = c
      · subst hq; simp [hc]
      · simp [hq]
    | none =>
      have : addCloser cr (cl, b) c = (ins cl c, decide (c < cr) || b) := by simp [addCloser, hc]
      rw [this]
      obtain ⟨h1, h2, h3, h4, h5, h6⟩ := ih (ins cl c) (decide (c < cr) || b) (sorted_ins hs c)
      obtain ⟨c1, c2, c3, c4⟩ := counts_ins hc
      refine ⟨h1, by rw [h2, c1], by rw [h3, c3], by omega, by omega, fun q => ?_⟩
      rw [h6 q, find_ins hc q]
      by_cases hq : q = c
      · subst hq; simp [hc]
      · simp [hq]

theorem succeed_fields (s : Iter) (p : Nat) (closer : List Nat) (nw : Nat) :
    (succeed s p closer nw).2 = .bool true ∧ (succeed s p closer nw).1.cfg = s.cfg ∧
    (succeed s p closer nw).1.numWaiting = nw ∧
    (succeed s p closer nw).1.closest =
      (closer.foldl (addCloser (curRange (setSt s.closest p .succeeded) s.cfg.numResults p))
        (setSt s.closest p .succeeded, decide ((setSt s.closest p .succeeded).length < s.cfg.numResults))).1 := by
  simp [succeed]

/-- `on_success`/`on_failure` outcomes -/
inductive Report (s : Iter) (p : Nat) (r : Iter × Out) : Prop
  | ignored : r = (s, .bool false) → Report s p r
  | fromWaiting (to : Nat) : s.state ≠ .finished → find s.closest p = some (.waiting to) →
      0 < s.numWaiting → Report s p r
  | fromUnresponsive : s.state ≠ .finished → find s.closest p = some .unresponsive → Report s p r

theorem find_waiting_count {cl : List (Nat × PState)} {p to : Nat} (h : find cl p = some (.waiting to)) :
    0 < countW cl := by
  have := (counts_setSt .failed h).1
  simp [isWaiting] at this
  omega

theorem Inv.succeed {s : Iter} (h : Inv s) (p : Nat) (closer : List Nat) (nw : Nat) (s0 : PState)
    (hf : find s.closest p = some s0)
    (hnw : nw + (if isWaiting s0 then 1 else 0) = s.numWaiting) : Inv (succeed s p closer nw).1 := by
  obtain ⟨_, h2, h3, h4⟩ := succeed_fields s p closer nw
  have hs := sorted_setSt h.sorted p .succeeded
  obtain ⟨a1, a2, _, _, _, _⟩ := addCloser_foldl
    (curRange (setSt s.closest p .succeeded) s.cfg.numResults p) closer
    (setSt s.closest p .succeeded)
    (decide ((setSt s.closest p .succeeded).length < s.cfg.numResults)) hs
  have hc := (counts_setSt .succeeded hf).1
  have hws : isWaiting PState.succeeded = false := rfl
  simp only [hws, Bool.false_eq_true, if_false, Nat.add_zero] at hc
  refine ⟨h2 ▸ h.cfg_ok, h4 ▸ a1, ?_, ?_⟩
  · rw [h3, h4, a2]; have := h.nw_eq; omega
  · rw [h3, h2]; have := h.nw_le; omega

theorem Inv.onSuccess {s : Iter} (h : Inv s) (p : Nat) (closer : List Nat) :
    Inv (onSuccess s p closer).1 ∧ (onSuccess s p closer).2 ≠ .panic := by
  unfold C39.onSuccess
  by_cases hfin : s.state = .finished
  · simp [hfin]; exact h
  · simp only [hfin, if_false]
    cases hf : find s.closest p with
    | none => simp; exact h
    | some st =>
      cases st with
      | waiting to =>
        have hpos := find_waiting_count hf
        have hne : s.numWaiting ≠ 0 := by rw [h.nw_eq]; omega
        simp only [hne, if_false]
        exact ⟨h.succeed p closer _ _ hf (by simp [isWaiting]; omega), by rw [(succeed_fields _ _ _ _).1]; simp⟩
      | unresponsive =>
        exact ⟨h.succeed p closer _ _ hf (by simp [isWaiting]), by rw [(succeed_fields _ _ _ _).1]; simp⟩
      | notContacted => simp; exact h
      | failed => simp; exact h
      | succeeded => simp; exact h

theorem Inv.onFailure {s : Iter} (h : Inv s) (p : Nat) :
    Inv (onFailure s p).1 ∧ (onFailure s p).2 ≠ .panic := by
  unfold C39.onFailure
  by_cases hfin : s.state = .finished
  · simp [hfin]; exact h
  · simp only [hfin, if_false]
    cases hf : find s.closest p with
    | none => simp; exact h
    | some st =>
      cases st with
      | waiting to =>
        have hpos := find_waiting_count hf
        have hne : s.numWaiting ≠ 0 := by rw [h.nw_eq]; omega
        have hc := (counts_setSt .failed hf).1
        simp only [isWaiting, if_true, Bool.false_eq_true, if_false, Nat.add_zero] at hc
        simp only [hne, if_false]
        refine ⟨⟨h.cfg_ok, sorted_setSt h.sorted p .failed, ?_, ?_⟩, by simp⟩
        · show s.numWaiting - 1 = countW (setSt s.closest p .failed)
          have := h.nw_eq; omega
        · show s.numWaiting - 1 ≤ max s.cfg.numResults s.cfg.parallelism
          have := h.nw_le; omega
      | unresponsive =>
        have hc := (counts_setSt .failed hf).1
        simp only [isWaiting, Bool.false_eq_true, if_false, Nat.add_zero] at hc
        refine ⟨⟨h.cfg_ok, sorted_setSt h.sorted p .failed, ?_, h.nw_le⟩, by simp⟩
        show s.numWaiting = countW (setSt s.closest p .failed)
        have := h.nw_eq; omega
      | notContacted => simp; exact h
      | failed => simp; exact h
      | succeeded => simp; exact h

theorem next_no_panic {s : Iter} (h : Inv s) (now : Nat) : (next s now).2 ≠ .panic := by
  by_cases hf : s.state = .finished
  · rw [next_finished hf]; simp
  · have hn := nextLoop_nw s.cfg now (atCapacity s) s.closest s.numWaiting (some 0) 0 (by simpa using h.nw_eq)
    simp only [next, hf, if_false]
    split
    · rename_i o hr
      rcases nextLoop_ret _ _ _ _ _ _ o hr with ⟨ho, _⟩ | ⟨p, ho, _⟩ <;> simp [ho]
    · simp
    · rename_i hr; exact absurd hr hn.1
    · split <;> simp

theorem Inv.step {s : Iter} (h : Inv s) (op : Op) : Inv (step s op).1 ∧ (step s op).2 ≠ .panic := by
  cases op with
  | next now => exact ⟨h.next now, next_no_panic h now⟩
  | success p closer => exact h.onSuccess p closer
  | failure p => exact h.onFailure p
  | finish => exact ⟨⟨h.cfg_ok, h.sorted, h.nw_eq, h.nw_le⟩, by show Out.unit ≠ Out.panic; simp⟩

end C39
