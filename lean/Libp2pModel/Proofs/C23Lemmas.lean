import Libp2pModel.Model.C23
/-!
# C23 — helper lemmas: the loop's induction principle and the case analysis of `step`
-/
namespace C23

/-! ## `splitDns`, `endsWith`, `txtPushes`, `dnsFreeTail` -/

theorem splitDns_some {a pre suf : Maddr} {p : Proto} (h : splitDns a = some (pre, p, suf)) :
    a = pre ++ p :: suf ∧ p.isDns = true ∧ dnsFree pre = true := by
  induction a generalizing pre with
  | nil => simp [splitDns] at h
  | cons x rest ih =>
    unfold splitDns at h
    by_cases hx : x.isDns = true
    · simp [hx] at h
      obtain ⟨rfl, rfl, rfl⟩ := h
      simp [hx, dnsFree]
    · simp [hx] at h
      cases hr : splitDns rest with
      | none => simp [hr] at h
      | some t =>
        obtain ⟨pre', q, suf'⟩ := t
        simp [hr] at h
        obtain ⟨rfl, rfl, rfl⟩ := h
        obtain ⟨h1, h2, h3⟩ := ih hr
        refine ⟨by simp [h1], h2, ?_⟩
        simp [dnsFree] at h3 ⊢
        exact ⟨by simpa using hx, h3⟩

theorem splitDns_none {a : Maddr} (h : splitDns a = none) : dnsFree a = true := by
  induction a with
  | nil => simp [dnsFree]
  | cons x rest ih =>
    unfold splitDns at h
    by_cases hx : x.isDns = true
    · simp [hx] at h
    · simp [hx] at h
      cases hr : splitDns rest with
      | none =>
        have := ih hr
        simp [dnsFree] at this ⊢
        exact ⟨by simpa using hx, this⟩
      | some t => obtain ⟨pre', q, suf'⟩ := t; simp [hr] at h

/-- `splitDns` finds the FIRST DNS component: index `pre.length`, `take`/`skip` as in the Rust. -/
theorem splitDns_index {a pre suf : Maddr} {p : Proto} (h : splitDns a = some (pre, p, suf)) :
    a.take pre.length = pre ∧ a.drop (pre.length + 1) = suf ∧ a[pre.length]? = some p := by
  obtain ⟨rfl, _, _⟩ := splitDns_some h
  simp

theorem queryOf_isSome {p : Proto} (h : p.isDns = true) : ∃ q, queryOf p = some q := by
  cases p <;> simp [Proto.isDns] at h <;> simp [queryOf]

theorem endsWith_iff (a s : Maddr) : endsWith a s = true ↔ s <:+ a := by
  unfold endsWith
  constructor
  · intro h
    split at h
    · cases h
    · have : a.drop (a.length - s.length) = s := by simpa using h
      have h2 := List.take_append_drop (a.length - s.length) a
      rw [this] at h2
      exact ⟨_, h2⟩
  · rintro ⟨t, rfl⟩
    simp

theorem txtPushes_length (pre suf : Maddr) (as : List Maddr) (n : Nat) :
    (txtPushes pre suf as n).length ≤ Gen.MAX_TXT_RECORDS - n := by
  induction as generalizing n with
  | nil => simp [txtPushes]
  | cons a as ih =>
    unfold txtPushes
    split
    · split
      · have := ih (n + 1); simp; omega
      · exact ih n
    · exact ih n

theorem txtPushes_mem {pre suf : Maddr} {as : List Maddr} {n : Nat} {x : Maddr}
    (h : x ∈ txtPushes pre suf as n) : ∃ a ∈ as, suf <:+ a ∧ x = pre ++ a := by
  induction as generalizing n with
  | nil => simp [txtPushes] at h
  | cons a as ih =>
    unfold txtPushes at h
    split at h
    · rename_i he
      split at h
      · rcases List.mem_cons.1 h with rfl | h
        · exact ⟨a, by simp, (endsWith_iff _ _).1 he, rfl⟩
        · obtain ⟨a', ha', hh⟩ := ih h; exact ⟨a', by simp [ha'], hh⟩
      · obtain ⟨a', ha', hh⟩ := ih h; exact ⟨a', by simp [ha'], hh⟩
    · obtain ⟨a', ha', hh⟩ := ih h; exact ⟨a', by simp [ha'], hh⟩

theorem dnsFreeTail_suffix (a : Maddr) : dnsFreeTail a <:+ a := by
  induction a with
  | nil => simp [dnsFreeTail]
  | cons p rest ih =>
    unfold dnsFreeTail
    split
    · exact List.suffix_refl _
    · exact List.IsSuffix.trans ih (List.suffix_cons _ _)

theorem dnsFreeTail_dnsFree (a : Maddr) : dnsFree (dnsFreeTail a) = true := by
  induction a with
  | nil => simp [dnsFreeTail, dnsFree]
  | cons p rest ih =>
    unfold dnsFreeTail
    split
    · assumption
    · exact ih

/-! ## the loop -/

/-- Induction principle of the loop: an invariant of the local variables preserved by every
iteration, and a postcondition established by the exits and transported backwards over the events
of each iteration, holds of the whole run. -/
theorem loop_induction (b : Bool) (R : Resolver) (I : Inner)
    (Inv : Cfg → Prop) (Post : Cfg → Result × List Event → Prop)
    (hdone : ∀ c r ev, Inv c → step b R I c = .done r ev → Post c (r, ev))
    (hcont : ∀ c c' ev, Inv c → step b R I c = .cont c' ev →
      Inv c' ∧ ∀ out, Post c' out → Post c (out.1, ev ++ out.2)) :
    ∀ c h, Inv c → Post c (loop b R I c h) := by
  intro c h
  fun_induction loop b R I c h with
  | case1 c h r ev hs => intro hi; exact hdone c r ev hi hs
  | case2 c h c' ev hs out ih =>
    intro hi
    obtain ⟨hi', hp⟩ := hcont c c' ev hi hs
    exact hp _ (ih hi')

/-! ## case analysis of one iteration -/

theorem finish_ne_panic (errs : List DErr) : finish errs ≠ .panic := by
  unfold finish; split <;> simp

theorem oneOrMany_panic {b : Bool} {l : List Proto} (h : oneOrMany b l = .panic) : b = true := by
  unfold oneOrMany at h
  split at h
  · cases b <;> simp at h ⊢
  · cases h
  · cases h

theorem resolveAns_panic {b : Bool} {k : QKind} {a : Answer} (h : resolveAns b k a = .panic) :
    b = true := by
  unfold resolveAns at h
  split at h
  · cases h
  · split at h
    · exact oneOrMany_panic h
    · exact oneOrMany_panic h
    · exact oneOrMany_panic h
    · cases h

theorem resolveAns_txt (b : Bool) (a : Answer) :
    resolveAns b .txt a = .err ∨ ∃ as, resolveAns b .txt a = .ok (.addrs as) := by
  unfold resolveAns
  split
  · exact .inl rfl
  · exact .inr ⟨_, rfl⟩

theorem afterFailedDial_done {c : Cfg} {rest att err ev r ev'}
    (h : afterFailedDial c rest att err ev = .done r ev') : ev' = ev ∧ r ≠ .panic := by
  unfold afterFailedDial at h
  split at h
  · cases h; exact ⟨rfl, finish_ne_panic _⟩
  · split at h
    · cases h; exact ⟨rfl, finish_ne_panic _⟩
    · cases h

theorem dialStep_done {c : Cfg} {addr rest v r ev'} (h : dialStep c addr rest v = .done r ev') :
    ev' = [Event.dial addr v] ∧ ((v = .ok ∧ r = .ok c.dials) ∨ (v ≠ .ok ∧ r ≠ .panic)) := by
  unfold dialStep at h
  cases v <;> simp only at h
  · cases h; simp
  all_goals
    obtain ⟨rfl, h2⟩ := afterFailedDial_done h
    simp [h2]

theorem resolvedStep_done {c1 : Cfg} {errs0 pre suf rest ev x r ev'}
    (h : resolvedStep c1 errs0 pre suf rest ev x = .done r ev') :
    ev' = ev ∧ r = .panic ∧ x = .panic := by
  unfold resolvedStep at h
  split at h <;> cases h
  exact ⟨rfl, rfl, rfl⟩

/-- where the new stack entries of a lookup iteration come from -/
theorem resolvedStep_stack {c1 : Cfg} {errs0 pre suf rest ev r c' ev'}
    (h : resolvedStep c1 errs0 pre suf rest ev r = .cont c' ev') :
    ∀ x ∈ c'.unresolved, x ∈ rest ∨ (∃ ip, x = pre ++ ip :: suf) ∨ (∃ a, suf <:+ a ∧ x = pre ++ a) := by
  unfold resolvedStep at h
  split at h
  · cases h
  · cases h; intro x hx; exact .inl hx
  · cases h
    intro x hx
    rcases List.mem_cons.1 hx with rfl | hx
    · exact .inr (.inl ⟨_, rfl⟩)
    · exact .inl hx
  · cases h
    intro x hx
    simp only [pushAll, List.mem_append, List.mem_reverse, List.mem_map] at hx
    rcases hx with ⟨ip, _, rfl⟩ | hx
    · exact .inr (.inl ⟨_, rfl⟩)
    · exact .inl hx
  · cases h
    intro x hx
    simp only [pushAll, List.mem_append, List.mem_reverse] at hx
    rcases hx with hx | hx
    · obtain ⟨a, _, hs, rfl⟩ := txtPushes_mem hx
      exact .inr (.inr ⟨a, hs, rfl⟩)
    · exact .inl hx

/-- a TXT answer adds at most `MAX_TXT_RECORDS` entries to the stack -/
theorem resolvedStep_txt_len {c1 : Cfg} {errs0 pre suf rest ev r c' ev'}
    (h : resolvedStep c1 errs0 pre suf rest ev r = .cont c' ev')
    (hr : r = .err ∨ ∃ as, r = .ok (.addrs as)) :
    c'.unresolved.length ≤ rest.length + Gen.MAX_TXT_RECORDS := by
  rcases hr with rfl | ⟨as, rfl⟩
  · simp only [resolvedStep] at h; cases h; simp
  · simp only [resolvedStep] at h; cases h
    have := txtPushes_length pre suf as 0
    simp [pushAll]; omega

theorem step_done_cases {b : Bool} {R : Resolver} {I : Inner} {c : Cfg} {r : Result}
    {ev : List Event} (hs : step b R I c = .done r ev) :
    (c.unresolved = [] ∧ ev = [] ∧ r = finish c.errs)
    ∨ (∃ q, ev = [.lookup q] ∧ r = .panic ∧ b = true ∧ c.lookups ≠ Gen.MAX_DNS_LOOKUPS)
    ∨ (∃ addr rest v, c.unresolved = addr :: rest ∧ splitDns addr = none ∧ ev = [.dial addr v] ∧
        ((v = .ok ∧ r = .ok c.dials) ∨ (v ≠ .ok ∧ r ≠ .panic))) := by
  unfold step at hs
  split at hs
  · rename_i hu
    cases hs
    exact .inl ⟨hu, rfl, rfl⟩
  · rename_i addr rest hu
    split at hs
    · split at hs
      · cases hs
      · rename_i hne
        split at hs
        · obtain ⟨_, _, h3⟩ := resolvedStep_done hs
          cases h3
        · rename_i q _
          obtain ⟨rfl, rfl, h3⟩ := resolvedStep_done hs
          exact .inr (.inl ⟨q, rfl, rfl, resolveAns_panic h3, hne⟩)
    · rename_i hn
      obtain ⟨rfl, h2⟩ := dialStep_done hs
      exact .inr (.inr ⟨addr, rest, _, hu, hn, rfl, h2⟩)

theorem step_cont_cases {b : Bool} {R : Resolver} {I : Inner} {c c' : Cfg}
    {ev : List Event} (hs : step b R I c = .cont c' ev) :
    ∃ addr rest, c.unresolved = addr :: rest ∧
    ( (∃ pre p suf, splitDns addr = some (pre, p, suf) ∧ c.lookups = Gen.MAX_DNS_LOOKUPS ∧ ev = [] ∧
        c'.unresolved = rest ∧ c'.lookups = c.lookups ∧ c'.attempts = c.attempts ∧ c'.dials = c.dials)
    ∨ (∃ pre p suf q, splitDns addr = some (pre, p, suf) ∧ c.lookups ≠ Gen.MAX_DNS_LOOKUPS ∧
        queryOf p = some q ∧ ev = [.lookup q] ∧
        c'.lookups = c.lookups + 1 ∧ c'.attempts = c.attempts ∧ c'.dials = c.dials ∧
        (∀ x ∈ c'.unresolved, x ∈ rest ∨ (∃ ip, x = pre ++ ip :: suf) ∨
          (∃ a, suf <:+ a ∧ x = pre ++ a)) ∧
        (q.kind = .txt → c'.unresolved.length ≤ rest.length + Gen.MAX_TXT_RECORDS))
    ∨ (splitDns addr = none ∧ ∃ v, ev = [.dial addr v] ∧ v ≠ .ok ∧ c'.unresolved = rest ∧
        c'.lookups = c.lookups ∧
        c'.attempts = (if v = .fail then c.attempts + 1 else c.attempts) ∧
        c'.attempts ≠ Gen.MAX_DIAL_ATTEMPTS ∧ c'.dials = c.dials + 1) ) := by
  unfold step at hs
  split at hs
  · cases hs
  · rename_i addr rest hu
    refine ⟨addr, rest, hu, ?_⟩
    split at hs
    · rename_i pre p suf hsp
      split at hs
      · rename_i heq
        cases hs
        exact .inl ⟨pre, p, suf, hsp, heq, rfl, rfl, rfl, rfl, rfl⟩
      · rename_i hne
        split at hs
        · rename_i hq
          obtain ⟨q, hq'⟩ := queryOf_isSome (splitDns_some hsp).2.1
          rw [hq] at hq'; cases hq'
        · rename_i q hq
          obtain ⟨h1, h2, h3, rfl⟩ := resolvedStep_cont hs
          refine .inr (.inl ⟨pre, p, suf, q, hsp, hne, hq, rfl, h1, h2, h3, resolvedStep_stack hs, ?_⟩)
          intro hk
          apply resolvedStep_txt_len hs
          rw [hk]
          exact resolveAns_txt b _
    · rename_i hn
      obtain ⟨h1, h2, h3, rfl, h5, h6, h7⟩ := dialStep_cont hs
      exact .inr (.inr ⟨hn, _, rfl, h5, h1, h2, h6, h7, h3⟩)

end C23
