import Libp2pModel.Model.C39_Disjoint
/-!
# C39 — `ResultIter` (the k-way merge of `ClosestDisjointPeersIter::into_result`)

`merge` transcribes `ResultIter::next` (one `pickFold` per emitted element).  Proved here, by
induction on the merge: every emitted element comes from one of the lists (`merge_sub`); if every
per-path list is strictly increasing, so is the merged list (`merge_sorted`) — hence it is
duplicate-free; nothing but duplicates is dropped and the fuel `Σ lengths + 1` suffices
(`merge_complete`).
-/
namespace C39.Disjoint

/-- every list of `ls'` is contained in the list of `ls` at the same index -/
def Sub (ls' ls : List (List Nat)) : Prop := ∀ i x, x ∈ ls'.getD i [] → x ∈ ls.getD i []

theorem Sub.refl (ls : List (List Nat)) : Sub ls ls := fun _ _ h => h
theorem Sub.trans {a b c : List (List Nat)} (h1 : Sub a b) (h2 : Sub b c) : Sub a c :=
  fun i x h => h2 i x (h1 i x h)

theorem getD_set (ls : List (List Nat)) (j : Nat) (v : List Nat) (i : Nat) :
    (ls.set j v).getD i [] = if j = i ∧ j < ls.length then v else ls.getD i [] := by
  simp only [List.getD_eq_getElem?_getD, List.getElem?_set]
  by_cases hji : j = i
  · subst hji
    by_cases hlt : j < ls.length
    · simp [hlt]
    · simp [hlt]
  · simp [hji]

/-- replacing list `j` by its own tail -/
theorem getD_set_tail (ls : List (List Nat)) (j i : Nat) :
    (ls.set j (ls.getD j []).tail).getD i [] = if j = i then (ls.getD i []).tail else ls.getD i [] := by
  rw [getD_set]
  by_cases hji : j = i
  · subst hji
    by_cases hlt : j < ls.length
    · simp [hlt]
    · have : ls.getD j [] = [] := by
        simp only [List.getD_eq_getElem?_getD]
        rw [List.getElem?_eq_none (by omega)]; rfl
      simp [hlt, this]
  · simp [hji]

theorem getD_ne_nil_lt {ls : List (List Nat)} {a : Nat} {x : Nat} {rest : List Nat}
    (h : ls.getD a [] = x :: rest) : a < ls.length := by
  by_cases hlt : a < ls.length
  · exact hlt
  · exfalso
    simp only [List.getD_eq_getElem?_getD] at h
    rw [List.getElem?_eq_none (by omega)] at h
    simp at h

theorem sub_set (ls : List (List Nat)) (j : Nat) (l : List Nat) (h : ∀ x ∈ l, x ∈ ls.getD j []) :
    Sub (ls.set j l) ls := by
  intro i x hx
  rw [getD_set] at hx
  split at hx
  · rename_i hc; rw [← hc.1]; exact h x hx
  · exact hx

theorem pickFold_sub : ∀ (n : Nat) (ls : List (List Nat)) (best : Option Nat) (j : Nat),
    Sub (pickFold ls best j n).1 ls := by
  intro n
  induction n with
  | zero => intro ls best j; exact Sub.refl ls
  | succ n ih =>
    intro ls best j
    simp only [pickFold]
    split
    · exact ih _ _ _
    · split
      · split
        · refine Sub.trans (ih _ _ _) (sub_set ls j _ ?_)
          intro x hx
          exact List.mem_of_mem_tail hx
        · split
          · exact ih _ _ _
          · exact ih _ _ _
      · exact ih _ _ _
      · exact ih _ _ _
      · exact ih _ _ _

theorem pickFold_length : ∀ (n : Nat) (ls : List (List Nat)) (best : Option Nat) (j : Nat),
    (pickFold ls best j n).1.length = ls.length := by
  intro n
  induction n with
  | zero => intro ls best j; rfl
  | succ n ih =>
    intro ls best j
    simp only [pickFold]
    split
    · exact ih _ _ _
    · split
      · split
        · rw [ih]; simp
        · split
          · exact ih _ _ _
          · exact ih _ _ _
      · exact ih _ _ _
      · exact ih _ _ _
      · exact ih _ _ _

theorem merge_sub : ∀ (fuel : Nat) (ls : List (List Nat)) (x : Nat), x ∈ merge fuel ls →
    ∃ i, x ∈ ls.getD i [] := by
  intro fuel
  induction fuel with
  | zero => intro ls x h; simp [merge] at h
  | succ fuel ih =>
    intro ls x h
    simp only [merge] at h
    have hs := pickFold_sub ls.length ls none 0
    split at h
    · simp at h
    · rename_i a ha
      split at h
      · simp at h
      · rename_i x0 rest hl
        rcases List.mem_cons.1 h with rfl | h
        · exact ⟨a, hs a x (by rw [hl]; exact List.mem_cons_self)⟩
        · obtain ⟨i, hi⟩ := ih _ x h
          have := sub_set (pickFold ls none 0 ls.length).1 a rest (by
            intro y hy; rw [hl]; exact List.mem_cons_of_mem _ hy)
          exact ⟨i, hs i x (this i x hi)⟩

/-! ## the fold picks the strict minimum -/

def AllSorted (ls : List (List Nat)) : Prop := ∀ i, (ls.getD i []).Pairwise (· < ·)

/-- state of the fold after the lists with index `< j` have been looked at: the current choice
`best` is the list with the strictly smallest head among them (all of them are exhausted if the
choice is exhausted or absent) -/
def Picked (ls : List (List Nat)) (best : Option Nat) (j : Nat) : Prop :=
  match best with
  | none => ∀ i, i < j → ls.getD i [] = []
  | some a =>
    a < j ∧ (ls.getD a [] = [] → ∀ i, i < j → ls.getD i [] = []) ∧
    (∀ x rest, ls.getD a [] = x :: rest → ∀ i, i < j → i ≠ a → ∀ y ∈ ls.getD i [], x < y)

theorem pickFold_picked : ∀ (n : Nat) (ls : List (List Nat)) (best : Option Nat) (j : Nat),
    AllSorted ls → Picked ls best j →
    AllSorted (pickFold ls best j n).1 ∧ Picked (pickFold ls best j n).1 (pickFold ls best j n).2 (j + n) := by
  intro n
  induction n with
  | zero => intro ls best j hs hp; exact ⟨hs, hp⟩
  | succ n ih =>
    intro ls best j hs hp
    have hj1 : j + (n + 1) = (j + 1) + n := by omega
    rw [hj1]
    cases best with
    | none =>
      simp only [pickFold]
      apply ih _ _ _ hs
      refine ⟨by omega, ?_, ?_⟩
      · intro hnil i hi
        by_cases hij : i = j
        · rw [hij]; exact hnil
        · exact hp i (by omega)
      · intro x rest _ i hi hne y hy
        have : ls.getD i [] = [] := hp i (by omega)
        rw [this] at hy; simp at hy
    | some a =>
      obtain ⟨haj, hnil, hmin⟩ := hp
      simp only [pickFold]
      cases hla : ls.getD a [] with
      | nil =>
        have hempty := hnil hla
        cases hlj : ls.getD j [] with
        | nil =>
          simp only [List.head?]
          apply ih _ _ _ hs
          intro i hi
          by_cases hij : i = j
          · rw [hij]; exact hlj
          · exact hempty i (by omega)
        | cons y rj =>
          simp only [List.head?]
          apply ih _ _ _ hs
          refine ⟨by omega, ?_, ?_⟩
          · intro hc; rw [hlj] at hc; simp at hc
          · intro x rest _ i hi hne y' hy'
            have : ls.getD i [] = [] := hempty i (by omega)
            rw [this] at hy'; simp at hy'
      | cons x ra =>
        have hmin' := hmin x ra hla
        cases hlj : ls.getD j [] with
        | nil =>
          simp only [List.head?]
          apply ih _ _ _ hs
          refine ⟨by omega, ?_, ?_⟩
          · intro hc; rw [hla] at hc; simp at hc
          · intro x' rest' hx' i hi hne y' hy'
            rw [hla] at hx'; cases hx'
            by_cases hij : i = j
            · rw [hij, hlj] at hy'; simp at hy'
            · exact hmin' i (by omega) hne y' hy'
        | cons y rj =>
          simp only [List.head?]
          have hsj := hs j
          rw [hlj, List.pairwise_cons] at hsj
          by_cases hxy : x = y
          · simp only [hxy, if_true]
            have hs' : AllSorted (ls.set j (ls.getD j []).tail) := by
              intro i
              rw [getD_set_tail]
              split
              · exact (hs i).tail
              · exact hs i
            rw [show (y :: rj).tail = (ls.getD j []).tail from by rw [hlj]]
            apply ih _ _ _ hs'
            have haj' : ¬ j = a := by omega
            refine ⟨by omega, ?_, ?_⟩
            · intro hc
              rw [getD_set_tail, if_neg haj', hla] at hc; simp at hc
            · intro x' rest' hx' i hi hne y' hy'
              rw [getD_set_tail, if_neg haj', hla] at hx'; cases hx'
              rw [getD_set_tail] at hy'
              by_cases hij : j = i
              · rw [if_pos hij, ← hij, hlj] at hy'
                simp only [List.tail_cons] at hy'
                rw [hxy]; exact hsj.1 y' hy'
              · rw [if_neg hij] at hy'
                exact hmin' i (by omega) hne y' hy'
          · simp only [hxy, if_false]
            by_cases hlt : x < y
            · simp only [hlt, if_true]
              apply ih _ _ _ hs
              refine ⟨by omega, ?_, ?_⟩
              · intro hc; rw [hla] at hc; simp at hc
              · intro x' rest' hx' i hi hne y' hy'
                rw [hla] at hx'; cases hx'
                by_cases hij : i = j
                · rw [hij, hlj] at hy'
                  rcases List.mem_cons.1 hy' with rfl | hy'
                  · exact hlt
                  · exact Nat.lt_trans hlt (hsj.1 y' hy')
                · exact hmin' i (by omega) hne y' hy'
            · simp only [hlt, if_false]
              have hyx : y < x := by omega
              apply ih _ _ _ hs
              refine ⟨by omega, ?_, ?_⟩
              · intro hc; rw [hlj] at hc; simp at hc
              · intro x' rest' hx' i hi hne y' hy'
                rw [hlj] at hx'; cases hx'
                have hi' : i < j := by omega
                by_cases hia : i = a
                · rw [hia, hla] at hy'
                  have hsa := hs a
                  rw [hla, List.pairwise_cons] at hsa
                  rcases List.mem_cons.1 hy' with rfl | hy'
                  · exact hyx
                  · exact Nat.lt_trans hyx (hsa.1 y' hy')
                · exact Nat.lt_trans hyx (hmin' i hi' hia y' hy')

/-- **The merged list is strictly increasing** (so it has no duplicates) whenever every per-path
list is. -/
theorem merge_sorted : ∀ (fuel : Nat) (ls : List (List Nat)), AllSorted ls →
    (merge fuel ls).Pairwise (· < ·) := by
  intro fuel
  induction fuel with
  | zero => intro ls _; simp [merge]
  | succ fuel ih =>
    intro ls hs
    simp only [merge]
    obtain ⟨hs', hp⟩ := pickFold_picked ls.length ls none 0 hs (by intro i hi; omega)
    split
    · simp
    · rename_i a ha
      split
      · simp
      · rename_i x0 rest hl
        rw [ha] at hp
        obtain ⟨_, _, hmin⟩ := hp
        have halt := getD_ne_nil_lt hl
        have hsa := hs' a
        rw [hl, List.pairwise_cons] at hsa
        have hs'' : AllSorted ((pickFold ls none 0 ls.length).1.set a rest) := by
          intro i
          rw [getD_set]
          split
          · exact hsa.2
          · exact hs' i
        rw [List.pairwise_cons]
        refine ⟨?_, ih _ hs''⟩
        intro y hy
        obtain ⟨i, hi⟩ := merge_sub _ _ y hy
        rw [getD_set] at hi
        split at hi
        · exact hsa.1 y hi
        · rename_i hc
          by_cases hia : i = a
          · exfalso; exact hc ⟨hia.symm, halt⟩
          · by_cases hil : i < (pickFold ls none 0 ls.length).1.length
            · have hlen : (pickFold ls none 0 ls.length).1.length = ls.length := by
                exact pickFold_length _ _ _ _
              exact hmin x0 rest hl i (by omega) hia y hi
            · exfalso
              simp only [List.getD_eq_getElem?_getD] at hi
              rw [List.getElem?_eq_none (by omega)] at hi
              simp at hi

/-! ## nothing but duplicates is dropped, and the fuel suffices -/

def total (ls : List (List Nat)) : Nat := (ls.map List.length).sum

theorem total_set : ∀ (ls : List (List Nat)) (j : Nat) (v : List Nat), j < ls.length →
    total (ls.set j v) + (ls.getD j []).length = total ls + v.length := by
  intro ls
  induction ls with
  | nil => intro j v h; simp at h
  | cons a t ih =>
    intro j v h
    cases j with
    | zero => simp [total]; omega
    | succ j =>
      have := ih j v (by simpa using h)
      simp only [total, List.set_cons_succ, List.map_cons, List.sum_cons, List.getD_cons_succ] at this ⊢
      omega

theorem pickFold_total : ∀ (n : Nat) (ls : List (List Nat)) (best : Option Nat) (j : Nat),
    total (pickFold ls best j n).1 ≤ total ls := by
  intro n
  induction n with
  | zero => intro ls best j; exact Nat.le_refl _
  | succ n ih =>
    intro ls best j
    simp only [pickFold]
    split
    · exact ih _ _ _
    · split
      · split
        · refine Nat.le_trans (ih _ _ _) ?_
          by_cases hj : j < ls.length
          · have := total_set ls j (ls.getD j []).tail hj
            simp only [List.length_tail] at this
            omega
          · rw [List.set_eq_of_length_le (by omega)]
            exact Nat.le_refl _
        · split
          · exact ih _ _ _
          · exact ih _ _ _
      · exact ih _ _ _
      · exact ih _ _ _
      · exact ih _ _ _

/-- the fold only drops an element equal to the head of the (untouched) current choice -/
theorem pickFold_keeps : ∀ (n : Nat) (ls : List (List Nat)) (best : Option Nat) (j : Nat) (x : Nat),
    (∀ a, best = some a → a < j) → (∃ i, x ∈ ls.getD i []) →
    ∃ i, x ∈ (pickFold ls best j n).1.getD i [] := by
  intro n
  induction n with
  | zero => intro ls best j x _ h; exact h
  | succ n ih =>
    intro ls best j x hb hx
    simp only [pickFold]
    cases best with
    | none => exact ih _ _ _ x (by intro a ha; cases ha; omega) hx
    | some a =>
      have haj : a < j := hb a rfl
      simp only
      cases hla : ls.getD a [] with
      | nil =>
        cases hlj : ls.getD j [] with
        | nil => simp only [List.head?]; exact ih _ _ _ x (by intro a ha; cases ha) hx
        | cons y rj => simp only [List.head?]; exact ih _ _ _ x (by intro a ha; cases ha; omega) hx
      | cons x0 ra =>
        cases hlj : ls.getD j [] with
        | nil => simp only [List.head?]; exact ih _ _ _ x (by intro b hb'; cases hb'; omega) hx
        | cons y rj =>
          simp only [List.head?]
          by_cases hxy : x0 = y
          · simp only [hxy, if_true]
            apply ih _ _ _ x (by intro b hb'; cases hb'; omega)
            obtain ⟨i, hi⟩ := hx
            rw [show (y :: rj).tail = (ls.getD j []).tail from by rw [hlj]]
            by_cases hij : j = i
            · -- `x` sits in list `j`: either it is the dropped head (= head of list `a`) or in the tail
              rw [← hij, hlj] at hi
              rcases List.mem_cons.1 hi with rfl | hi
              · refine ⟨a, ?_⟩
                rw [getD_set_tail, if_neg (by omega), hla, hxy]
                exact List.mem_cons_self
              · refine ⟨j, ?_⟩
                rw [getD_set_tail, if_pos rfl, hlj]
                exact hi
            · exact ⟨i, by rw [getD_set_tail, if_neg hij]; exact hi⟩
          · simp only [hxy, if_false]
            split
            · exact ih _ _ _ x (by intro b hb'; cases hb'; omega) hx
            · exact ih _ _ _ x (by intro b hb'; cases hb'; omega) hx

theorem getD_nil_of_ge (ls : List (List Nat)) (i : Nat) (h : ls.length ≤ i) : ls.getD i [] = [] := by
  simp only [List.getD_eq_getElem?_getD]
  rw [List.getElem?_eq_none h]; rfl

/-- **Completeness of the merge**: with strictly increasing per-path lists and fuel above the total
length, every element of every list is emitted. -/
theorem merge_complete : ∀ (fuel : Nat) (ls : List (List Nat)), AllSorted ls → total ls < fuel →
    ∀ x, (∃ i, x ∈ ls.getD i []) → x ∈ merge fuel ls := by
  intro fuel
  induction fuel with
  | zero => intro ls _ h; omega
  | succ fuel ih =>
    intro ls hs htot x hx
    simp only [merge]
    obtain ⟨hs', hp⟩ := pickFold_picked ls.length ls none 0 hs (by intro i hi; omega)
    have hlen := pickFold_length ls.length ls none 0
    have htot' := pickFold_total ls.length ls none 0
    obtain ⟨i, hi⟩ := pickFold_keeps ls.length ls none 0 x (by intro a ha; cases ha) hx
    have hilt : i < ls.length := by
      by_cases hlt : i < ls.length
      · exact hlt
      · rw [getD_nil_of_ge _ i (by omega)] at hi; simp at hi
    -- some list is non-empty, so the fold chose a non-empty list
    cases hb : (pickFold ls none 0 ls.length).2 with
    | none =>
      rw [hb] at hp
      have := hp i (by omega)
      rw [this] at hi; simp at hi
    | some a =>
      rw [hb] at hp
      obtain ⟨halt, hnil, hmin⟩ := hp
      simp only
      cases hl : (pickFold ls none 0 ls.length).1.getD a [] with
      | nil =>
        have := hnil hl i (by omega)
        rw [this] at hi; simp at hi
      | cons x0 rest =>
        simp only
        by_cases hx0 : x = x0
        · rw [hx0]; exact List.mem_cons_self
        · refine List.mem_cons_of_mem _ (ih _ ?_ ?_ x ?_)
          · intro i'
            rw [getD_set]
            split
            · have := hs' a; rw [hl, List.pairwise_cons] at this; exact this.2
            · exact hs' i'
          · have := total_set (pickFold ls none 0 ls.length).1 a rest (by omega)
            rw [hl] at this
            simp only [List.length_cons] at this
            omega
          · by_cases hia : i = a
            · refine ⟨a, ?_⟩
              rw [getD_set, if_pos ⟨rfl, by omega⟩]
              rw [hia, hl] at hi
              rcases List.mem_cons.1 hi with h | h
              · exact absurd h hx0
              · exact h
            · refine ⟨i, ?_⟩
              rw [getD_set, if_neg (by intro hc; exact hia hc.1.symm)]
              exact hi

end C39.Disjoint
