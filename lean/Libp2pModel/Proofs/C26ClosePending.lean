import Libp2pModel.Proofs.C26Keys2
/-! `poll_close_stream` returning `Pending` is a no-op on the substream table -/
namespace C26
open C25 (Sid Role Frame)

/-- when the sink is not ready `poll_send_frame` changes nothing at all -/
theorem sendFrame_pending_eq (s : State) (f : Frame) (h : (sendFrame s f).2 = .pending) :
    (sendFrame s f).1 = s := by
  unfold sendFrame at h ⊢
  rcases hsr : sinkReady s with ⟨s1, b⟩
  rw [hsr] at h
  cases b with
  | false =>
    simp only
    unfold sinkReady at hsr
    split at hsr
    · split at hsr
      · simp only [Prod.mk.injEq] at hsr; exact hsr.1.symm
      · simp at hsr
    · simp at hsr
  | true =>
    simp only at h
    split at h <;> simp at h

/-- **Frame lemma for a pending close**: if `poll_close_stream(id)` returns `Pending`, every entry
of the substream table — state, receive buffer and histories, of `id` and of every other
substream — is exactly what it was, and so is everything else (only the internal order of the
table may differ: the entry was taken out and put back). -/
theorem close_pending_frame (s : State) (id : Sid) (h : (pollCloseStream s id).2 = .pending) :
    (∀ j, (pollCloseStream s id).1.get j = s.get j) ∧
    (pollCloseStream s id).1.pendQ = s.pendQ ∧ (pollCloseStream s id).1.blocking = s.blocking ∧
    (pollCloseStream s id).1.inq = s.inq ∧ (pollCloseStream s id).1.emitted = s.emitted ∧
    (pollCloseStream s id).1.status = s.status ∧ (pollCloseStream s id).1.openQ = s.openQ := by
  unfold pollCloseStream at h ⊢
  split at h
  · simp at h
  · split at h
    · simp at h
    · rename_i x hx
      have hid : x.id = id := (getSub_mem hx).2
      have key : (closeOpen s x id).2 = .pending →
          (∀ j, (closeOpen s x id).1.get j = s.get j) ∧
          (closeOpen s x id).1.pendQ = s.pendQ ∧ (closeOpen s x id).1.blocking = s.blocking ∧
          (closeOpen s x id).1.inq = s.inq ∧ (closeOpen s x id).1.emitted = s.emitted ∧
          (closeOpen s x id).1.status = s.status ∧ (closeOpen s x id).1.openQ = s.openQ := by
        intro hp
        unfold closeOpen at hp ⊢
        have he := sendFrame_pending_eq (s.del id) (.close id)
        rcases hsf : sendFrame (s.del id) (.close id) with ⟨s1, r⟩
        rw [hsf] at hp he
        cases r with
        | pending =>
          have e1 : s1 = s.del id := he rfl
          subst e1
          refine ⟨?_, rfl, rfl, rfl, rfl, rfl, rfl⟩
          intro j
          rw [get_put]
          by_cases hj : x.id = j
          · simp only [hj, ↓reduceIte]; rw [← hj, hid]; exact hx.symm
          · simp only [hj, ↓reduceIte]
            exact get_del_ne s id j (fun e => hj (by rw [hid, e]))
        | ready e => cases e <;> simp at hp
      split at h
      · simp at h
      · simp at h
      · simp at h
      · exact key h
      · exact key h

/-- in particular no buffered frame is touched -/
theorem close_pending_keeps_buffers (s : State) (id : Sid) (h : (pollCloseStream s id).2 = .pending)
    (j : Sid) (x : Sub) (hx : s.get j = some x) : (pollCloseStream s id).1.get j = some x := by
  rw [(close_pending_frame s id h).1 j]; exact hx

/-- `poll_close_stream`, whatever it returns, never changes a receive buffer or a receive history:
unless the connection fails, every entry keeps `buf`, `rx` and `dl` (only the protocol state of `id`
may move to `SendClosed`/`Closed`, and its send history grows by the `Close`). -/
theorem close_keeps_buffers (s : State) (id : Sid) (hne : ∀ k, (pollCloseStream s id).2 ≠ .ready (.error k))
    (j : Sid) (x : Sub) (hx : s.get j = some x) :
    ∃ x', (pollCloseStream s id).1.get j = some x' ∧ x'.buf = x.buf ∧ x'.rx = x.rx ∧ x'.dl = x.dl ∧
      x'.acc = x.acc := by
  unfold pollCloseStream at hne ⊢
  split
  · exact ⟨x, hx, rfl, rfl, rfl, rfl⟩
  · rename_i hg
    split
    · exact ⟨x, hx, rfl, rfl, rfl, rfl⟩
    · rename_i x0 hx0
      have hid : x0.id = id := (getSub_mem hx0).2
      have key : (∀ k, (closeOpen s x0 id).2 ≠ .ready (.error k)) →
          ∃ x', (closeOpen s x0 id).1.get j = some x' ∧ x'.buf = x.buf ∧ x'.rx = x.rx ∧ x'.dl = x.dl ∧
            x'.acc = x.acc := by
        intro hn
        unfold closeOpen at hn ⊢
        have hk := sendFrame_keeps (s.del id) (.close id)
        rcases hsf : sendFrame (s.del id) (.close id) with ⟨s1, r⟩
        rw [hsf] at hn hk
        have other : ∀ (y : Sub), y.id = id → j ≠ id → s1.subs = (s.del id).subs → (s1.put y).get j = some x := by
          intro y hy hj hs
          rw [get_put]
          have : ¬ (y.id = j) := fun e => hj (by rw [← e, hy])
          simp only [this, ↓reduceIte]
          unfold State.get; rw [hs]
          show getSub (removeSub s.subs id) j = _
          rw [getSub_removeSub_ne _ _ _ hj]; exact hx
        cases r with
        | pending =>
          have hs := (hk (by intro k; simp)).1
          by_cases hj : j = id
          · subst hj
            rw [hx0] at hx; simp only [Option.some.injEq] at hx; subst hx
            exact ⟨x0, by rw [get_put]; simp [hid], rfl, rfl, rfl, rfl⟩
          · exact ⟨x, other x0 hid hj hs, rfl, rfl, rfl, rfl⟩
        | ready e =>
          cases e with
          | error k => exact absurd rfl (hn k)
          | ok u =>
            have hs := (hk (by intro k; simp)).1
            by_cases hj : j = id
            · subst hj
              rw [hx0] at hx; simp only [Option.some.injEq] at hx; subst hx
              refine ⟨{ x0 with sent := x0.sent ++ [none], st := if x0.st = .opn then .sendClosed else .closed },
                ?_, rfl, rfl, rfl, rfl⟩
              rw [get_put]; simp [hid]
            · exact ⟨x, other _ hid hj hs, rfl, rfl, rfl, rfl⟩
      split
      · exact ⟨x, hx, rfl, rfl, rfl, rfl⟩
      · exact ⟨x, hx, rfl, rfl, rfl, rfl⟩
      · exact ⟨x, hx, rfl, rfl, rfl, rfl⟩
      · rename_i hst
        simp only [hg, hx0, hst] at hne
        exact key hne
      · rename_i hst
        simp only [hg, hx0, hst] at hne
        exact key hne

end C26
