import Libp2pModel.Model.Swarm
/-!
# Frame lemmas for the Swarm model: which state components each transition leaves alone
-/
namespace Swarm

theorem dial_frame (s : State) (v : Bool) (c : Cond) (p : Option Nat) (a : List Maddr) (e : Bool)
    (b : List Maddr) (d : Bool) (r : List Maddr) :
    let s' := (dial s v c p a e b d r).1
    s'.est = s.est ∧ s'.localPeer = s.localPeer ∧ s'.pendIn = s.pendIn ∧ s'.listened = s.listened ∧
    s'.cPI = s.cPI ∧ s'.cEI = s.cEI ∧ s'.cEO = s.cEO ∧ s'.peerIds = s.peerIds ∧
    s'.nextIncoming = s.nextIncoming := by
  unfold dial
  cases dialPeer s p a with
  | none => simp
  | some peer =>
    simp only [dialRejected, dialAccepted]
    (repeat' split) <;> simp

theorem establish_frame (s : State) (id p : Nat) (o md : Bool) (mk : Nat) (f : List Maddr) :
    let s' := (establish s id p o md mk f).1
    s'.est = s.est ++ [{ id, peer := p, out := o, muxDial := md, muxK := mk }] ∧
    s'.localPeer = s.localPeer ∧ s'.pendIn = s.pendIn ∧ s'.pendOut = s.pendOut ∧ s'.listened = s.listened ∧
    s'.cPI = s.cPI ∧ s'.cPO = s.cPO ∧ s'.peerIds = s.peerIds ∧ s'.nextId = s.nextId ∧
    s'.nextDial = s.nextDial ∧ s'.nextIncoming = s.nextIncoming := by
  simp [establish]

theorem closeConn_frame (s : State) (c : Nat) (g : Bool) :
    let s' := (closeConn s c g).1
    s'.est = s.est.filter (·.id != c) ∧
    s'.localPeer = s.localPeer ∧ s'.pendIn = s.pendIn ∧ s'.pendOut = s.pendOut ∧ s'.listened = s.listened ∧
    s'.cPI = s.cPI ∧ s'.cPO = s.cPO ∧ s'.peerIds = s.peerIds ∧ s'.nextId = s.nextId ∧
    s'.nextDial = s.nextDial ∧ s'.nextIncoming = s.nextIncoming := by
  unfold closeConn
  cases h : s.est.find? (·.id == c) with
  | none =>
    simp only [and_true]
    have : ∀ e ∈ s.est, (e.id != c) = true := by
      intro e he
      have := List.find?_eq_none.1 h e he
      simpa [bne] using this
    exact (List.filter_eq_self.2 this).symm
  | some e => simp

theorem closeMany_frame (cs : List Nat) : ∀ (s : State),
    let s' := (closeMany s cs).1
    s'.est = s.est.filter (fun e => !cs.contains e.id) ∧
    s'.localPeer = s.localPeer ∧ s'.pendIn = s.pendIn ∧ s'.pendOut = s.pendOut ∧ s'.listened = s.listened ∧
    s'.cPI = s.cPI ∧ s'.cPO = s.cPO ∧ s'.peerIds = s.peerIds ∧ s'.nextId = s.nextId ∧
    s'.nextDial = s.nextDial ∧ s'.nextIncoming = s.nextIncoming := by
  induction cs with
  | nil =>
    intro s
    simp only [closeMany, List.contains_nil, Bool.not_false, and_self, and_true]
    exact (List.filter_eq_self.2 (fun _ _ => rfl)).symm
  | cons c cs ih =>
    intro s
    simp only [closeMany]
    have h1 := closeConn_frame s c true
    have h2 := ih (closeConn s c true).1
    simp only at h1 h2
    obtain ⟨a1, a2, a3, a4, a5, a6, a7, a8, a9, a10, a11⟩ := h1
    obtain ⟨b1, b2, b3, b4, b5, b6, b7, b8, b9, b10, b11⟩ := h2
    refine ⟨?_, b2.trans a2, b3.trans a3, b4.trans a4, b5.trans a5, b6.trans a6, b7.trans a7,
      b8.trans a8, b9.trans a9, b10.trans a10, b11.trans a11⟩
    rw [b1, a1, List.filter_filter]
    apply List.filter_congr
    intro e _
    rw [List.contains_cons]
    cases h1 : e.id == c <;> cases h2 : cs.contains e.id <;> simp [bne, h1, h2]

theorem abortOne_frame (s : State) (c : Nat) :
    let s' := (abortOne s c).1
    s'.est = s.est ∧ s'.localPeer = s.localPeer ∧ s'.pendIn = s.pendIn ∧ s'.listened = s.listened ∧
    s'.cPI = s.cPI ∧ s'.cEI = s.cEI ∧ s'.cEO = s.cEO ∧ s'.peerIds = s.peerIds ∧ s'.nextId = s.nextId ∧
    s'.nextDial = s.nextDial ∧ s'.nextIncoming = s.nextIncoming := by
  unfold abortOne
  cases s.pendOut.find? (·.id == c) <;> simp [removePendOut]

theorem abortMany_frame (cs : List Nat) : ∀ (s : State),
    let s' := (abortMany s cs).1
    s'.est = s.est ∧ s'.localPeer = s.localPeer ∧ s'.pendIn = s.pendIn ∧ s'.listened = s.listened ∧
    s'.cPI = s.cPI ∧ s'.cEI = s.cEI ∧ s'.cEO = s.cEO ∧ s'.peerIds = s.peerIds ∧ s'.nextId = s.nextId ∧
    s'.nextDial = s.nextDial ∧ s'.nextIncoming = s.nextIncoming := by
  induction cs with
  | nil => intro s; simp [abortMany]
  | cons c cs ih =>
    intro s
    simp only [abortMany]
    have h1 := abortOne_frame s c
    have h2 := ih (abortOne s c).1
    simp only at h1 h2
    obtain ⟨a1, a2, a3, a4, a5, a6, a7, a8, a9, a10, a11⟩ := h1
    obtain ⟨b1, b2, b3, b4, b5, b6, b7, b8, b9, b10, b11⟩ := h2
    exact ⟨b1.trans a1, b2.trans a2, b3.trans a3, b4.trans a4, b5.trans a5, b6.trans a6, b7.trans a7,
      b8.trans a8, b9.trans a9, b10.trans a10, b11.trans a11⟩

/-- what `disconnect` returns when its oracles are accepted -/
theorem disconnect_eq (s : State) (p : Nat) (o a : List Nat) (r : State × List Ev)
    (h : disconnect s p o a = some r) :
    r = ((abortMany (closeMany s o).1 a).1, (closeMany s o).2 ++ (abortMany (closeMany s o).1 a).2) := by
  unfold disconnect at h
  simp only at h
  split at h
  · simp only [Option.some.injEq] at h
    rw [← h]
  · cases h

end Swarm
