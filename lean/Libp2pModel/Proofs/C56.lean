import Libp2pModel.Model.C56
/-!
# C56 — invariants of the WebRTC stream state machine and their one-step preservation
-/
namespace C56

/-- the write half is closed for good (FIN flushed, or the remote said STOP_SENDING / RESET) -/
def closedW : State → Bool
  | .writeClosed | .closingRead true _ | .bothClosed _ => true
  | _ => false

/-- the read half is closed for good -/
def closedR : State → Bool
  | .readClosed | .closingWrite true _ | .bothClosed _ => true
  | _ => false

/-- a FIN has been handed to the sink in this state's past, or the write half closed otherwise -/
def finned : State → Bool
  | .closingWrite _ .messageSent => true
  | s => closedW s

def stopped : State → Bool
  | .closingRead _ .messageSent => true
  | s => closedR s

/-- Global invariant: the drop notifier is taken only once the write half is closed for good;
a FIN / STOP_SENDING has been sent at most once, and only in states that never send another. -/
structure Inv (σ : St) : Prop where
  notif : σ.notifier = false → closedW σ.st = true
  fin : σ.finSent = 0 ∨ (σ.finSent = 1 ∧ finned σ.st = true)
  stop : σ.stopSent = 0 ∨ (σ.stopSent = 1 ∧ stopped σ.st = true)

theorem inv_init : Inv init := ⟨by simp [init], by simp [init], by simp [init]⟩

/-! ### state-level facts (finite case analysis) -/

theorem closedW_handle (s : State) (f : Flag) (b : List Nat) :
    closedW s = true → closedW (handleInboundFlag s f b).1 = true := by
  cases s <;> cases f <;> simp [closedW, handleInboundFlag] <;>
    (try (rename_i x y; cases x <;> simp [closedW]))

theorem closedR_handle (s : State) (f : Flag) (b : List Nat) :
    closedR s = true → closedR (handleInboundFlag s f b).1 = true := by
  cases s <;> cases f <;> simp [closedR, handleInboundFlag] <;>
    (try (rename_i x y; cases x <;> simp [closedR]))

theorem finned_handle (s : State) (f : Flag) (b : List Nat) :
    finned s = true → finned (handleInboundFlag s f b).1 = true := by
  cases s <;> cases f <;> simp [finned, closedW, handleInboundFlag] <;>
    (try (rename_i x y; cases x <;> cases y <;> simp [finned, closedW]))

theorem stopped_handle (s : State) (f : Flag) (b : List Nat) :
    stopped s = true → stopped (handleInboundFlag s f b).1 = true := by
  cases s <;> cases f <;> simp [stopped, closedR, handleInboundFlag] <;>
    (try (rename_i x y; cases x <;> cases y <;> simp [stopped, closedR]))

theorem handle_rbuf (s : State) (f : Flag) : (handleInboundFlag s f []).2 = [] := by
  cases s <;> cases f <;> simp [handleInboundFlag]

theorem inv_applyFlag (σ : St) (f : Flag) (h : Inv σ) : Inv (applyFlag σ f) := by
  obtain ⟨h1, h2, h3⟩ := h
  refine ⟨?_, ?_, ?_⟩
  · intro hn; exact closedW_handle _ _ _ (h1 hn)
  · rcases h2 with h2 | ⟨h2, h2'⟩
    · exact Or.inl h2
    · exact Or.inr ⟨h2, finned_handle _ _ _ h2'⟩
  · rcases h3 with h3 | ⟨h3, h3'⟩
    · exact Or.inl h3
    · exact Or.inr ⟨h3, stopped_handle _ _ _ h3'⟩

/-- changing only channel fields keeps the invariant -/
theorem inv_congr (σ σ' : St) (h : Inv σ) (e1 : σ'.st = σ.st) (e2 : σ'.notifier = σ.notifier)
    (e3 : σ'.finSent = σ.finSent) (e4 : σ'.stopSent = σ.stopSent) : Inv σ' := by
  obtain ⟨h1, h2, h3⟩ := h
  exact ⟨by rw [e1, e2]; exact h1, by rw [e1, e3]; exact h2, by rw [e1, e4]; exact h3⟩

theorem ioPollNext_fields (σ : St) :
    (ioPollNext σ).1.st = σ.st ∧ (ioPollNext σ).1.notifier = σ.notifier ∧
    (ioPollNext σ).1.finSent = σ.finSent ∧ (ioPollNext σ).1.stopSent = σ.stopSent ∧
    (ioPollNext σ).1.rbuf = σ.rbuf ∧ (ioPollNext σ).1.obuf = σ.obuf ∧
    (ioPollNext σ).1.blocked = σ.blocked ∧ (ioPollNext σ).1.werr = σ.werr ∧
    (ioPollNext σ).1.inq.length ≤ σ.inq.length ∧
    (∀ f d, (ioPollNext σ).2 = .msg f d → (ioPollNext σ).1.inq.length < σ.inq.length) := by
  unfold ioPollNext
  split
  · rename_i m rest hq
    split
    · simp [hq]
    · split <;> simp [hq]
  · rename_i hq
    split <;> simp [hq]

theorem tWrite_fields (σ : St) :
    (tWrite σ).1.st = σ.st ∧ (tWrite σ).1.notifier = σ.notifier ∧
    (tWrite σ).1.finSent = σ.finSent ∧ (tWrite σ).1.stopSent = σ.stopSent ∧
    (tWrite σ).1.rbuf = σ.rbuf := by
  unfold tWrite; split
  · simp
  · split <;> simp

theorem pollReady_fields (σ : St) :
    (pollReady σ).1.st = σ.st ∧ (pollReady σ).1.notifier = σ.notifier ∧
    (pollReady σ).1.finSent = σ.finSent ∧ (pollReady σ).1.stopSent = σ.stopSent ∧
    (pollReady σ).1.rbuf = σ.rbuf := by
  unfold pollReady; split
  · exact tWrite_fields σ
  · simp

theorem sinkFlush_fields (σ : St) :
    (sinkFlush σ).1.st = σ.st ∧ (sinkFlush σ).1.notifier = σ.notifier ∧
    (sinkFlush σ).1.finSent = σ.finSent ∧ (sinkFlush σ).1.stopSent = σ.stopSent ∧
    (sinkFlush σ).1.rbuf = σ.rbuf := by
  unfold sinkFlush; split
  · exact tWrite_fields σ
  · simp

end C56

namespace C56

/-! ### poll_read -/

theorem pollReadLoop_nonempty (fuel : Nat) (σ : St) (n : Nat) (hne : σ.rbuf ≠ []) (h : Inv σ) :
    Inv (pollReadLoop (fuel + 1) σ n).1 ∧ (pollReadLoop (fuel + 1) σ n).2.isPanic = false ∧
    (pollReadLoop (fuel + 1) σ n).1.st = σ.st := by
  unfold pollReadLoop
  split
  · exact ⟨h, rfl, rfl⟩
  · simp only [hne, ne_eq, not_false_eq_true, ↓reduceIte]
    refine ⟨inv_congr σ _ h rfl rfl rfl rfl, ?_, ?_⟩ <;> simp [Res.isPanic]

theorem pollRead_inv (σ : St) (n : Nat) (h : Inv σ) :
    Inv (pollRead σ n).1 ∧ (pollRead σ n).2.isPanic = false := by
  unfold pollRead pollReadLoop
  split
  · exact ⟨h, rfl⟩
  · by_cases hne : σ.rbuf ≠ []
    · simp only [hne, ne_eq, not_false_eq_true, ↓reduceIte]
      exact ⟨inv_congr σ _ h rfl rfl rfl rfl, rfl⟩
    · simp only [hne, ↓reduceIte]
      have hempty : σ.rbuf = [] := by simpa using hne
      obtain ⟨f1, f2, f3, f4, f5, -⟩ := ioPollNext_fields σ
      have hinv1 : Inv (ioPollNext σ).1 := inv_congr σ _ h f1 f2 f3 f4
      have hr1 : (ioPollNext σ).1.rbuf = [] := by rw [f5, hempty]
      generalize ioPollNext σ = p at hinv1 hr1
      obtain ⟨σ1, nx⟩ := p
      simp only at hinv1 hr1
      cases nx with
      | pending => exact ⟨hinv1, rfl⟩
      | err => exact ⟨hinv1, rfl⟩
      | eof => exact ⟨inv_applyFlag σ1 .fin hinv1, rfl⟩
      | msg flag data =>
        cases flag with
        | none =>
          simp only [hr1, ne_eq, not_true_eq_false, ↓reduceIte]
          split
          · rename_i b bs
            have := pollReadLoop_nonempty 1 { σ1 with rbuf := b :: bs } n (by simp)
              (inv_congr σ1 _ hinv1 rfl rfl rfl rfl)
            exact ⟨this.1, this.2.1⟩
          · exact ⟨hinv1, rfl⟩
        | some f =>
          have hinv2 := inv_applyFlag σ1 f hinv1
          have hr2 : (applyFlag σ1 f).rbuf = [] := by
            simp only [applyFlag, hr1]; exact handle_rbuf _ _
          simp only [hr2, ne_eq, not_true_eq_false, ↓reduceIte]
          split
          · rename_i b bs
            have := pollReadLoop_nonempty 1 { applyFlag σ1 f with rbuf := b :: bs } n (by simp)
              (inv_congr (applyFlag σ1 f) _ hinv2 rfl rfl rfl rfl)
            exact ⟨this.1, this.2.1⟩
          · exact ⟨hinv2, rfl⟩

/-- a read in a state whose read half is not open fails at once, touches nothing -/
theorem pollRead_closed (σ : St) (n : Nat) (h : readOpen σ.st = false) :
    ∃ k, pollRead σ n = (σ, .err k) ∧ readBarrier σ.st = some k := by
  unfold pollRead pollReadLoop
  unfold readOpen at h
  cases hb : readBarrier σ.st with
  | none => simp [hb] at h
  | some k => exact ⟨k, rfl, rfl⟩

/-! ### poll_write -/

theorem drainFlags_inv : ∀ (fuel : Nat) (σ : St), Inv σ → σ.inq.length < fuel →
    Inv (drainFlags fuel σ).1 ∧ (∀ r, (drainFlags fuel σ).2 = some r → r = .err .invalidData) ∧
    (drainFlags fuel σ).1.obuf = σ.obuf ∧ (drainFlags fuel σ).1.blocked = σ.blocked ∧
    (drainFlags fuel σ).1.werr = σ.werr := by
  intro fuel
  induction fuel with
  | zero => intro σ _ hl; omega
  | succ fuel ih =>
    intro σ h hl
    unfold drainFlags
    split
    · obtain ⟨f1, f2, f3, f4, f5, f6, f7, f8, f9, f10⟩ := ioPollNext_fields σ
      have hinv1 : Inv (ioPollNext σ).1 := inv_congr σ _ h f1 f2 f3 f4
      generalize hp : ioPollNext σ = p at hinv1 f6 f7 f8 f9 f10
      obtain ⟨σ1, nx⟩ := p
      simp only at hinv1 f6 f7 f8 f9 f10
      cases nx with
      | pending => exact ⟨hinv1, by simp, f6, f7, f8⟩
      | err => exact ⟨hinv1, by simp, f6, f7, f8⟩
      | eof => exact ⟨hinv1, by simp, f6, f7, f8⟩
      | msg flag data =>
        have hlt := f10 flag data rfl
        cases flag with
        | none =>
          simp only
          have := ih σ1 hinv1 (by omega)
          exact ⟨this.1, this.2.1, by rw [this.2.2.1, f6], by rw [this.2.2.2.1, f7], by rw [this.2.2.2.2, f8]⟩
        | some f =>
          simp only
          have := ih (applyFlag σ1 f) (inv_applyFlag σ1 f hinv1) (by simp only [applyFlag]; omega)
          exact ⟨this.1, this.2.1, by rw [this.2.2.1]; simpa [applyFlag] using f6,
            by rw [this.2.2.2.1]; simpa [applyFlag] using f7, by rw [this.2.2.2.2]; simpa [applyFlag] using f8⟩
    · exact ⟨h, by simp, rfl, rfl, rfl⟩

theorem drainFlags_res : ∀ (fuel : Nat) (σ : St) (r : Res), (drainFlags fuel σ).2 = some r →
    r = .err .invalidData ∨ r = .panic .fuel := by
  intro fuel
  induction fuel with
  | zero => intro σ r h; simp [drainFlags] at h; exact Or.inr h.symm
  | succ fuel ih =>
    intro σ r h
    unfold drainFlags at h
    split at h
    · split at h
      · simp at h; exact Or.inl h.symm
      · exact ih _ _ h
      · exact ih _ _ h
      · simp at h
      · simp at h
    · simp at h

/-- outside `ReadClosed` the flag-draining loop of `poll_write` does nothing -/
theorem drainFlags_skip (fuel : Nat) (σ : St) (h : readFlagsInAsyncWrite σ.st = false) :
    drainFlags (fuel + 1) σ = (σ, none) := by
  unfold drainFlags; simp [h]

theorem pollWrite_inv (σ : St) (d : List Nat) (h : Inv σ) :
    Inv (pollWrite σ d).1 ∧ (pollWrite σ d).2.1.isPanic = false := by
  unfold pollWrite
  obtain ⟨hi, hr, -⟩ := drainFlags_inv (σ.inq.length + 1) σ h (by omega)
  generalize drainFlags (σ.inq.length + 1) σ = p at hi hr
  obtain ⟨σ1, r⟩ := p
  simp only at hi hr
  cases r with
  | some r => simp only; rw [hr r rfl]; exact ⟨hi, rfl⟩
  | none =>
    simp only
    split
    · exact ⟨hi, rfl⟩
    · obtain ⟨g1, g2, g3, g4, -⟩ := pollReady_fields σ1
      have hi2 : Inv (pollReady σ1).1 := inv_congr σ1 _ hi g1 g2 g3 g4
      generalize pollReady σ1 = q at hi2
      obtain ⟨σ2, sk, w⟩ := q
      cases sk with
      | pending => exact ⟨hi2, rfl⟩
      | err => exact ⟨hi2, rfl⟩
      | ready => exact ⟨inv_congr σ2 _ hi2 rfl rfl rfl rfl, rfl⟩

/-- a write in a state whose write half is not open fails at once: no inbound frame is consumed,
nothing is handed to the sink, the state is untouched -/
theorem pollWrite_closed (σ : St) (d : List Nat) (h : writeOpen σ.st = false) :
    ∃ k, pollWrite σ d = (σ, .err k, []) ∧ writeBarrier σ.st = some k := by
  have hrf : readFlagsInAsyncWrite σ.st = false := by
    cases hs : σ.st <;> simp [hs, writeOpen, writeBarrier, readFlagsInAsyncWrite] at h ⊢
  unfold pollWrite
  rw [drainFlags_skip _ σ hrf]
  unfold writeOpen at h
  cases hb : writeBarrier σ.st with
  | none => simp [hb] at h
  | some k => exact ⟨k, by simp [hb], rfl⟩

/-- `poll_write` returns `Ok(n)` only if the write barrier was passed, in a state that is still
the stream's state when it returns -/
theorem pollWrite_ok (σ : St) (d : List Nat) (n : Nat) (h : (pollWrite σ d).2.1 = .okN n) :
    writeOpen (writeBarrierState σ) = true ∧ (pollWrite σ d).1.st = writeBarrierState σ ∧
    n = min d.length maxDataLen := by
  unfold pollWrite at h ⊢
  unfold writeBarrierState
  generalize hp : drainFlags (σ.inq.length + 1) σ = p at h ⊢
  obtain ⟨σ1, r⟩ := p
  cases r with
  | some r =>
    have := drainFlags_res (σ.inq.length + 1) σ r (by rw [hp])
    simp only at h
    rcases this with rfl | rfl <;> simp at h
  | none =>
    simp only at h ⊢
    cases hb : writeBarrier σ1.st with
    | some k => simp [hb] at h
    | none =>
      simp only [hb] at h ⊢
      obtain ⟨g1, -⟩ := pollReady_fields σ1
      generalize pollReady σ1 = q at h g1 ⊢
      obtain ⟨σ2, sk, w⟩ := q
      cases sk with
      | pending => simp at h
      | err => simp at h
      | ready =>
        simp only [Res.okN.injEq] at h
        simp only at g1
        exact ⟨by simp [writeOpen, hb], g1, h.symm⟩

end C56

namespace C56

/-! ### poll_flush, poll_close, poll_close_read -/

theorem pollFlush_inv (σ : St) (h : Inv σ) :
    Inv (pollFlush σ).1 ∧ (pollFlush σ).2.1.isPanic = false ∧ (pollFlush σ).1.st = σ.st ∧
    (pollFlush σ).1.rbuf = σ.rbuf := by
  unfold pollFlush
  obtain ⟨g1, g2, g3, g4, g5⟩ := sinkFlush_fields σ
  have hi : Inv (sinkFlush σ).1 := inv_congr σ _ h g1 g2 g3 g4
  generalize sinkFlush σ = q at hi g1 g5
  obtain ⟨σ1, sk, w⟩ := q
  cases sk <;> exact ⟨hi, rfl, g1, g5⟩

theorem closeMS (fuel : Nat) (σ : St) (rc : Bool) (hst : σ.st = .closingWrite rc .messageSent)
    (h : Inv σ) :
    Inv (pollCloseLoop (fuel + 1) σ).1 ∧ (pollCloseLoop (fuel + 1) σ).2.1.isPanic = false := by
  unfold pollCloseLoop
  simp only [hst, closeWriteBarrier]
  have hσ : { σ with st := State.closingWrite rc Closing.messageSent } = σ := by
    cases σ; simp_all
  rw [hσ]
  obtain ⟨g1, g2, g3, g4, -⟩ := sinkFlush_fields σ
  have hi : Inv (sinkFlush σ).1 := inv_congr σ _ h g1 g2 g3 g4
  generalize sinkFlush σ = q at hi g1 g2 g3 g4
  obtain ⟨σ1, sk, w⟩ := q
  simp only at hi g1 g2 g3 g4
  cases sk with
  | pending => exact ⟨hi, rfl⟩
  | err => exact ⟨hi, rfl⟩
  | ready =>
    simp only [g1, hst]
    have hn : σ1.notifier = true := by
      cases hnn : σ1.notifier with
      | true => rfl
      | false => have := hi.notif hnn; simp [g1, hst, closedW] at this
    obtain ⟨-, hf, hs⟩ := hi
    rw [g1, hst] at hf hs
    cases rc with
    | true =>
      simp only [writeClosed, ↓reduceIte, hn]
      refine ⟨⟨by simp [closedW], ?_, ?_⟩, rfl⟩
      · rcases hf with hf | hf
        · exact Or.inl hf
        · exact Or.inr ⟨hf.1, by simp [finned, closedW]⟩
      · rcases hs with hs | hs
        · exact Or.inl hs
        · exact Or.inr ⟨hs.1, by simp [stopped, closedR]⟩
    | false =>
      simp only [writeClosed, ↓reduceIte, hn]
      refine ⟨⟨by simp [closedW], ?_, ?_⟩, rfl⟩
      · rcases hf with hf | hf
        · exact Or.inl hf
        · exact Or.inr ⟨hf.1, by simp [finned, closedW]⟩
      · rcases hs with hs | hs
        · exact Or.inl hs
        · simp [stopped, closedR] at hs

theorem closeRQ (fuel : Nat) (σ : St) (rc : Bool) (hst : σ.st = .closingWrite rc .requested)
    (h : Inv σ) :
    Inv (pollCloseLoop (fuel + 2) σ).1 ∧ (pollCloseLoop (fuel + 2) σ).2.1.isPanic = false := by
  unfold pollCloseLoop
  simp only [hst, closeWriteBarrier]
  have hσ : { σ with st := State.closingWrite rc Closing.requested } = σ := by
    cases σ; simp_all
  rw [hσ]
  obtain ⟨g1, g2, g3, g4, -⟩ := pollReady_fields σ
  have hi : Inv (pollReady σ).1 := inv_congr σ _ h g1 g2 g3 g4
  generalize pollReady σ = q at hi g1 g2 g3 g4
  obtain ⟨σ1, sk, w⟩ := q
  simp only at hi g1 g2 g3 g4
  cases sk with
  | pending => exact ⟨hi, rfl⟩
  | err => exact ⟨hi, rfl⟩
  | ready =>
    simp only [g1, hst, closeWriteMessageSent, ↓reduceIte]
    have hn : σ1.notifier = true := by
      cases hnn : σ1.notifier with
      | true => rfl
      | false => have := hi.notif hnn; simp [g1, hst, closedW] at this
    obtain ⟨-, hf, hs⟩ := hi
    rw [g1, hst] at hf hs
    have hf0 : σ1.finSent = 0 := by
      rcases hf with hf | hf
      · exact hf
      · simp [finned, closedW] at hf
    have hinv' : Inv { st := State.closingWrite rc Closing.messageSent, rbuf := σ1.rbuf, notifier := σ1.notifier, inq := σ1.inq, eof := σ1.eof, blocked := σ1.blocked, werr := σ1.werr, obuf := σ1.obuf ++ [OutFrame.fin], finSent := σ1.finSent + 1, stopSent := σ1.stopSent } := by
      refine ⟨by simp [hn], Or.inr ⟨by simp [hf0], by simp [finned]⟩, ?_⟩
      rcases hs with hs | hs
      · exact Or.inl hs
      · refine Or.inr ⟨hs.1, ?_⟩
        have h2 := hs.2
        cases rc <;> simp [stopped, closedR] at h2 ⊢
    have := closeMS fuel _ rc rfl hinv'
    exact ⟨this.1, this.2⟩

theorem pollClose_inv (σ : St) (h : Inv σ) :
    Inv (pollClose σ).1 ∧ (pollClose σ).2.1.isPanic = false := by
  unfold pollClose
  cases hst : σ.st with
  | closingWrite rc inner =>
    cases inner with
    | requested => exact closeRQ 1 σ rc hst h
    | messageSent => exact closeMS 2 σ rc hst h
  | «open» =>
    have hinv' : Inv { σ with st := State.closingWrite false Closing.requested } := by
      obtain ⟨h1, h2, h3⟩ := h
      rw [hst] at h1 h2 h3
      refine ⟨?_, ?_, ?_⟩
      · intro hn; have := h1 hn; simp [closedW] at this
      · rcases h2 with h2 | h2
        · exact Or.inl h2
        · simp [finned, closedW] at h2
      · rcases h3 with h3 | h3
        · exact Or.inl h3
        · simp [stopped, closedR] at h3
    have := closeRQ 1 { σ with st := State.closingWrite false Closing.requested } false rfl hinv'
    unfold pollCloseLoop
    simp only [hst, closeWriteBarrier]
    unfold pollCloseLoop at this
    simpa only [closeWriteBarrier] using this
  | readClosed =>
    have hinv' : Inv { σ with st := State.closingWrite true Closing.requested } := by
      obtain ⟨h1, h2, h3⟩ := h
      rw [hst] at h1 h2 h3
      refine ⟨?_, ?_, ?_⟩
      · intro hn; have := h1 hn; simp [closedW] at this
      · rcases h2 with h2 | h2
        · exact Or.inl h2
        · simp [finned, closedW] at h2
      · rcases h3 with h3 | h3
        · exact Or.inl h3
        · exact Or.inr ⟨h3.1, by simp [stopped, closedR]⟩
    have := closeRQ 1 { σ with st := State.closingWrite true Closing.requested } true rfl hinv'
    unfold pollCloseLoop
    simp only [hst, closeWriteBarrier]
    unfold pollCloseLoop at this
    simpa only [closeWriteBarrier] using this
  | writeClosed =>
    unfold pollCloseLoop
    simp only [hst, closeWriteBarrier]
    exact ⟨inv_congr σ _ h (by simp [hst]) rfl rfl rfl, rfl⟩
  | closingRead wc i =>
    unfold pollCloseLoop
    cases wc <;> simp only [hst, closeWriteBarrier] <;>
      exact ⟨inv_congr σ _ h (by simp [hst]) rfl rfl rfl, rfl⟩
  | bothClosed r =>
    unfold pollCloseLoop
    cases r <;> simp only [hst, closeWriteBarrier] <;>
      exact ⟨inv_congr σ _ h (by simp [hst]) rfl rfl rfl, rfl⟩

end C56

namespace C56

theorem closeReadMS (fuel : Nat) (σ : St) (wc : Bool) (hst : σ.st = .closingRead wc .messageSent)
    (h : Inv σ) :
    Inv (pollCloseReadLoop (fuel + 1) σ).1 ∧ (pollCloseReadLoop (fuel + 1) σ).2.1.isPanic = false := by
  unfold pollCloseReadLoop
  simp only [hst, closeReadBarrier]
  have hσ : { σ with st := State.closingRead wc Closing.messageSent } = σ := by
    cases σ; simp_all
  rw [hσ]
  obtain ⟨g1, g2, g3, g4, -⟩ := sinkFlush_fields σ
  have hi : Inv (sinkFlush σ).1 := inv_congr σ _ h g1 g2 g3 g4
  generalize sinkFlush σ = q at hi g1 g2 g3 g4
  obtain ⟨σ1, sk, w⟩ := q
  simp only at hi g1 g2 g3 g4
  cases sk with
  | pending => exact ⟨hi, rfl⟩
  | err => exact ⟨hi, rfl⟩
  | ready =>
    simp only [g1, hst]
    obtain ⟨hnf, hf, hs⟩ := hi
    rw [g1, hst] at hnf hf hs
    cases wc with
    | true =>
      simp only [readClosed, ↓reduceIte]
      refine ⟨⟨by simp [closedW], ?_, ?_⟩, rfl⟩
      · rcases hf with hf | hf
        · exact Or.inl hf
        · exact Or.inr ⟨hf.1, by simp [finned, closedW]⟩
      · rcases hs with hs | hs
        · exact Or.inl hs
        · exact Or.inr ⟨hs.1, by simp [stopped, closedR]⟩
    | false =>
      simp only [readClosed, ↓reduceIte]
      refine ⟨⟨?_, ?_, ?_⟩, rfl⟩
      · intro hn; have := hnf hn; simp [closedW] at this
      · rcases hf with hf | hf
        · exact Or.inl hf
        · simp [finned, closedW] at hf
      · rcases hs with hs | hs
        · exact Or.inl hs
        · exact Or.inr ⟨hs.1, by simp [stopped, closedR]⟩

theorem closeReadRQ (fuel : Nat) (σ : St) (wc : Bool) (hst : σ.st = .closingRead wc .requested)
    (h : Inv σ) :
    Inv (pollCloseReadLoop (fuel + 2) σ).1 ∧ (pollCloseReadLoop (fuel + 2) σ).2.1.isPanic = false := by
  unfold pollCloseReadLoop
  simp only [hst, closeReadBarrier]
  have hσ : { σ with st := State.closingRead wc Closing.requested } = σ := by
    cases σ; simp_all
  rw [hσ]
  obtain ⟨g1, g2, g3, g4, -⟩ := pollReady_fields σ
  have hi : Inv (pollReady σ).1 := inv_congr σ _ h g1 g2 g3 g4
  generalize pollReady σ = q at hi g1 g2 g3 g4
  obtain ⟨σ1, sk, w⟩ := q
  simp only at hi g1 g2 g3 g4
  cases sk with
  | pending => exact ⟨hi, rfl⟩
  | err => exact ⟨hi, rfl⟩
  | ready =>
    simp only [g1, hst, closeReadMessageSent, ↓reduceIte]
    obtain ⟨hnf, hf, hs⟩ := hi
    rw [g1, hst] at hnf hf hs
    have hs0 : σ1.stopSent = 0 := by
      rcases hs with hs | hs
      · exact hs
      · simp [stopped, closedR] at hs
    have hinv' : Inv { st := State.closingRead wc Closing.messageSent, rbuf := σ1.rbuf, notifier := σ1.notifier, inq := σ1.inq, eof := σ1.eof, blocked := σ1.blocked, werr := σ1.werr, obuf := σ1.obuf ++ [OutFrame.stopSending], finSent := σ1.finSent, stopSent := σ1.stopSent + 1 } := by
      refine ⟨?_, ?_, Or.inr ⟨by simp [hs0], by simp [stopped]⟩⟩
      · intro hn
        have h2 := hnf hn
        cases wc <;> simp [closedW] at h2 ⊢
      · rcases hf with hf | hf
        · exact Or.inl hf
        · refine Or.inr ⟨hf.1, ?_⟩
          have h2 := hf.2
          cases wc <;> simp [finned, closedW] at h2 ⊢
    have := closeReadMS fuel _ wc rfl hinv'
    exact ⟨this.1, this.2⟩

theorem pollCloseRead_inv (σ : St) (h : Inv σ) :
    Inv (pollCloseRead σ).1 ∧ (pollCloseRead σ).2.1.isPanic = false := by
  unfold pollCloseRead
  cases hst : σ.st with
  | closingRead wc inner =>
    cases inner with
    | requested => exact closeReadRQ 1 σ wc hst h
    | messageSent => exact closeReadMS 2 σ wc hst h
  | «open» =>
    have hinv' : Inv { σ with st := State.closingRead false Closing.requested } := by
      obtain ⟨h1, h2, h3⟩ := h
      rw [hst] at h1 h2 h3
      refine ⟨?_, ?_, ?_⟩
      · intro hn; have := h1 hn; simp [closedW] at this
      · rcases h2 with h2 | h2
        · exact Or.inl h2
        · simp [finned, closedW] at h2
      · rcases h3 with h3 | h3
        · exact Or.inl h3
        · simp [stopped, closedR] at h3
    have := closeReadRQ 1 { σ with st := State.closingRead false Closing.requested } false rfl hinv'
    unfold pollCloseReadLoop
    simp only [hst, closeReadBarrier]
    unfold pollCloseReadLoop at this
    simpa only [closeReadBarrier] using this
  | writeClosed =>
    have hinv' : Inv { σ with st := State.closingRead true Closing.requested } := by
      obtain ⟨h1, h2, h3⟩ := h
      rw [hst] at h1 h2 h3
      refine ⟨by simp [closedW], ?_, ?_⟩
      · rcases h2 with h2 | h2
        · exact Or.inl h2
        · exact Or.inr ⟨h2.1, by simp [finned, closedW]⟩
      · rcases h3 with h3 | h3
        · exact Or.inl h3
        · simp [stopped, closedR] at h3
    have := closeReadRQ 1 { σ with st := State.closingRead true Closing.requested } true rfl hinv'
    unfold pollCloseReadLoop
    simp only [hst, closeReadBarrier]
    unfold pollCloseReadLoop at this
    simpa only [closeReadBarrier] using this
  | readClosed =>
    unfold pollCloseReadLoop
    simp only [hst, closeReadBarrier]
    exact ⟨inv_congr σ _ h (by simp [hst]) rfl rfl rfl, rfl⟩
  | closingWrite rc i =>
    unfold pollCloseReadLoop
    cases rc <;> simp only [hst, closeReadBarrier] <;>
      exact ⟨inv_congr σ _ h (by simp [hst]) rfl rfl rfl, rfl⟩
  | bothClosed r =>
    unfold pollCloseReadLoop
    cases r <;> simp only [hst, closeReadBarrier] <;>
      exact ⟨inv_congr σ _ h (by simp [hst]) rfl rfl rfl, rfl⟩

/-! ### the whole step -/

theorem step_inv (σ : St) (o : Op) (h : Inv σ) :
    Inv (step σ o).1 ∧ (step σ o).2.res.isPanic = false := by
  cases o with
  | read n => exact pollRead_inv σ n h
  | write d => exact pollWrite_inv σ d h
  | flush => have := pollFlush_inv σ h; exact ⟨this.1, this.2.1⟩
  | close => exact pollClose_inv σ h
  | closeRead => exact pollCloseRead_inv σ h
  | inject m => exact ⟨inv_congr σ _ h rfl rfl rfl rfl, rfl⟩
  | eof => exact ⟨inv_congr σ _ h rfl rfl rfl rfl, rfl⟩
  | block b => exact ⟨inv_congr σ _ h rfl rfl rfl rfl, rfl⟩
  | werr b => exact ⟨inv_congr σ _ h rfl rfl rfl rfl, rfl⟩

end C56
