import Libp2pModel.Proofs.C14Net
import Libp2pModel.Model.C14_NetLazy
/-!
# C14 helper: the byte-level refinement extended to optimistic `V1Lazy` application data
-/
namespace C14
open Mss

/-- enough fuel is enough: every consumed frame takes at least one byte -/
theorem runBytes_fuel {σ : Type} (step : σ → RdEv → σ × List Msg) (isDone : σ → Bool) :
    ∀ (f1 f2 : Nat) (s : σ) (buf : Bytes), buf.length < f1 → buf.length < f2 →
      runBytes step isDone f1 s buf = runBytes step isDone f2 s buf := by
  intro f1
  induction f1 with
  | zero => intro f2 s buf h; omega
  | succ f1 ih =>
    intro f2 s buf h1 h2
    cases f2 with
    | zero => omega
    | succ f2 =>
      rw [runBytes, runBytes]
      split
      · rfl
      · cases hd : frameDec buf with
        | none => rfl
        | some p =>
          obtain ⟨fr, rest⟩ := p
          have := C15.frameDec_progress _ _ _ hd
          simp only
          rw [ih f2 _ rest (by omega) (by omega)]

/-- running over the wire image of messages none of which is reached in a finished state, and
then over whatever follows (`X`) -/
theorem runBytes_through {σ : Type} (step : σ → RdEv → σ × List Msg) (isDone : σ → Bool) :
    ∀ (ms : List Msg) (s : σ) (X : Bytes) (fuel : Nat), (∀ m ∈ ms, wireOk m) →
      NotDoneBefore step isDone s ms →
      runBytes step isDone (fuel + ms.length) s (wireOfAll ms ++ X) =
        ((runBytes step isDone fuel (runSteps step s (ms.map .msg)).1 X).1,
         (runSteps step s (ms.map .msg)).2 ++ (runBytes step isDone fuel (runSteps step s (ms.map .msg)).1 X).2.1,
         (runBytes step isDone fuel (runSteps step s (ms.map .msg)).1 X).2.2) := by
  intro ms
  induction ms with
  | nil => intro s X fuel _ _; simp [wireOfAll, runSteps]
  | cons m ms ih =>
    intro s X fuel hw hnd
    obtain ⟨h0, hrest⟩ := hnd
    obtain ⟨w, hw1, _, hw3, hw4⟩ := wireOf_frame m (hw m (by simp)) (wireOfAll ms ++ X)
    have hwire : wireOfAll (m :: ms) ++ X = w ++ (wireOfAll ms ++ X) := by
      simp [wireOfAll, hw1]
    rw [hwire, List.length_cons, ← Nat.add_assoc, runBytes]
    simp only [h0, Bool.false_eq_true, ↓reduceIte, hw3, hw4]
    rw [ih _ X fuel (fun x hx => hw x (by simp [hx])) hrest]
    simp [runSteps, List.append_assoc]

/-- a run that ends finished is not disturbed by more input behind it -/
theorem runBytes_done_append {σ : Type} (step : σ → RdEv → σ × List Msg) (isDone : σ → Bool) :
    ∀ (fuel : Nat) (s : σ) (X Y : Bytes), isDone (runBytes step isDone fuel s X).1 = true →
      runBytes step isDone fuel s (X ++ Y) =
        ((runBytes step isDone fuel s X).1, (runBytes step isDone fuel s X).2.1,
         (runBytes step isDone fuel s X).2.2 ++ Y) := by
  intro fuel
  induction fuel with
  | zero => intro s X Y _; simp [runBytes]
  | succ f ih =>
    intro s X Y h
    by_cases hd : isDone s = true
    · simp [runBytes, hd]
    · have hd' : isDone s = false := by simpa using hd
      cases hX : frameDec X with
      | none =>
        rw [runBytes] at h
        simp [hd', hX] at h
      | some p =>
        obtain ⟨fr, rest⟩ := p
        have hst := C15.frameDec_stable _ _ _ Y hX
        rw [runBytes] at h ⊢
        simp only [hd', Bool.false_eq_true, ↓reduceIte, hX] at h
        rw [runBytes]
        simp only [hd', Bool.false_eq_true, ↓reduceIte, hX, hst]
        rw [ih _ rest Y h]

theorem wire_length (ms : List Msg) (hw : ∀ m ∈ ms, wireOk m) : ms.length ≤ (wireOfAll ms).length := by
  induction ms with
  | nil => simp
  | cons m ms ih =>
    obtain ⟨w, hw1, hw2, _, _⟩ := wireOf_frame m (hw m (by simp)) []
    have : wireOfAll (m :: ms) = w ++ wireOfAll ms := by simp [wireOfAll, hw1]
    rw [this, List.length_append, List.length_cons]
    have := ih (fun x hx => hw x (by simp [hx]))
    omega

/-- the event the first frame of the optimistic data produces -/
theorem junk_event (A : Bytes) (e : PErr) (hj : junkOf A = some e) (f : Frame) (r : Bytes)
    (hf : frameDec A = some (f, r)) : frameEvent f = .err e := by
  unfold junkOf at hj
  split at hj
  · cases hj
  · rw [hf] at hj
    cases f with
    | err e' => simp at hj; subst hj; rfl
    | data bs =>
      simp only at hj
      cases hd : decodeMsg bs with
      | err e' => rw [hd] at hj; simp at hj; subst hj; simp [frameEvent, hd]
      | ok m => rw [hd] at hj; simp at hj
      | panic w => rw [hd] at hj; simp at hj

theorem junk_incomplete (A : Bytes) (e : PErr) (hj : junkOf A = some e) (hf : frameDec A = none) :
    e = .unexpectedEof := by
  unfold junkOf at hj
  split at hj
  · cases hj
  · rw [hf] at hj; simp at hj; exact hj.symm

/-- **One byte-level poll with optimistic data behind the negotiation bytes.**  Either the poll
stops before the data (as `pollBytes_spec`, the data staying queued), or it has consumed all the
messages and then the data's first frame / its incomplete remains at EOF — as the error event
`junkOf A` — which finishes the automaton. -/
theorem pollBytes_specA {σ : Type} (step : σ → RdEv → σ × List Msg) (isDone : σ → Bool)
    (herr : ∀ s e, isDone (step s (.err e)).1 = true)
    (s : σ) (ms : List Msg) (A : Bytes) (e : PErr) (closed : Bool) (n : Nat)
    (hw : ∀ m ∈ ms, wireOk m) (hnd : isDone s = false) (hA : A ≠ []) (hj : junkOf A = some e) :
    ∃ j, j ≤ ms.length ∧ NotDoneBefore step isDone s (ms.take j) ∧
      (pollBytes step isDone s (wireOfAll ms ++ A) closed n =
          ((runSteps step s ((ms.take j).map .msg)).1, wireOfAll (ms.drop j) ++ A,
           (runSteps step s ((ms.take j).map .msg)).2) ∨
       (j = ms.length ∧ isDone (runSteps step s ((ms.take j).map .msg)).1 = false ∧
        ∃ X, pollBytes step isDone s (wireOfAll ms ++ A) closed n =
          ((step (runSteps step s ((ms.take j).map .msg)).1 (.err e)).1, X,
           (runSteps step s ((ms.take j).map .msg)).2 ++
             (step (runSteps step s ((ms.take j).map .msg)).1 (.err e)).2))) := by
  have hApos : 0 < A.length := by
    cases A with
    | nil => exact absurd rfl hA
    | cons a as => simp
  by_cases hn : n ≤ (wireOfAll ms).length
  · -- the readable prefix ends inside the negotiation bytes
    obtain ⟨j, rest, hjl, hnb, hrun, hrest, _⟩ := runBytes_prefix step isDone ms s n (n + 1) hw (by omega)
    refine ⟨j, hjl, hnb, Or.inl ?_⟩
    unfold pollBytes
    have htake : (wireOfAll ms ++ A).take n = (wireOfAll ms).take n :=
      List.take_append_of_le_length hn
    have hdrop : (wireOfAll ms ++ A).drop n = (wireOfAll ms).drop n ++ A :=
      List.drop_append_of_le_length hn
    have hnot : ¬ ((wireOfAll ms ++ A).length < n) := by simp; omega
    simp only [hnd, Bool.false_eq_true, ↓reduceIte, htake, hrun, hnot, decide_false, Bool.and_false,
      hdrop]
    rw [← List.append_assoc, hrest]
  · -- all negotiation bytes are readable, and `k ≥ 1` bytes of the data
    have hgt : (wireOfAll ms).length < n := by omega
    have hlenW := wire_length ms hw
    have htake : (wireOfAll ms ++ A).take n = wireOfAll ms ++ A.take (n - (wireOfAll ms).length) := by
      rw [List.take_append, List.take_of_length_le (by omega)]
    have hdrop : (wireOfAll ms ++ A).drop n = A.drop (n - (wireOfAll ms).length) := by
      rw [List.drop_append, List.drop_of_length_le (by omega)]; rfl
    generalize hk : n - (wireOfAll ms).length = k at htake hdrop
    -- first look at the run over the negotiation bytes alone
    obtain ⟨j, rest, hjl, hnb, hrun, hrest, hstop⟩ :=
      runBytes_prefix step isDone ms s (wireOfAll ms).length (n + 1) hw (by omega)
    rw [List.take_of_length_le (Nat.le_refl _)] at hrun
    rw [List.drop_of_length_le (Nat.le_refl _), List.append_nil] at hrest
    subst hrest
    by_cases hdone : isDone (runSteps step s ((ms.take j).map RdEv.msg)).1 = true
    · -- finished inside the negotiation bytes: the data stays queued
      refine ⟨j, hjl, hnb, Or.inl ?_⟩
      have happ := runBytes_done_append step isDone (n + 1) s (wireOfAll ms) (A.take k)
        (by rw [hrun]; exact hdone)
      rw [hrun] at happ
      unfold pollBytes
      simp only [hnd, Bool.false_eq_true, ↓reduceIte, htake, happ, hdone, Bool.not_true,
        Bool.false_and, hdrop]
      rw [List.append_assoc, List.take_append_drop]
    · -- not finished, so every message was consumed
      have hsnd : isDone (runSteps step s ((ms.take j).map RdEv.msg)).1 = false := by simpa using hdone
      obtain ⟨hnone, _⟩ : frameDec (wireOfAll (ms.drop j)) = none ∧ (j = ms.length → wireOfAll (ms.drop j) = []) := by
        rcases hstop with h | h
        · exact absurd h hdone
        · exact h
      have hempty : ms.drop j = [] := by
        cases hdj : ms.drop j with
        | nil => rfl
        | cons m' t =>
          have hm' : m' ∈ ms := List.mem_of_mem_drop (by rw [hdj]; simp)
          obtain ⟨w, hw1, _, hw3, _⟩ := wireOf_frame m' (hw m' hm') (wireOfAll t)
          rw [hdj] at hnone
          have : wireOfAll (m' :: t) = w ++ wireOfAll t := by simp [wireOfAll, hw1]
          rw [this, hw3] at hnone
          cases hnone
      have hjlen : j = ms.length := by
        have := congrArg List.length hempty
        simp at this; omega
      have htk : ms.take j = ms := by rw [hjlen]; simp
      rw [htk] at hnb hsnd
      -- run through the negotiation bytes, then into the data
      have hfuel : n + 1 = (n + 1 - ms.length) + ms.length := by omega
      have hthrough := runBytes_through step isDone ms s (A.take k) (n + 1 - ms.length) hw hnb
      rw [← hfuel] at hthrough
      have hklen : (A.take k).length < n + 1 - ms.length := by
        have : (A.take k).length ≤ k := by simp; omega
        omega
      generalize hS : (runSteps step s (ms.map RdEv.msg)).1 = S at hthrough hsnd
      generalize hO : (runSteps step s (ms.map RdEv.msg)).2 = O at hthrough
      obtain ⟨f0, hf0⟩ : ∃ f0, n + 1 - ms.length = f0 + 1 := ⟨n - ms.length, by omega⟩
      rw [hf0] at hthrough
      cases hfr : frameDec (A.take k) with
      | none =>
        -- the data's first frame is not complete (yet)
        have hr2 : runBytes step isDone (f0 + 1) S (A.take k) = (S, [], A.take k) := by
          simp [runBytes, hsnd, hfr]
        rw [hr2] at hthrough
        unfold pollBytes
        simp only [hnd, Bool.false_eq_true, ↓reduceIte, htake, hthrough, List.append_nil, hsnd,
          Bool.not_false, Bool.true_and, hdrop]
        by_cases heof : (closed && decide ((wireOfAll ms ++ A).length < n)) = true
        · -- EOF with the incomplete data pulled: `UnexpectedEof`
          simp only [Bool.and_eq_true, decide_eq_true_eq] at heof
          have hkA : A.length ≤ k := by
            have := heof.2; simp at this; omega
          have htA : A.take k = A := List.take_of_length_le hkA
          rw [htA] at hfr
          have he := junk_incomplete A e hj hfr
          subst he
          refine ⟨ms.length, Nat.le_refl _, by simpa using hnb, Or.inr ⟨rfl, by simpa [hS] using hsnd, [], ?_⟩⟩
          have hc : (closed && decide ((wireOfAll ms ++ A).length < n)) = true := by
            rw [heof.1]; simpa using heof.2
          simp only [hc, ↓reduceIte, htA, eofEvent, hA, List.take_length, hS, hO]
        · refine ⟨ms.length, Nat.le_refl _, by simpa using hnb, Or.inl ?_⟩
          have hwn : wireOfAll ([] : List Msg) = [] := rfl
          simp only [heof, Bool.false_eq_true, ↓reduceIte, List.take_append_drop, List.take_length,
            List.drop_length, hwn, List.nil_append, hS, hO]
      | some p =>
        obtain ⟨fr, r⟩ := p
        -- the data's first frame is there: it reads as the error `e`
        have hfull := C15.frameDec_stable _ _ _ (A.drop k) hfr
        rw [List.take_append_drop] at hfull
        have hev := junk_event A e hj fr _ hfull
        have hdn := herr S e
        have hr2 : runBytes step isDone (f0 + 1) S (A.take k) =
            ((step S (.err e)).1, (step S (.err e)).2, r) := by
          rw [runBytes]
          simp only [hsnd, Bool.false_eq_true, ↓reduceIte, hfr, hev]
          cases f0 with
          | zero => simp [runBytes]
          | succ f1 => simp [runBytes, hdn]
        rw [hr2] at hthrough
        refine ⟨ms.length, Nat.le_refl _, by simpa using hnb,
          Or.inr ⟨rfl, by simpa [hS] using hsnd, r ++ A.drop k, ?_⟩⟩
        unfold pollBytes
        simp only [hnd, Bool.false_eq_true, ↓reduceIte, htake, hthrough, hdn, Bool.not_true,
          Bool.false_and, hdrop, List.take_length, hS, hO]

/-! ### the relation with optimistic data -/

/-- the bytes a queue of items stands for -/
def bytesOf (A : Bytes) (q : List Item) : Bytes :=
  q.flatMap fun it => match it with
    | .msg m => (wireOf m).getD []
    | .junk _ => A

theorem bytesOf_append (A : Bytes) (a b : List Item) : bytesOf A (a ++ b) = bytesOf A a ++ bytesOf A b := by
  simp [bytesOf]

theorem bytesOf_msgs (A : Bytes) (ms : List Msg) : bytesOf A (ms.map Item.msg) = wireOfAll ms := by
  simp [bytesOf, wireOfAll, List.flatMap_map]

theorem bytesOf_junk (A : Bytes) (e : PErr) : bytesOf A [.junk e] = A := by simp [bytesOf]

structure RelA (A : Bytes) (bc : BCfg) (mc : Cfg) : Prop where
  hs : bc.started = mc.started
  hd : bc.d = mc.d
  hl : bc.l = mc.l
  /-- once the listener has finished it never reads again: what is left for it is irrelevant -/
  hdl : lIsDone mc.l = true ∨ bc.dl.bytes = bytesOf A mc.dl.q
  hdlc : bc.dl.closed = mc.dl.closed
  hld : bc.ld.bytes = bytesOf A mc.ld.q
  hldc : bc.ld.closed = mc.ld.closed

/-- the dialer → listener queue of a reachable configuration: messages that survive the wire,
followed by at most the one optimistic-data item -/
theorem shape_dl_split (P : Params) (hv : ∀ d ∈ P.ds, validName d = true) (ph : Phase)
    (hok : PhaseOK P ph) :
    ∃ (ms : List Msg) (J : List Item), (shape P ph).dl.q = ms.map Item.msg ++ J ∧
      (∀ m ∈ ms, wireOk m) ∧ (J = [] ∨ ∃ e, P.junk = some e ∧ J = [.junk e]) := by
  have hJ : ∀ rest, jk P rest = [] ∨ ∃ e, P.junk = some e ∧ jk P rest = [.junk e] := by
    intro rest
    unfold jk junkItems
    split
    · cases hj : P.junk with
      | none => left; rfl
      | some e => right; exact ⟨e, rfl, rfl⟩
    · left; rfl
  cases ph with
  | p0 => exact ⟨[], [], rfl, by simp, Or.inl rfl⟩
  | e1 => exact ⟨[], [], rfl, by simp, Or.inl rfl⟩
  | e2 => exact ⟨[], [], rfl, by simp, Or.inl rfl⟩
  | a cur rest =>
    have hc : validName cur = true := hv cur (by rw [show P.ds = cur :: rest from hok]; simp)
    refine ⟨[.header, .proto cur], jk P rest, by simp [shape], ?_, hJ rest⟩
    intro m hm
    simp at hm
    rcases hm with rfl | rfl
    · exact wok_header
    · exact wok_proto cur hc
  | b pre cur rest hq hx =>
    have hc := valid_of_split P hv pre cur rest hok.1
    refine ⟨[.proto cur], jk P rest, by simp [shape], ?_, hJ rest⟩
    intro m hm
    simp at hm
    subst hm; exact wok_proto cur hc
  | c pre cur rest hq hx => exact ⟨[], jk P rest, by simp [shape], by simp, hJ rest⟩
  | cdone pre cur rest => exact ⟨[], jk P rest, by simp [shape], by simp, hJ rest⟩
  | n pre cur rest hq hx => exact ⟨[], jk P rest, by simp [shape], by simp, hJ rest⟩
  | nj pre cur hq hx => exact ⟨[], [], rfl, by simp, Or.inl rfl⟩
  | f1 pre cur => exact ⟨[], jk P [], by simp [shape], by simp, hJ []⟩
  | f2 pre cur => exact ⟨[], [], rfl, by simp, Or.inl rfl⟩

/-- the listener → dialer queue never carries application data during the negotiation -/
theorem shape_ld_msgs (P : Params) (hv : ∀ d ∈ P.ds, validName d = true) (ph : Phase)
    (hok : PhaseOK P ph) :
    ∃ ms : List Msg, (shape P ph).ld.q = ms.map Item.msg ∧ ∀ m ∈ ms, wireOk m := by
  have hh : ∀ hq, ∃ ms : List Msg, hdr hq = ms.map Item.msg ∧ ∀ m ∈ ms, wireOk m := by
    intro hq
    cases hq with
    | true => exact ⟨[.header], rfl, by intro m hm; simp at hm; subst hm; exact wok_header⟩
    | false => exact ⟨[], rfl, by simp⟩
  cases ph with
  | p0 => exact ⟨[], rfl, by simp⟩
  | e1 => exact ⟨[], rfl, by simp⟩
  | e2 => exact ⟨[], rfl, by simp⟩
  | a cur rest => exact ⟨[], rfl, by simp⟩
  | b pre cur rest hq hx => simpa [shape] using hh hq
  | c pre cur rest hq hx =>
    have hc := valid_of_split P hv pre cur rest hok.1
    obtain ⟨ms, h1, h2⟩ := hh hq
    refine ⟨ms ++ [.proto cur], by simp [shape, h1], ?_⟩
    intro m hm
    simp at hm
    rcases hm with hm | rfl
    · exact h2 m hm
    · exact wok_proto cur hc
  | cdone pre cur rest => exact ⟨[], rfl, by simp⟩
  | n pre cur rest hq hx =>
    obtain ⟨ms, h1, h2⟩ := hh hq
    refine ⟨ms ++ [.na], by simp [shape, h1], ?_⟩
    intro m hm
    simp at hm
    rcases hm with hm | rfl
    · exact h2 m hm
    · exact wok_na
  | nj pre cur hq hx =>
    obtain ⟨ms, h1, h2⟩ := hh hq
    refine ⟨ms ++ [.na], by simp [shape, h1], ?_⟩
    intro m hm
    simp at hm
    rcases hm with hm | rfl
    · exact h2 m hm
    · exact wok_na
  | f1 pre cur => exact ⟨[], rfl, by simp⟩
  | f2 pre cur => exact ⟨[], rfl, by simp⟩

theorem lStep_err_done (ls : List Bytes) (s : LSt) (e : PErr) :
    lIsDone (lStep ls s (.err e)).1 = true := by
  cases s with
  | done r => simp [lStep, lIsDone]
  | recvHeader => simp [lStep, lIsDone]
  | recvMessage b => simp only [lStep]; split <;> simp [lIsDone]

/-- a byte-level listener poll, with optimistic data possibly queued, is matched by
message-level listener moves -/
theorem refine_LA (P : Params) (A : Bytes) (bc : BCfg) (mc : Cfg) (n : Nat) (hrel : RelA A bc mc)
    (hsplit : ∃ (ms : List Msg) (J : List Item), mc.dl.q = ms.map Item.msg ++ J ∧
      (∀ m ∈ ms, wireOk m) ∧ (J = [] ∨ ∃ e, P.junk = some e ∧ J = [.junk e]))
    (hjA : ∀ e, P.junk = some e → A ≠ [] ∧ junkOf A = some e) :
    ∃ ex : List Move, RelA A (bStepL P n bc) (ex.foldl (step P) mc) := by
  unfold bStepL
  by_cases hdone : lIsDone bc.l = true
  · exact ⟨[], by simpa [hdone] using hrel⟩
  · have hnd : lIsDone bc.l = false := by simpa using hdone
    have hndm : lIsDone mc.l = false := by rw [← hrel.hl]; exact hnd
    simp only [hnd, Bool.false_eq_true, ↓reduceIte]
    obtain ⟨ms, J, hq, hw, hJ⟩ := hsplit
    have hb : bc.dl.bytes = wireOfAll ms ++ bytesOf A J := by
      rcases hrel.hdl with h | h
      · rw [hndm] at h; cases h
      · rw [h, hq, bytesOf_append, bytesOf_msgs]
    rcases hJ with rfl | ⟨e, hje, rfl⟩
    · -- no optimistic data queued: as before
      have hb' : bc.dl.bytes = wireOfAll ms := by simpa [bytesOf] using hb
      have hq' : mc.dl.q = ms.map Item.msg := by simpa using hq
      obtain ⟨j, hj, hnb, hcase⟩ := pollBytes_spec (lStep P.ls) lIsDone bc.l ms bc.dl.closed n hw hnd
      have hsp : mc.dl.q = (ms.take j).map Item.msg ++ (ms.drop j).map Item.msg := by
        rw [hq', ← List.map_append, List.take_append_drop]
      have hlen : (ms.take j).length = j := by simp; omega
      have hiter := stepL_iter P (ms.take j) mc ((ms.drop j).map Item.msg) hndm hsp
        (by rw [← hrel.hl]; exact hnb)
      rw [hlen] at hiter
      rcases hcase with hp | ⟨hjl, hcl, hnd2, hp⟩
      · refine ⟨List.replicate j .stepL, ?_⟩
        rw [hiter, hb', hp]
        exact {
          hs := hrel.hs
          hd := hrel.hd
          hl := by simp [hrel.hl]
          hdl := Or.inr (bytesOf_msgs A (ms.drop j)).symm
          hdlc := hrel.hdlc
          hld := by simp [hrel.hld, bytesOf_append, bytesOf_msgs, hrel.hl]
          hldc := by simp [hrel.hldc, hrel.hl] }
      · refine ⟨List.replicate j .stepL ++ [.stepL], ?_⟩
        rw [foldl_append_moves, hiter, hb', hp]
        have hdrop : ms.drop j = [] := by rw [hjl]; simp
        simp only [List.foldl_cons, List.foldl_nil, step]
        rw [stepL_eof P _ (by
              intro r
              simp only
              rw [← hrel.hl]
              exact not_done_l _ hnd2 r)
            (by simp [hdrop]) (by simp [← hrel.hdlc, hcl])]
        have hnf := lFailed_of_not_done _ hnd2
        have hnf' : lFailed (runSteps (lStep P.ls) mc.l (List.take j (List.map RdEv.msg ms))).fst = false := by
          rw [← List.map_take, ← hrel.hl]; exact hnf
        exact {
          hs := hrel.hs
          hd := hrel.hd
          hl := by simp [hrel.hl]
          hdl := Or.inr (by simp [hdrop, bytesOf])
          hdlc := hrel.hdlc
          hld := by simp [hrel.hld, bytesOf_append, bytesOf_msgs, hrel.hl, wireOfAll_append]
          hldc := by simp [hrel.hldc, hrel.hl, hnf'] }
    · -- the optimistic data is queued behind `ms`
      obtain ⟨hA, hjo⟩ := hjA e hje
      have hb' : bc.dl.bytes = wireOfAll ms ++ A := by rw [hb, bytesOf_junk]
      obtain ⟨j, hj, hnb, hcase⟩ := pollBytes_specA (lStep P.ls) lIsDone (lStep_err_done P.ls)
        bc.l ms A e bc.dl.closed n hw hnd hA hjo
      have hsp : mc.dl.q = (ms.take j).map Item.msg ++ ((ms.drop j).map Item.msg ++ [.junk e]) := by
        rw [hq, ← List.append_assoc, ← List.map_append, List.take_append_drop]
      have hlen : (ms.take j).length = j := by simp; omega
      have hiter := stepL_iter P (ms.take j) mc ((ms.drop j).map Item.msg ++ [.junk e]) hndm hsp
        (by rw [← hrel.hl]; exact hnb)
      rw [hlen] at hiter
      rcases hcase with hp | ⟨hjl, hnd2, X, hp⟩
      · refine ⟨List.replicate j .stepL, ?_⟩
        rw [hiter, hb', hp]
        exact {
          hs := hrel.hs
          hd := hrel.hd
          hl := by simp [hrel.hl]
          hdl := Or.inr (by rw [bytesOf_append, bytesOf_msgs, bytesOf_junk])
          hdlc := hrel.hdlc
          hld := by simp [hrel.hld, bytesOf_append, bytesOf_msgs, hrel.hl]
          hldc := by simp [hrel.hldc, hrel.hl] }
      · refine ⟨List.replicate j .stepL ++ [.stepL], ?_⟩
        rw [foldl_append_moves, hiter, hb', hp]
        have hdrop : ms.drop j = [] := by rw [hjl]; simp
        simp only [List.foldl_cons, List.foldl_nil, step]
        rw [stepL_item P _ (.junk e) [] (by
              intro r
              simp only
              rw [← hrel.hl]
              exact not_done_l _ hnd2 r)
            (by simp [hdrop])]
        have hnf := lFailed_of_not_done _ hnd2
        have hnf' : lFailed (runSteps (lStep P.ls) mc.l (List.take j (List.map RdEv.msg ms))).fst = false := by
          rw [← List.map_take, ← hrel.hl]; exact hnf
        exact {
          hs := hrel.hs
          hd := hrel.hd
          hl := by simp [hrel.hl, itemEv]
          hdl := Or.inl (by simp [itemEv, lStep_err_done])
          hdlc := hrel.hdlc
          hld := by simp [hrel.hld, bytesOf_append, bytesOf_msgs, hrel.hl, wireOfAll_append, itemEv]
          hldc := by simp [hrel.hldc, hrel.hl, hnf', itemEv] }

/-! ### the dialer side with optimistic data -/

/-- the items the dialer emits while consuming `ms` (messages, and the optimistic data at the lazy exit) -/
def runEmit (P : Params) : DSt → List Msg → List Item
  | _, [] => []
  | s, m :: ms =>
    dEmit P s (dStep P.lazy s (.msg m)).1 (dStep P.lazy s (.msg m)).2 ++
      runEmit P (dStep P.lazy s (.msg m)).1 ms

theorem notDone_weaken (P : Params) (s0 : DSt) : ∀ (ms : List Msg) (s : DSt),
    NotDoneBefore (dStep P.lazy) (dStop s0) s ms → NotDoneBefore (dStep P.lazy) dIsDone s ms := by
  intro ms
  induction ms with
  | nil => intro s _; trivial
  | cons m ms ih =>
    intro s h
    refine ⟨?_, ih _ h.2⟩
    have := h.1
    simp [dStop] at this
    exact this.1

/-- `j` consecutive dialer moves, in general -/
theorem stepD_iterA (P : Params) : ∀ (ms : List Msg) (c : Cfg) (tail : List Item),
    c.started = true → dIsDone c.d = false →
    c.ld.q = ms.map Item.msg ++ tail → NotDoneBefore (dStep P.lazy) dIsDone c.d ms →
    (List.replicate ms.length Move.stepD).foldl (step P) c =
      { c with d := (runSteps (dStep P.lazy) c.d (ms.map RdEv.msg)).1,
               ld := ⟨tail, c.ld.closed⟩,
               dl := ⟨c.dl.q ++ runEmit P c.d ms,
                      c.dl.closed || dFailed (runSteps (dStep P.lazy) c.d (ms.map RdEv.msg)).1⟩ } := by
  intro ms
  induction ms with
  | nil =>
    intro c tail _ hnf hq _
    simp only [List.length_nil, List.replicate_zero, List.foldl_nil, List.map_nil, runSteps,
      List.append_nil, dFailed_of_not_done _ hnf, Bool.or_false, runEmit]
    simp at hq
    cases c with
    | mk st d l dl ld =>
      cases ld with
      | mk q cl => simp at hq; subst hq; rfl
  | cons m ms ih =>
    intro c tail hst hnf hq hnd
    obtain ⟨h0, hrest⟩ := hnd
    have hitem := stepD_item P c (.msg m) (ms.map Item.msg ++ tail) hst (not_done_d _ h0) (by simpa using hq)
    simp only [List.length_cons, List.replicate_succ, List.foldl_cons, step]
    cases ms with
    | nil => rw [hitem]; simp [runSteps, itemEv, runEmit]
    | cons m2 ms2 =>
      have hnf2 : dIsDone (dStep P.lazy c.d (itemEv (.msg m))).1 = false := by
        simpa [itemEv] using hrest.1
      have hst' : (stepD P c).started = true := by rw [hitem]; exact hst
      have hd' : (stepD P c).d = (dStep P.lazy c.d (itemEv (.msg m))).1 := by rw [hitem]
      have hq' : (stepD P c).ld.q = (m2 :: ms2).map Item.msg ++ tail := by rw [hitem]
      rw [ih (stepD P c) tail hst' (by rw [hd']; exact hnf2) hq'
        (by rw [hd']; simpa [itemEv] using hrest)]
      rw [hitem]
      simp only [itemEv, List.map_cons, runSteps, List.append_assoc]
      have := dFailed_of_not_done _ hnf2
      simp only [itemEv] at this
      simp [this, runEmit]

theorem isExp_step (lazy : Bool) (s : DSt) (ev : RdEv) (h : isExpecting s = true)
    (hnd : dIsDone (dStep lazy s ev).1 = false) : isExpecting (dStep lazy s ev).1 = true := by
  cases s with
  | done r => simp [isExpecting] at h
  | await c t => simp [isExpecting] at h
  | expecting c x =>
    cases ev with
    | panic w => simp [dStep, dIsDone] at hnd
    | eof => simp [dStep, dIsDone] at hnd
    | err e => simp [dStep, dIsDone] at hnd
    | msg m =>
      cases m with
      | header => cases x <;> simp_all [dStep, dIsDone, isExpecting]
      | proto p => simp only [dStep] at hnd ⊢; split at hnd <;> simp [dIsDone] at hnd
      | na => simp [dStep, dIsDone] at hnd
      | ls => simp [dStep, dIsDone] at hnd
      | protos ps => simp [dStep, dIsDone] at hnd

/-- the bytes of what the dialer emits in one poll: the wire image of its messages, then — if
this poll ended with the lazy exit — the optimistic data -/
theorem emit_bytes (P : Params) (A : Bytes) (s0 : DSt)
    (hJA : bytesOf A (junkItems P) = A) :
    ∀ (ms : List Msg) (s : DSt), isExpecting s = isExpecting s0 →
      NotDoneBefore (dStep P.lazy) (dStop s0) s ms →
      bytesOf A (runEmit P s ms) =
        wireOfAll (runSteps (dStep P.lazy) s (ms.map RdEv.msg)).2 ++
          (if isExpecting (runSteps (dStep P.lazy) s (ms.map RdEv.msg)).1 && !isExpecting s0 then A else []) := by
  intro ms
  induction ms with
  | nil =>
    intro s hs _
    simp [runEmit, runSteps, bytesOf, wireOfAll, hs]
  | cons m ms ih =>
    intro s hs hnd
    obtain ⟨h0, hrest⟩ := hnd
    simp only [runEmit, List.map_cons, runSteps, bytesOf_append, dEmit, bytesOf_msgs, wireOfAll_append]
    cases ms with
    | nil =>
      simp only [runEmit, bytesOf, List.flatMap_nil, List.append_nil, List.map_nil, runSteps,
        wireOfAll, hs]
      split
      · simp [hJA.symm ▸ hJA, bytesOf] ; exact hJA
      · simp
    | cons m2 ms2 =>
      have hns := hrest.1
      simp only [dStop, Bool.or_eq_false_iff] at hns
      obtain ⟨hnd1, hne1⟩ := hns
      have hexp : isExpecting (dStep P.lazy s (.msg m)).1 = isExpecting s0 := by
        cases hx : isExpecting s0 with
        | true => exact isExp_step P.lazy s _ (by rw [hs, hx]) hnd1
        | false =>
          rw [hx] at hne1
          simpa using hne1
      have hnoj : (isExpecting (dStep P.lazy s (.msg m)).1 && !isExpecting s) = false := by
        rw [hs, hexp]; cases isExpecting s0 <;> rfl
      rw [ih _ hexp hrest]
      simp only [hnoj, Bool.false_eq_true, ↓reduceIte, bytesOf, List.flatMap_nil, List.append_nil,
        List.map_cons, runSteps, wireOfAll_append, List.append_assoc]

theorem dStop_self (s : DSt) : dStop s s = dIsDone s := by
  simp [dStop]

/-- a byte-level dialer poll (which may take the lazy exit and write the optimistic data) is
matched by message-level dialer moves -/
theorem refine_DA (P : Params) (A : Bytes) (bc : BCfg) (mc : Cfg) (n : Nat) (hrel : RelA A bc mc)
    (hJA : bytesOf A (junkItems P) = A)
    (hld : ∃ ms : List Msg, mc.ld.q = ms.map Item.msg ∧ ∀ m ∈ ms, wireOk m) :
    ∃ ex : List Move, RelA A (bStepDA P A n bc) (ex.foldl (step P) mc) := by
  unfold bStepDA
  by_cases hst : bc.started = true
  · have hst' : mc.started = true := by rw [← hrel.hs]; exact hst
    simp only [hst, Bool.not_true, Bool.false_eq_true, ↓reduceIte]
    by_cases hdone : dIsDone bc.d = true
    · exact ⟨[], by simpa [hdone] using hrel⟩
    · have hnd : dIsDone bc.d = false := by simpa using hdone
      have hnds : dStop bc.d bc.d = false := by rw [dStop_self]; exact hnd
      simp only [hnd, Bool.false_eq_true, ↓reduceIte]
      obtain ⟨ms, hq, hw⟩ := hld
      have hb : bc.ld.bytes = wireOfAll ms := by rw [hrel.hld, hq, bytesOf_msgs]
      obtain ⟨j, hjle, hnb, hcase⟩ := pollBytes_spec (dStep P.lazy) (dStop bc.d) bc.d ms bc.ld.closed n hw hnds
      have hsplit : mc.ld.q = (ms.take j).map Item.msg ++ (ms.drop j).map Item.msg := by
        rw [hq, ← List.map_append, List.take_append_drop]
      have hlen : (ms.take j).length = j := by simp; omega
      have hiter := stepD_iterA P (ms.take j) mc ((ms.drop j).map Item.msg) hst'
        (by rw [← hrel.hd]; exact hnd) hsplit
        (by rw [← hrel.hd]; exact notDone_weaken P bc.d _ _ hnb)
      rw [hlen] at hiter
      have hemit := emit_bytes P A bc.d hJA (ms.take j) bc.d rfl hnb
      rcases hcase with hp | ⟨hjl, hcl, hnd2, hp⟩
      · refine ⟨List.replicate j .stepD, ?_⟩
        rw [hiter, hb, hp]
        exact {
          hs := by simp [hst']
          hd := by simp [hrel.hd]
          hl := hrel.hl
          hld := (bytesOf_msgs A (ms.drop j)).symm
          hldc := hrel.hldc
          hdl := by
            rcases hrel.hdl with h | h
            · exact Or.inl h
            · right
              simp only
              rw [bytesOf_append, ← hrel.hd, hemit, h, List.append_assoc]
          hdlc := by simp [hrel.hdlc, hrel.hd] }
      · refine ⟨List.replicate j .stepD ++ [.stepD], ?_⟩
        rw [foldl_append_moves, hiter, hb, hp]
        have hdrop : ms.drop j = [] := by rw [hjl]; simp
        have h2 := hnd2
        rw [dStop, Bool.or_eq_false_iff] at h2
        have hnd2' : dIsDone (runSteps (dStep P.lazy) bc.d ((ms.take j).map RdEv.msg)).1 = false := h2.1
        have hnexp : (isExpecting (runSteps (dStep P.lazy) bc.d ((ms.take j).map RdEv.msg)).1 &&
            !isExpecting bc.d) = false := h2.2
        simp only [List.foldl_cons, List.foldl_nil, step]
        rw [stepD_eof P _ (by simp [hst']) (by
              intro r
              simp only
              rw [← hrel.hd]
              exact not_done_d _ hnd2' r)
            (by simp [hdrop]) (by simp [← hrel.hldc, hcl])]
        have hnf := dFailed_of_not_done _ hnd2'
        have hnf' : dFailed (runSteps (dStep P.lazy) mc.d (List.take j (List.map RdEv.msg ms))).fst = false := by
          rw [← List.map_take, ← hrel.hd]; exact hnf
        -- after EOF the dialer is done, so no lazy exit happens in this last step
        have hdoneEof : ∀ s, dIsDone (dStep P.lazy s .eof).1 = true := by
          intro s; cases s <;> simp [dStep, dIsDone]
        have hnoexp : ∀ s, isExpecting (dStep P.lazy s .eof).1 = false := by
          intro s; cases s <;> simp [dStep, isExpecting]
        simp only [hnexp, Bool.false_eq_true, ↓reduceIte, List.append_nil] at hemit
        exact {
          hs := by simp [hst']
          hd := by simp [hrel.hd]
          hl := hrel.hl
          hld := by simp [hdrop, bytesOf]
          hldc := hrel.hldc
          hdl := by
            rcases hrel.hdl with h | h
            · exact Or.inl h
            · right
              simp only [hnoexp, Bool.false_and, Bool.false_eq_true, ↓reduceIte, List.append_nil]
              rw [bytesOf_append, bytesOf_append, ← hrel.hd, hemit, h, wireOfAll_append]
              simp [dEmit, hnoexp, bytesOf_msgs, hrel.hd, List.map_take]
          hdlc := by simp [hrel.hdlc, hrel.hd, hnf'] }
  · -- the very first poll: `SendHeader` + first `SendProtocol` (possibly the lazy exit at once)
    have hst0 : bc.started = false := by simpa using hst
    have hst' : mc.started = false := by rw [← hrel.hs]; exact hst0
    refine ⟨[.stepD], ?_⟩
    simp only [hst0, Bool.not_false, ↓reduceIte, List.foldl_cons, List.foldl_nil, step, stepD, hst']
    exact {
      hs := rfl
      hd := rfl
      hl := hrel.hl
      hld := hrel.hld
      hldc := hrel.hldc
      hdl := by
        rcases hrel.hdl with h | h
        · exact Or.inl h
        · right
          simp only
          rw [bytesOf_append, h, dEmit, bytesOf_append, bytesOf_msgs, List.append_assoc]
          congr 2
          cases hx : isExpecting (dStart P.lazy P.ds).1 with
          | false => simp [hx, bytesOf]
          | true =>
            simp only [hx, isExpecting, Bool.not_false, Bool.and_true, ↓reduceIte]
            exact hJA.symm
      hdlc := by simp [hrel.hdlc] }

theorem relA_init (A : Bytes) : RelA A binit init :=
  { hs := rfl, hd := rfl, hl := rfl, hdl := Or.inr rfl, hdlc := rfl, hld := rfl, hldc := rfl }

theorem junkOf_nil : junkOf [] = none := by simp [junkOf]

/-- **Byte-level refinement with optimistic `V1Lazy` data**: for every delivery schedule of the
byte-level network in which the lazily settling dialer writes `A` right behind its negotiation
bytes, there is a schedule of the message-level system (with `junk = junkOf A`) reaching the same
automaton states. -/
theorem bytes_refine_lazy (P : Params) (A : Bytes) (hv : ∀ d ∈ P.ds, validName d = true)
    (hjA : P.junk = junkOf A) (hok : A = [] ∨ ∃ e, junkOf A = some e) (bs : List BMove) :
    ∃ sched, RelA A (bexecA P A bs) (exec P sched) := by
  have hJA : bytesOf A (junkItems P) = A := by
    unfold junkItems
    rcases hok with rfl | ⟨e, he⟩
    · rw [hjA, junkOf_nil]; rfl
    · rw [hjA, he]; simp [bytesOf]
  have hjA' : ∀ e, P.junk = some e → A ≠ [] ∧ junkOf A = some e := by
    intro e he
    rw [hjA] at he
    refine ⟨?_, he⟩
    intro hA
    rw [hA, junkOf_nil] at he
    cases he
  have gen : ∀ (bs : List BMove) (bc : BCfg), (∃ sched, RelA A bc (exec P sched)) →
      ∃ sched, RelA A (bs.foldl (bstepA P A) bc) (exec P sched) := by
    intro bs
    induction bs with
    | nil => intro bc h; simpa using h
    | cons mv rest ih =>
      intro bc ⟨sched, hrel⟩
      simp only [List.foldl_cons]
      apply ih
      obtain ⟨ph, hokp, he⟩ := reachable_shape P hv sched
      cases mv with
      | pollD n =>
        have hld := shape_ld_msgs P hv ph hokp
        rw [← he] at hld
        obtain ⟨ex, hex⟩ := refine_DA P A bc (exec P sched) n hrel hJA hld
        exact ⟨sched ++ ex, by simpa [exec, List.foldl_append, bstepA] using hex⟩
      | pollL n =>
        have hdl := shape_dl_split P hv ph hokp
        rw [← he] at hdl
        obtain ⟨ex, hex⟩ := refine_LA P A bc (exec P sched) n hrel hdl hjA'
        exact ⟨sched ++ ex, by simpa [exec, List.foldl_append, bstepA] using hex⟩
  exact gen bs binit ⟨[], by simpa [exec] using relA_init A⟩

end C14
