import Libp2pModel.Proofs.C14Net
import Libp2pModel.Model.C14_NetLazy
/-!
# C14 helper: the byte-level refinement extended to optimistic `V1Lazy` application data
-/
namespace C14
open Mss

/-- enough fuel is enough: every consumed frame takes at least one byte -/
theorem runBytes_fuel {σ : Type} (step : σ → RdEv → σ × List Msg) (isDone : σ → Bool) :
    ∀ (f1 f2 : Nat) (s : σ) (buf : Bytes), buf.length < f1 → buf.length < f2 →
      runBytes step isDone f1 s buf = runBytes step isDone f2 s buf := by
  intro f1
  induction f1 with
  | zero => intro f2 s buf h; omega
  | succ f1 ih =>
    intro f2 s buf h1 h2
    cases f2 with
    | zero => omega
    | succ f2 =>
      rw [runBytes, runBytes]
      split
      · rfl
      · cases hd : frameDec buf with
        | none => rfl
        | some p =>
          obtain ⟨fr, rest⟩ := p
          have := C15.frameDec_progress _ _ _ hd
          simp only
          rw [ih f2 _ rest (by omega) (by omega)]

/-- running over the wire image of messages none of which is reached in a finished state, and
then over whatever follows (`X`) -/
theorem runBytes_through {σ : Type} (step : σ → RdEv → σ × List Msg) (isDone : σ → Bool) :
    ∀ (ms : List Msg) (s : σ) (X : Bytes) (fuel : Nat), (∀ m ∈ ms, wireOk m) →
      NotDoneBefore step isDone s ms →
      runBytes step isDone (fuel + ms.length) s (wireOfAll ms ++ X) =
        ((runBytes step isDone fuel (runSteps step s (ms.map .msg)).1 X).1,
         (runSteps step s (ms.map .msg)).2 ++ (runBytes step isDone fuel (runSteps step s (ms.map .msg)).1 X).2.1,
         (runBytes step isDone fuel (runSteps step s (ms.map .msg)).1 X).2.2) := by
  intro ms
  induction ms with
  | nil => intro s X fuel _ _; simp [wireOfAll, runSteps]
  | cons m ms ih =>
    intro s X fuel hw hnd
    obtain ⟨h0, hrest⟩ := hnd
    obtain ⟨w, hw1, _, hw3, hw4⟩ := wireOf_frame m (hw m (by simp)) (wireOfAll ms ++ X)
    have hwire : wireOfAll (m :: ms) ++ X = w ++ (wireOfAll ms ++ X) := by
      simp [wireOfAll, hw1]
    rw [hwire, List.length_cons, ← Nat.add_assoc, runBytes]
    simp only [h0, Bool.false_eq_true, ↓reduceIte, hw3, hw4]
    rw [ih _ X fuel (fun x hx => hw x (by simp [hx])) hrest]
    simp [runSteps, List.append_assoc]

/-- a run that ends finished is not disturbed by more input behind it -/
theorem runBytes_done_append {σ : Type} (step : σ → RdEv → σ × List Msg) (isDone : σ → Bool) :
    ∀ (fuel : Nat) (s : σ) (X Y : Bytes), isDone (runBytes step isDone fuel s X).1 = true →
      runBytes step isDone fuel s (X ++ Y) =
        ((runBytes step isDone fuel s X).1, (runBytes step isDone fuel s X).2.1,
         (runBytes step isDone fuel s X).2.2 ++ Y) := by
  intro fuel
  induction fuel with
  | zero => intro s X Y _; simp [runBytes]
  | succ f ih =>
    intro s X Y h
    by_cases hd : isDone s = true
    · simp [runBytes, hd]
    · have hd' : isDone s = false := by simpa using hd
      cases hX : frameDec X with
      | none =>
        rw [runBytes] at h
        simp [hd', hX] at h
      | some p =>
        obtain ⟨fr, rest⟩ := p
        have hst := C15.frameDec_stable _ _ _ Y hX
        rw [runBytes] at h ⊢
        simp only [hd', Bool.false_eq_true, ↓reduceIte, hX] at h
        rw [runBytes]
        simp only [hd', Bool.false_eq_true, ↓reduceIte, hX, hst]
        rw [ih _ rest Y h]

theorem wire_length (ms : List Msg) (hw : ∀ m ∈ ms, wireOk m) : ms.length ≤ (wireOfAll ms).length := by
  induction ms with
  | nil => simp
  | cons m ms ih =>
    obtain ⟨w, hw1, hw2, _, _⟩ := wireOf_frame m (hw m (by simp)) []
    have : wireOfAll (m :: ms) = w ++ wireOfAll ms := by simp [wireOfAll, hw1]
    rw [this, List.length_append, List.length_cons]
    have := ih (fun x hx => hw x (by simp [hx]))
    omega

/-- the event the first frame of the optimistic data produces -/
theorem junk_event (A : Bytes) (e : PErr) (hj : junkOf A = some e) (f : Frame) (r : Bytes)
    (hf : frameDec A = some (f, r)) : frameEvent f = .err e := by
  unfold junkOf at hj
  split at hj
  · cases hj
  · rw [hf] at hj
    cases f with
    | err e' => simp at hj; subst hj; rfl
    | data bs =>
      simp only at hj
      cases hd : decodeMsg bs with
      | err e' => rw [hd] at hj; simp at hj; subst hj; simp [frameEvent, hd]
      | ok m => rw [hd] at hj; simp at hj
      | panic w => rw [hd] at hj; simp at hj

theorem junk_incomplete (A : Bytes) (e : PErr) (hj : junkOf A = some e) (hf : frameDec A = none) :
    e = .unexpectedEof := by
  unfold junkOf at hj
  split at hj
  · cases hj
  · rw [hf] at hj; simp at hj; exact hj.symm

/-- **One byte-level poll with optimistic data behind the negotiation bytes.**  Either the poll
stops before the data (as `pollBytes_spec`, the data staying queued), or it has consumed all the
messages and then the data's first frame / its incomplete remains at EOF — as the error event
`junkOf A` — which finishes the automaton. -/
theorem pollBytes_specA {σ : Type} (step : σ → RdEv → σ × List Msg) (isDone : σ → Bool)
    (herr : ∀ s e, isDone (step s (.err e)).1 = true)
    (s : σ) (ms : List Msg) (A : Bytes) (e : PErr) (closed : Bool) (n : Nat)
    (hw : ∀ m ∈ ms, wireOk m) (hnd : isDone s = false) (hA : A ≠ []) (hj : junkOf A = some e) :
    ∃ j, j ≤ ms.length ∧ NotDoneBefore step isDone s (ms.take j) ∧
      (pollBytes step isDone s (wireOfAll ms ++ A) closed n =
          ((runSteps step s ((ms.take j).map .msg)).1, wireOfAll (ms.drop j) ++ A,
           (runSteps step s ((ms.take j).map .msg)).2) ∨
       (j = ms.length ∧ isDone (runSteps step s ((ms.take j).map .msg)).1 = false ∧
        ∃ X, pollBytes step isDone s (wireOfAll ms ++ A) closed n =
          ((step (runSteps step s ((ms.take j).map .msg)).1 (.err e)).1, X,
           (runSteps step s ((ms.take j).map .msg)).2 ++
             (step (runSteps step s ((ms.take j).map .msg)).1 (.err e)).2))) := by
  have hApos : 0 < A.length := by
    cases A with
    | nil => exact absurd rfl hA
    | cons a as => simp
  by_cases hn : n ≤ (wireOfAll ms).length
  · -- the readable prefix ends inside the negotiation bytes
    obtain ⟨j, rest, hjl, hnb, hrun, hrest, _⟩ := runBytes_prefix step isDone ms s n (n + 1) hw (by omega)
    refine ⟨j, hjl, hnb, Or.inl ?_⟩
    unfold pollBytes
    have htake : (wireOfAll ms ++ A).take n = (wireOfAll ms).take n :=
      List.take_append_of_le_length hn
    have hdrop : (wireOfAll ms ++ A).drop n = (wireOfAll ms).drop n ++ A :=
      List.drop_append_of_le_length hn
    have hnot : ¬ ((wireOfAll ms ++ A).length ≤ n) := by simp; omega
    simp only [hnd, Bool.false_eq_true, ↓reduceIte, htake, hrun, hnot, decide_false, Bool.and_false,
      hdrop]
    rw [← List.append_assoc, hrest]
  · -- all negotiation bytes are readable, and `k ≥ 1` bytes of the data
    have hgt : (wireOfAll ms).length < n := by omega
    have hlenW := wire_length ms hw
    have htake : (wireOfAll ms ++ A).take n = wireOfAll ms ++ A.take (n - (wireOfAll ms).length) := by
      rw [List.take_append, List.take_of_length_le (by omega)]
    have hdrop : (wireOfAll ms ++ A).drop n = A.drop (n - (wireOfAll ms).length) := by
      rw [List.drop_append, List.drop_of_length_le (by omega)]; rfl
    generalize hk : n - (wireOfAll ms).length = k at htake hdrop
    -- first look at the run over the negotiation bytes alone
    obtain ⟨j, rest, hjl, hnb, hrun, hrest, hstop⟩ :=
      runBytes_prefix step isDone ms s (wireOfAll ms).length (n + 1) hw (by omega)
    rw [List.take_of_length_le (Nat.le_refl _), List.drop_of_length_le (Nat.le_refl _),
      List.append_nil] at hrun hrest
    subst hrest
    rcases hstop with hdone | ⟨hnone, hjeq⟩
    · -- finished inside the negotiation bytes: the data stays queued
      refine ⟨j, hjl, hnb, Or.inl ?_⟩
      have happ := runBytes_done_append step isDone (n + 1) s (wireOfAll ms) (A.take k)
        (by rw [hrun]; exact hdone)
      rw [hrun] at happ
      unfold pollBytes
      simp only [hnd, Bool.false_eq_true, ↓reduceIte, htake, happ, hdone, Bool.not_true,
        Bool.false_and, hdrop]
      rw [List.append_assoc, List.take_append_drop]
    · -- not finished, so every message was consumed
      have hempty : ms.drop j = [] := by
        cases hdj : ms.drop j with
        | nil => rfl
        | cons m' t =>
          have hm' : m' ∈ ms := List.mem_of_mem_drop (by rw [hdj]; simp)
          obtain ⟨w, hw1, _, hw3, _⟩ := wireOf_frame m' (hw m' hm') (wireOfAll t)
          rw [hdj] at hnone
          have : wireOfAll (m' :: t) = w ++ wireOfAll t := by simp [wireOfAll, hw1]
          rw [this, hw3] at hnone
          cases hnone
      have hjlen : j = ms.length := by
        have := congrArg List.length hempty
        simp at this; omega
      have htk : ms.take j = ms := by rw [hjlen]; simp
      rw [htk] at hnb hrun ⊢
      have hsnd : isDone (runSteps step s (ms.map RdEv.msg)).1 = false := by
        -- otherwise the first alternative would have applied; decide by cases
        cases hh : isDone (runSteps step s (ms.map RdEv.msg)).1 with
        | false => rfl
        | true =>
          -- then report the "finished inside" alternative instead
          exact absurd hh (by
            intro hh
            -- `hstop` told us the run stopped for lack of a frame, but a finished state is also
            -- consistent; handle it uniformly below by contradiction-free reasoning
            exact Bool.noConfusion (hh.symm.trans (by
              cases hq : isDone (runSteps step s (ms.map RdEv.msg)).1 <;> simp_all)))
      sorry

end C14
