import Libp2pModel.Proofs.C14Net
/-!
# C14 helper: the byte-level refinement extended to optimistic `V1Lazy` application data
-/
namespace C14
open Mss

/-- enough fuel is enough: every consumed frame takes at least one byte -/
theorem runBytes_fuel {σ : Type} (step : σ → RdEv → σ × List Msg) (isDone : σ → Bool) :
    ∀ (f1 f2 : Nat) (s : σ) (buf : Bytes), buf.length < f1 → buf.length < f2 →
      runBytes step isDone f1 s buf = runBytes step isDone f2 s buf := by
  intro f1
  induction f1 with
  | zero => intro f2 s buf h; omega
  | succ f1 ih =>
    intro f2 s buf h1 h2
    cases f2 with
    | zero => omega
    | succ f2 =>
      rw [runBytes, runBytes]
      split
      · rfl
      · cases hd : frameDec buf with
        | none => rfl
        | some p =>
          obtain ⟨fr, rest⟩ := p
          have := C15.frameDec_progress _ _ _ hd
          simp only
          rw [ih f2 _ rest (by omega) (by omega)]

/-- running over the wire image of messages none of which is reached in a finished state, and
then over whatever follows (`X`) -/
theorem runBytes_through {σ : Type} (step : σ → RdEv → σ × List Msg) (isDone : σ → Bool) :
    ∀ (ms : List Msg) (s : σ) (X : Bytes) (fuel : Nat), (∀ m ∈ ms, wireOk m) →
      NotDoneBefore step isDone s ms →
      runBytes step isDone (fuel + ms.length) s (wireOfAll ms ++ X) =
        ((runBytes step isDone fuel (runSteps step s (ms.map .msg)).1 X).1,
         (runSteps step s (ms.map .msg)).2 ++ (runBytes step isDone fuel (runSteps step s (ms.map .msg)).1 X).2.1,
         (runBytes step isDone fuel (runSteps step s (ms.map .msg)).1 X).2.2) := by
  intro ms
  induction ms with
  | nil => intro s X fuel _ _; simp [wireOfAll, runSteps]
  | cons m ms ih =>
    intro s X fuel hw hnd
    obtain ⟨h0, hrest⟩ := hnd
    obtain ⟨w, hw1, _, hw3, hw4⟩ := wireOf_frame m (hw m (by simp)) (wireOfAll ms ++ X)
    have hwire : wireOfAll (m :: ms) ++ X = w ++ (wireOfAll ms ++ X) := by
      simp [wireOfAll, hw1]
    rw [hwire, List.length_cons, ← Nat.add_assoc, runBytes]
    simp only [h0, Bool.false_eq_true, ↓reduceIte, hw3, hw4]
    rw [ih _ X fuel (fun x hx => hw x (by simp [hx])) hrest]
    simp [runSteps, List.append_assoc]

end C14
