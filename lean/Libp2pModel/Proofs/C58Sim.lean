import Libp2pModel.Proofs.C58Tree
/-!
# C58 — the Spec accepts the model: simulation between the transcription of the generated code
(nested `Either`s, match arms, select trees) and the flat per-field-index Spec
-/
namespace C58

/-- the ops the harness can produce from a state (Rust's type system guarantees the rest): the
scripted answers cover every field, handler events have the derived struct's event type, handler
ops concern a handler that `handle_established_*` returned -/
def Op.wt (s : St) : Op → Prop
  | .decide pt _ d a => d.length = s.fields.length ∧ (pt = .pendOut → a.length = s.fields.length)
  | .fromHandler _ _ e => ∃ i v, i < s.fields.length ∧ e = wrap s.fields.length i (.leaf v)
  | .hrecv c e => (∃ h, lookup c s.conns = some h) ∧ ∃ i v, i < s.fields.length ∧ e = wrap s.fields.length i (.leaf v)
  | .hemit c => ∃ h, lookup c s.conns = some h
  | .bad => False
  | _ => True

structure Rel (s : St) (t : Flat) : Prop where
  len : s.fields.length = t.n
  user : s.user = t.user
  queues : s.fields.map (·.queue) = t.queues
  conns : t.conns = s.conns.map fun p => (p.1, p.2.queues)
  wf : ∀ p ∈ s.conns, tree p.1 p.2.queues = some p.2 ∧ p.2.queues.length = t.n

/-! ### association lists -/

theorem lookup_map {α β : Type} (g : α → β) (c : Nat) (l : List (Nat × α)) :
    lookup c (l.map fun p => (p.1, g p.2)) = (lookup c l).map g := by
  induction l with
  | nil => rfl
  | cons p l ih =>
    obtain ⟨k, v⟩ := p
    simp only [List.map_cons, lookup]
    by_cases h : k = c <;> simp [h, ih]

theorem setConn_map {α β : Type} (g : α → β) (c : Nat) (v : α) (l : List (Nat × α)) :
    setConn c (g v) (l.map fun p => (p.1, g p.2)) = (setConn c v l).map fun p => (p.1, g p.2) := by
  induction l with
  | nil => rfl
  | cons p l ih =>
    obtain ⟨k, w⟩ := p
    simp only [List.map_cons, setConn]
    by_cases h : k = c <;> simp [h, ih]

theorem mem_setConn {α : Type} (c : Nat) (v : α) (l : List (Nat × α)) (p : Nat × α)
    (h : p ∈ setConn c v l) : p = (c, v) ∨ p ∈ l := by
  induction l with
  | nil => simp [setConn] at h; exact Or.inl h
  | cons q l ih =>
    obtain ⟨k, w⟩ := q
    simp only [setConn] at h
    by_cases hk : k = c
    · simp only [hk, ↓reduceIte, List.mem_cons] at h
      rcases h with h | h
      · exact Or.inl h
      · exact Or.inr (List.mem_cons_of_mem _ h)
    · simp only [hk, ↓reduceIte, List.mem_cons] at h
      rcases h with h | h
      · exact Or.inr (by simp [h])
      · rcases ih h with h | h
        · exact Or.inl h
        · exact Or.inr (List.mem_cons_of_mem _ h)

theorem lookup_mem {α : Type} (c : Nat) (l : List (Nat × α)) (v : α) (h : lookup c l = some v) : (c, v) ∈ l := by
  induction l with
  | nil => simp [lookup] at h
  | cons q l ih =>
    obtain ⟨k, w⟩ := q
    simp only [lookup] at h
    by_cases hk : k = c
    · simp only [hk, ↓reduceIte, Option.some.injEq] at h; subst h; subst hk; simp
    · simp only [hk, ↓reduceIte] at h; exact List.mem_cons_of_mem _ (ih h)

/-! ### harness moves and scripts -/

theorem pushCmd_length (fs : List Probe) (i : Nat) (c : Cmd) : (pushCmd fs i c).length = fs.length := by
  induction fs generalizing i with
  | nil => rfl
  | cons f fs ih => cases i <;> simp [pushCmd, ih]

theorem pushCmd_queue (fs : List Probe) (i : Nat) (c : Cmd) :
    (pushCmd fs i c).map (·.queue) = pushAt (fs.map (·.queue)) i c := by
  induction fs generalizing i with
  | nil => rfl
  | cons f fs ih => cases i <;> simp [pushCmd, pushAt, ih]

theorem foldl_push (items : List (Nat × Cmd)) (fs : List Probe) :
    (items.foldl (fun fs it => pushCmd fs it.1 it.2) fs).length = fs.length ∧
    (items.foldl (fun fs it => pushCmd fs it.1 it.2) fs).map (·.queue) =
      items.foldl (fun qs it => pushAt qs it.1 it.2) (fs.map (·.queue)) := by
  induction items generalizing fs with
  | nil => simp
  | cons it items ih =>
    simp only [List.foldl_cons]
    obtain ⟨h1, h2⟩ := ih (pushCmd fs it.1 it.2)
    exact ⟨by rw [h1, pushCmd_length], by rw [h2, pushCmd_queue]⟩

theorem applyScript_length (pt : Point) (fs : List Probe) (d : List Bool) (a : List (List String)) :
    (applyScript pt fs d a).length = fs.length := by
  induction fs generalizing d a with
  | nil => simp [applyScript]
  | cons f fs ih =>
    cases d with
    | nil => simp [applyScript]
    | cons b d => cases a <;> simp [applyScript, ih]

theorem applyScript_queue (pt : Point) (fs : List Probe) (d : List Bool) (a : List (List String)) :
    (applyScript pt fs d a).map (·.queue) = fs.map (·.queue) := by
  induction fs generalizing d a with
  | nil => simp [applyScript]
  | cons f fs ih =>
    cases d with
    | nil => simp [applyScript]
    | cons b d => cases a <;> simp [applyScript, ih]

theorem deny_setDeny (pt : Point) (s : Script) (b : Bool) : pt.deny (s.setDeny pt b) = b := by
  cases pt <;> rfl

theorem deny_setDeny_addrs (pt : Point) (s : Script) (b : Bool) (a : List String) :
    pt.deny { (s.setDeny pt b) with addrs := a } = b := by
  cases pt <;> rfl

theorem applyScript_denies (pt : Point) (fs : List Probe) (d : List Bool) (a : List (List String))
    (h : d.length = fs.length) : denies pt (applyScript pt fs d a) = d := by
  induction fs generalizing d a with
  | nil => cases d <;> simp_all [applyScript, denies]
  | cons f fs ih =>
    cases d with
    | nil => simp at h
    | cons b d =>
      have h' : d.length = fs.length := by simpa using h
      cases a with
      | nil =>
        have := ih d [] h'
        simp only [denies] at this
        simp [applyScript, denies, deny_setDeny, this]
      | cons x a =>
        have := ih d a h'
        simp only [denies] at this
        simp [applyScript, denies, deny_setDeny_addrs, this]

theorem applyScript_addrs (pt : Point) (fs : List Probe) (d : List Bool) (a : List (List String))
    (h : d.length = fs.length) (ha : a.length = fs.length) :
    (applyScript pt fs d a).map (·.script.addrs) = a := by
  induction fs generalizing d a with
  | nil => cases a <;> simp_all [applyScript]
  | cons f fs ih =>
    cases d with
    | nil => simp at h
    | cons b d =>
      cases a with
      | nil => simp at ha
      | cons x a =>
        simp [applyScript, ih d a (by simpa using h) (by simpa using ha)]

/-! ### one step -/

theorem rel_fields {s : St} {t : Flat} (R : Rel s t) (fs : List Probe)
    (hl : fs.length = s.fields.length) (hq : fs.map (·.queue) = s.fields.map (·.queue)) :
    Rel { s with fields := fs } t :=
  ⟨by simp [hl, R.len], R.user, by simp [hq, R.queues], R.conns, R.wf⟩

theorem rel_setConn {s : St} {t : Flat} (R : Rel s t) (c : Nat) (h : HTree) (qs : List (List Nat))
    (ht : tree c qs = some h) (hl : qs.length = t.n) :
    Rel { s with conns := setConn c h s.conns } { t with conns := setConn c qs t.conns } := by
  have hq := tree_queues c qs h ht
  refine ⟨R.len, R.user, R.queues, ?_, ?_⟩
  · simp only [R.conns, ← hq]
    exact setConn_map HTree.queues c h s.conns
  · intro p hp
    rcases mem_setConn c h s.conns p hp with rfl | hp
    · simp [hq, ht, hl]
    · exact R.wf p hp

theorem step_decide {s : St} {t : Flat} (R : Rel s t) (pt : Point) (c : Nat) (d : List Bool)
    (a : List (List String)) (hd : d.length = s.fields.length) (ha : pt = .pendOut → a.length = s.fields.length) :
    (expect t (.decide pt c d a)).2 = some (step s (.decide pt c d a)).2 ∧
      Rel (step s (.decide pt c d a)).1 (expect t (.decide pt c d a)).1 := by
  have hn : d.length = t.n := by rw [hd, R.len]
  have hfl := applyScript_length pt s.fields d a
  have hfq := applyScript_queue pt s.fields d a
  have hden := applyScript_denies pt s.fields d a hd
  have R' := rel_fields R (applyScript pt s.fields d a) hfl hfq
  have hlog : ∀ {α : Type} (st : α → Nat → Probe → α) (acc : α),
      (chain pt c st 0 acc (applyScript pt s.fields d a)).1 = expectLog pt c t.n d := by
    intro α st acc
    rw [chain_log, hden, logFrom_zero, hn]
  have hret : ∀ {α : Type} (st : α → Nat → Probe → α) (acc : α),
      (chain pt c st 0 acc (applyScript pt s.fields d a)).2 =
        if (firstDeny d).isSome then none else some (foldIdx st 0 acc (applyScript pt s.fields d a)) := by
    intro α st acc
    rw [chain_ret, hden, firstDeny_isSome]
  cases pt with
  | pendIn =>
    simp only [expect, hn, ne_eq, not_true_eq_false, ↓reduceIte, step, pendIn, hlog, hret]
    refine ⟨?_, R'⟩
    cases (firstDeny d).isSome <;> simp
  | pendOut =>
    have haddr := applyScript_addrs .pendOut s.fields d a hd (ha rfl)
    have htake : a.take t.n = a := by
      apply List.take_of_length_le
      rw [ha rfl, R.len]; exact Nat.le_refl _
    simp only [expect, hn, ne_eq, not_true_eq_false, ↓reduceIte, step, pendOut, hlog, hret,
      foldIdx_addrs, haddr, htake, List.nil_append]
    refine ⟨?_, R'⟩
    cases (firstDeny d).isSome <;> simp
  | estIn =>
    simp only [expect, hn, ne_eq, not_true_eq_false, ↓reduceIte, step, est, hlog, hret,
      foldIdx_selStep_zero, hfl, R.len]
    cases hdeny : (firstDeny d).isSome
    · cases htree : tree c (List.replicate t.n []) with
      | none =>
        have : t.n = 0 := by
          cases hh : t.n with
          | zero => rfl
          | succ m => rw [hh] at htree; simp [List.replicate_succ, tree] at htree
        simp [this]; simpa [this] using R'
      | some h =>
        have : t.n ≠ 0 := by
          intro h0; rw [h0] at htree; simp [tree] at htree
        simp only [Bool.false_eq_true, ↓reduceIte, this, or_self]
        exact ⟨trivial, rel_setConn R' c h _ htree (by simp)⟩
    · simp; exact R'
  | estOut =>
    simp only [expect, hn, ne_eq, not_true_eq_false, ↓reduceIte, step, est, hlog, hret,
      foldIdx_selStep_zero, hfl, R.len]
    cases hdeny : (firstDeny d).isSome
    · cases htree : tree c (List.replicate t.n []) with
      | none =>
        have : t.n = 0 := by
          cases hh : t.n with
          | zero => rfl
          | succ m => rw [hh] at htree; simp [List.replicate_succ, tree] at htree
        simp [this]; simpa [this] using R'
      | some h =>
        have : t.n ≠ 0 := by
          intro h0; rw [h0] at htree; simp [tree] at htree
        simp only [Bool.false_eq_true, ↓reduceIte, this, or_self]
        exact ⟨trivial, rel_setConn R' c h _ htree (by simp)⟩
    · simp; exact R'

/-- **The Spec accepts the model, step by step**: from related states, on every op the harness can
produce, the one output the Spec allows is the model's output, and the states stay related. -/
theorem step_accepted {s : St} {t : Flat} (R : Rel s t) (op : Op) (hwt : op.wt s) :
    (expect t op).2 = some (step s op).2 ∧ Rel (step s op).1 (expect t op).1 := by
  cases op with
  | mvPush items =>
    obtain ⟨h1, h2⟩ := foldl_push items s.fields
    refine ⟨rfl, ⟨by simp [step, expect, h1, R.len], R.user, ?_, R.conns, R.wf⟩⟩
    simp [step, expect, h2, R.queues]
  | mvOther => exact ⟨rfl, R⟩
  | swarm ev =>
    refine ⟨?_, R⟩
    simp [expect, step, onSwarmEvent, onSwarmFrom_eq, List.range_eq_range', R.len]
  | decide pt c d a => exact step_decide R pt c d a hwt.1 hwt.2
  | fromHandler c p e =>
    obtain ⟨i, v, hi, rfl⟩ := hwt
    refine ⟨?_, by simpa [expect, step, R.len, decode_wrap _ _ _ (R.len ▸ hi)] using R⟩
    rw [R.len] at hi ⊢
    simp [expect, step, onHandlerEvent, decode_wrap _ _ _ hi, dispatch_wrap _ _ _ hi, R.len]
  | poll =>
    have hp := pollFrom_spec s.user s.fields.length s.fields 0
    rw [R.queues] at hp
    simp only [expect, step, poll]
    cases hfp : firstPop t.queues with
    | none =>
      rw [hfp] at hp
      simp only at hp
      simp [hp]; exact R
    | some r =>
      obtain ⟨j, cmd, qs⟩ := r
      rw [hfp] at hp
      obtain ⟨fs', h1, h2, h3⟩ := hp
      have hl : fs'.length = s.fields.length := by
        have := congrArg List.length h3
        simpa using this
      rw [Nat.zero_add, R.user, R.len] at h1
      simp only [h1, R.user, R.len]
      exact ⟨trivial, ⟨by simp [hl, R.len], rfl, by simp [h2], R.conns, R.wf⟩⟩
  | hrecv c e =>
    obtain ⟨⟨h, hh⟩, i, v, hi, rfl⟩ := hwt
    obtain ⟨hw1, hw2⟩ := R.wf _ (lookup_mem c s.conns h hh)
    simp only at hw1 hw2
    have hlk : lookup c t.conns = some h.queues := by
      rw [R.conns, lookup_map HTree.queues, hh]; rfl
    rw [R.len] at hi
    have hi' : i < h.queues.length := by rw [hw2]; exact hi
    obtain ⟨h', hr, ht'⟩ := tree_recv_wrap c h.queues h hw1 i v hi'
    rw [hw2] at hr
    simp only [expect, step, hh, hlk, R.len, decode_wrap _ _ _ hi, hr]
    exact ⟨trivial, rel_setConn R c h' _ ht' (by rw [pushAt_length, hw2])⟩
  | hemit c =>
    obtain ⟨h, hh⟩ := hwt
    obtain ⟨hw1, hw2⟩ := R.wf _ (lookup_mem c s.conns h hh)
    simp only at hw1 hw2
    have hlk : lookup c t.conns = some h.queues := by
      rw [R.conns, lookup_map HTree.queues, hh]; rfl
    have hp := tree_poll c h.queues h hw1
    simp only [expect, step, hh, hlk]
    cases hfp : firstPop h.queues with
    | none =>
      rw [hfp] at hp
      simp only at hp
      simp [hp]; exact R
    | some r =>
      obtain ⟨j, v, qs'⟩ := r
      rw [hfp] at hp
      obtain ⟨h', hr, ht'⟩ := hp
      rw [hw2] at hr
      simp only [hr]
      exact ⟨trivial, rel_setConn R c h' _ ht' (by rw [(firstPop_length _ _ _ _ hfp).1, hw2])⟩
  | bad => exact absurd hwt id

theorem rel_init (n : Nat) (user : Bool) : Rel (St.init n user) (Flat.init n user) :=
  ⟨by simp [St.init, Flat.init], rfl, by simp [St.init, Flat.init], rfl, by simp [St.init]⟩

end C58
