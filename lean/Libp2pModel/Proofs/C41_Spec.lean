import Libp2pModel.Proofs.C41_Inv
/-!
# C41 — effect of the provider operations on `providers(k)`, the observable state, and the proof
that the executable Spec accepts every step of the model
-/
namespace C41

/-! ## effects -/

theorem any_provider_iff (l : List PRec) (r : PRec) :
    l.any (fun x => decide (x.provider = r.provider)) = true ↔ updFirst l r ≠ none := by
  rw [Ne, updFirst_none]
  simp

theorem addProviderTo_effect {s : Store} (h : Inv s) (r : PRec) (l : List PRec)
    (hl : aget s.providers r.key = some l ∨
      (aget s.providers r.key = none ∧ l = [] ∧ s.cfg.maxProvidedKeys ≠ s.providers.length)) :
    (addProviderTo s r l).2 = .ok ∧ (addProviderTo s r l).1.records = s.records ∧
    (addProviderTo s r l).1.cfg = s.cfg ∧ (addProviderTo s r l).1.loc = s.loc ∧
    ∀ k', providersOf (addProviderTo s r l).1 k' =
      if r.key = k' then expectAdd s.cfg l r else providersOf s k' := by
  have hpo : providersOf s r.key = l := by
    rcases hl with h1 | ⟨h1, h2, _⟩
    · simp [providersOf, h1]
    · simp [providersOf, h1, h2]
  have hfacts : (l.map (·.provider)).Nodup ∧ l.length ≤ s.cfg.maxProvidersPerKey := by
    rcases hl with h1 | ⟨_, h2, _⟩
    · exact (h.entry h1).2
    · subst h2; simp
  obtain ⟨hnd, hlen⟩ := hfacts
  unfold C41.addProviderTo expectAdd
  cases hu : updFirst l r with
  | some pr =>
    obtain ⟨old, l'⟩ := pr
    obtain ⟨hold, hop, rfl⟩ := updFirst_some l r old _ hnd hu
    have hany : l.any (fun x => decide (x.provider = r.provider)) = true :=
      (any_provider_iff l r).2 (by simp [hu])
    simp only [hany, if_true]
    refine ⟨by trivial, by trivial, by trivial, by trivial, fun k' => ?_⟩
    rw [providersOf_aset]
  | none =>
    have hany : l.any (fun x => decide (x.provider = r.provider)) = false := by
      have : ¬ (l.any (fun x => decide (x.provider = r.provider)) = true) :=
        fun hc => (any_provider_iff l r).1 hc hu
      simpa using this
    simp only [hany]
    split
    · rename_i hfull
      refine ⟨by trivial, by trivial, by trivial, by trivial, fun k' => ?_⟩
      rw [providersOf_aset]
      simp [hfull]
    · rename_i hfull
      refine ⟨by trivial, by trivial, by trivial, by trivial, fun k' => ?_⟩
      rw [providersOf_aset]
      have : ¬ l.length ≥ s.cfg.maxProvidersPerKey := by omega
      simp [this]

/-- `add_provider`: refused only for a new key when `max_provided_keys` keys are present;
otherwise `providers(r.key)` becomes `expectAdd …` and no other key changes -/
theorem addProvider_effect {s : Store} (h : Inv s) (r : PRec) :
    ((addProvider s r).2 = .err .maxProvidedKeys ∧ (addProvider s r).1 = s ∧
        aget s.providers r.key = none ∧ s.cfg.maxProvidedKeys = s.providers.length) ∨
    ((addProvider s r).2 = .ok ∧ (addProvider s r).1.records = s.records ∧
      (addProvider s r).1.cfg = s.cfg ∧ (addProvider s r).1.loc = s.loc ∧
      (aget s.providers r.key = none → s.cfg.maxProvidedKeys ≠ s.providers.length) ∧
      ∀ k', providersOf (addProvider s r).1 k' =
        if r.key = k' then expectAdd s.cfg (providersOf s r.key) r else providersOf s k') := by
  unfold C41.addProvider
  cases hg : aget s.providers r.key with
  | some l =>
    right
    obtain ⟨h1, h2, h3, h4, h5⟩ := addProviderTo_effect h r l (Or.inl hg)
    refine ⟨h1, h2, h3, h4, by simp, ?_⟩
    simpa [providersOf, hg] using h5
  | none =>
    simp only
    split
    · rename_i he
      exact Or.inl ⟨by trivial, by trivial, by trivial, he⟩
    · rename_i hne
      right
      obtain ⟨h1, h2, h3, h4, h5⟩ := addProviderTo_effect h r [] (Or.inr ⟨hg, rfl, hne⟩)
      refine ⟨h1, h2, h3, h4, fun _ => hne, ?_⟩
      simpa [providersOf, hg] using h5

/-- `remove_provider k p`: `providers(k)` loses the record of `p`, nothing else changes -/
theorem removeProvider_effect {s : Store} (h : Inv s) (k p : Nat) :
    (removeProvider s k p).records = s.records ∧ (removeProvider s k p).cfg = s.cfg ∧
    (removeProvider s k p).loc = s.loc ∧
    ∀ k', providersOf (removeProvider s k p) k' =
      if k = k' then (providersOf s k).filter (fun x => x.provider ≠ p) else providersOf s k' := by
  unfold C41.removeProvider
  cases hg : aget s.providers k with
  | none =>
    refine ⟨by trivial, by trivial, by trivial, fun k' => ?_⟩
    by_cases hk : k = k'
    · subst hk; simp [providersOf, hg]
    · simp [hk]
  | some l =>
    obtain ⟨hkey, hnd, hlen⟩ := h.entry hg
    have hpo : providersOf s k = l := by simp [providersOf, hg]
    simp only
    cases hu : rmFirst l p with
    | some pr =>
      obtain ⟨old, l'⟩ := pr
      obtain ⟨hold, hop, rfl⟩ := rmFirst_some l p old _ hnd hu
      simp only
      split
      · rename_i hem
        simp only [List.isEmpty_iff] at hem
        refine ⟨by trivial, by trivial, by trivial, fun k' => ?_⟩
        rw [providersOf_adel, hpo, hem]
      · refine ⟨by trivial, by trivial, by trivial, fun k' => ?_⟩
        rw [providersOf_aset, hpo]
    | none =>
      have hnone := (rmFirst_none l p).1 hu
      have hf : l.filter (fun x => x.provider ≠ p) = l := List.filter_eq_self.2 (by
        intro x hx; simpa using hnone x hx)
      simp only
      split
      · rename_i hem
        simp only [List.isEmpty_iff] at hem
        refine ⟨by trivial, by trivial, by trivial, fun k' => ?_⟩
        have := providersOf_adel s k s.provided k'
        simp only [hpo, hf] at this ⊢
        rw [hem]
        exact this
      · refine ⟨by trivial, by trivial, by trivial, fun k' => ?_⟩
        have := providersOf_aset s k l s.provided k'
        simp only [hpo, hf] at this ⊢
        exact this

/-- after `remove_provider`, the entry of `k` is never an empty list -/
theorem removeProvider_no_empty (s : Store) (k p : Nat) :
    aget (removeProvider s k p).providers k ≠ some [] := by
  unfold C41.removeProvider
  cases hg : aget s.providers k with
  | none => simp [hg]
  | some l =>
    simp only
    cases hu : rmFirst l p with
    | some pr =>
      obtain ⟨old, l'⟩ := pr
      simp only
      split
      · simp [aget_adel]
      · rename_i hem
        simp only [aget_aset, if_true]
        intro hc; simp at hc; simp [hc] at hem
    | none =>
      simp only
      split
      · simp [aget_adel]
      · rename_i hem
        simp only [aget_aset, if_true]
        intro hc; simp at hc; simp [hc] at hem

/-! ## the observable state -/

theorem find_map_snd (l : List (Nat × Record)) (hk : ∀ e ∈ l, e.2.key = e.1) (k : Nat) :
    (l.map (·.2)).find? (fun r => r.key == k) = aget l k := by
  induction l with
  | nil => rfl
  | cons e t ih =>
    obtain ⟨k0, v0⟩ := e
    have h0 : v0.key = k0 := hk (k0, v0) List.mem_cons_self
    have ih' := ih (fun e he => hk e (List.mem_cons_of_mem _ he))
    simp only [List.map_cons, List.find?_cons, aget, h0, ih']
    by_cases hkk : k0 = k
    · subst hkk; simp
    · have hb : (k0 == k) = false := by simpa using hkk
      simp [hb, hkk]

theorem filter_flatMap_snd (l : List (Nat × List PRec)) (hn : (l.map (·.1)).Nodup)
    (hk : ∀ e ∈ l, ∀ p ∈ e.2, p.key = e.1) (k : Nat) :
    (l.flatMap (·.2)).filter (fun r => r.key == k) = (aget l k).getD [] := by
  induction l with
  | nil => rfl
  | cons e t ih =>
    obtain ⟨k0, l0⟩ := e
    simp only [List.map_cons, List.nodup_cons] at hn
    have h0 : ∀ p ∈ l0, p.key = k0 := hk (k0, l0) List.mem_cons_self
    have ih' := ih hn.2 (fun e he => hk e (List.mem_cons_of_mem _ he))
    simp only [List.flatMap_cons, List.filter_append, ih', aget]
    by_cases hkk : k0 = k
    · subst hkk
      have h1 : l0.filter (fun r => r.key == k0) = l0 :=
        List.filter_eq_self.2 (fun p hp => by simp [h0 p hp])
      simp [h1, aget_none_of_not_mem t k0 hn.1]
    · have h1 : l0.filter (fun r => r.key == k) = [] :=
        List.filter_eq_nil_iff.2 (fun p hp => by simp [h0 p hp, hkk])
      simp [h1, hkk]

theorem view_get {s : Store} (h : Inv s) (k : Nat) : (view s).get k = get s k :=
  find_map_snd s.records h.rkey_eq k

theorem view_provsOf {s : Store} (h : Inv s) (k : Nat) : (view s).provsOf k = providersOf s k :=
  filter_flatMap_snd s.providers h.pkeys h.pkey_eq k

theorem view_record_keys {s : Store} (h : Inv s) :
    (view s).records.map (·.key) = s.records.map (·.1) := by
  simp only [view, List.map_map]
  exact List.map_congr_left (fun e he => h.rkey_eq e he)

theorem mem_view_provs {s : Store} (h : Inv s) (r : PRec) :
    r ∈ (view s).provs ↔ r ∈ providersOf s r.key := by
  simp only [view, List.mem_flatMap]
  constructor
  · rintro ⟨e, he, hr⟩
    have hk := h.pkey_eq e he r hr
    have := aget_of_mem s.providers e.1 e.2 h.pkeys he
    rw [providersOf, hk, this]
    exact hr
  · intro hr
    unfold providersOf at hr
    cases hg : aget s.providers r.key with
    | none => simp [hg] at hr
    | some l =>
      simp [hg] at hr
      exact ⟨(r.key, l), aget_some_mem _ _ _ hg, hr⟩

theorem providersOf_facts {s : Store} (h : Inv s) (k : Nat) :
    (providersOf s k).length ≤ s.cfg.maxProvidersPerKey ∧ ((providersOf s k).map (·.provider)).Nodup := by
  unfold providersOf
  cases hg : aget s.providers k with
  | none => simp
  | some l => exact ⟨(h.entry hg).2.2, (h.entry hg).2.1⟩

theorem viewOk_view {s : Store} (h : Inv s) : viewOk s.cfg s.loc (view s) = true := by
  unfold viewOk
  simp only [Bool.and_eq_true, decide_eq_true_eq, List.all_eq_true, Bool.or_eq_true,
    List.contains_iff_mem]
  refine ⟨⟨⟨⟨⟨⟨?_, ?_⟩, ?_⟩, ?_⟩, ?_⟩, ?_⟩, ?_⟩
  · rw [view_record_keys h]; exact h.rkeys
  · simpa [view] using h.rlen
  · intro r hr
    obtain ⟨e, he, rfl⟩ := List.mem_map.1 hr
    exact h.rval e he
  · intro k _
    rw [view_provsOf h]
    exact providersOf_facts h k
  · intro r hr
    have := (h.provided_exact r).1 hr
    exact ⟨this.1, (mem_view_provs h r).2 this.2⟩
  · intro r hr
    by_cases hl : r.provider = s.loc
    · exact Or.inr ((h.provided_exact r).2 ⟨hl, (mem_view_provs h r).1 hr⟩)
    · exact Or.inl hl
  · exact h.provided_nodup

/-! ## the Spec accepts every step of the model -/

theorem put_cases (s : Store) (r : Record) :
    (r.value.length ≥ s.cfg.maxValueBytes ∧ put s r = (s, .err .valueTooLarge)) ∨
    (r.value.length < s.cfg.maxValueBytes ∧ aget s.records r.key = none ∧
      s.records.length ≥ s.cfg.maxRecords ∧ put s r = (s, .err .maxRecords)) ∨
    (r.value.length < s.cfg.maxValueBytes ∧
      ((aget s.records r.key).isSome ∨ s.records.length < s.cfg.maxRecords) ∧
      put s r = ({ s with records := aset s.records r.key r }, .ok)) := by
  unfold C41.put
  by_cases hv : r.value.length ≥ s.cfg.maxValueBytes
  · left; simp [hv]
  · right
    cases hg : aget s.records r.key with
    | some old => right; simp [hv]; omega
    | none =>
      by_cases hm : s.records.length ≥ s.cfg.maxRecords
      · left; simp [hv, hm]; omega
      · right; simp [hv, hm]; omega

theorem step_cfg_loc {s : Store} (h : Inv s) (op : Op) :
    (step s op).1.cfg = s.cfg ∧ (step s op).1.loc = s.loc := by
  cases op with
  | get k => exact ⟨rfl, rfl⟩
  | put r =>
    simp only [step]
    rcases put_cases s r with ⟨_, h1⟩ | ⟨_, _, _, h1⟩ | ⟨_, _, h1⟩ <;> rw [h1] <;> exact ⟨rfl, rfl⟩
  | remove k => exact ⟨rfl, rfl⟩
  | retain f => exact ⟨rfl, rfl⟩
  | addProvider r =>
    rcases addProvider_effect h r with ⟨_, h2, _⟩ | ⟨_, _, h3, h4, _⟩
    · simp [step, h2]
    · exact ⟨h3, h4⟩
  | removeProvider k p =>
    exact ⟨(removeProvider_effect h k p).2.1, (removeProvider_effect h k p).2.2.1⟩

theorem ite_none {c : Bool} {x : String} (h : c = true) :
    (if c = true then (none : Option String) else some x) = none := by simp [h]

theorem spec_step_model {s : Store} (h : Inv s) (op : Op) :
    specStep s.cfg s.loc (view s) op (step s op).2 (view (step s op).1) = none := by
  have h' : Inv (step s op).1 := h.step op
  have hok : viewOk s.cfg s.loc (view (step s op).1) = true := by
    have := viewOk_view h'
    rwa [(step_cfg_loc h op).1, (step_cfg_loc h op).2] at this
  cases op with
  | get k =>
    simp only [step] at hok
    simp [specStep, step, hok, view_get h]
  | put r =>
    simp only [step] at h' hok ⊢
    have hlen : (view s).records.length = s.records.length := by simp [view]
    simp only [specStep, hok, Bool.not_true, Bool.false_eq_true, if_false, view_get h, hlen]
    rcases put_cases s r with ⟨hv, h1⟩ | ⟨hv, hg, hm, h1⟩ | ⟨hv, hc, h1⟩
    · rw [h1]; simp [hv]
    · rw [h1]
      have hv' : ¬ r.value.length ≥ s.cfg.maxValueBytes := by omega
      simp [hv', get, hg, hm]
    · rw [h1] at h' ⊢
      have hv' : ¬ r.value.length ≥ s.cfg.maxValueBytes := by omega
      have hc' : ((get s r.key).isNone && decide (s.records.length ≥ s.cfg.maxRecords)) = false := by
        rcases hc with hc | hc
        · cases hg : aget s.records r.key with
          | none => simp [hg] at hc
          | some o => simp [get, hg]
        · have : ¬ s.records.length ≥ s.cfg.maxRecords := by omega
          simp [this]
      simp only [hv', if_false, hc', Bool.false_eq_true]
      apply ite_none
      simp only [Bool.and_eq_true, beq_iff_eq, List.all_eq_true]
      refine ⟨⟨⟨trivial, ?_⟩, rfl⟩, rfl⟩
      intro k _
      rw [view_get h']
      simp only [get, aget_aset]
      by_cases hk : k = r.key
      · subst hk; simp
      · have : ¬ r.key = k := fun hc => hk hc.symm
        simp [hk, this]
  | remove k =>
    simp only [step] at h' hok ⊢
    simp only [specStep, hok, Bool.not_true, Bool.false_eq_true, if_false]
    apply ite_none
    simp only [Bool.and_eq_true, beq_iff_eq, List.all_eq_true]
    refine ⟨⟨⟨trivial, ?_⟩, rfl⟩, rfl⟩
    intro k' _
    rw [view_get h', view_get h]
    simp only [get, C41.remove, aget_adel]
    by_cases hk : k' = k
    · subst hk; simp
    · have : ¬ k = k' := fun hc => hk hc.symm
      simp [hk, this]
  | retain f =>
    simp only [step] at h' hok ⊢
    simp only [specStep, hok, Bool.not_true, Bool.false_eq_true, if_false]
    apply ite_none
    simp only [Bool.and_eq_true, beq_iff_eq, List.all_eq_true]
    refine ⟨⟨⟨trivial, ?_⟩, rfl⟩, rfl⟩
    intro k' _
    rw [view_get h', view_get h]
    simp only [get, C41.retain]
    rw [aget_filter _ _ _ h.rkeys]
  | addProvider r =>
    simp only [step] at h' hok ⊢
    simp only [specStep, hok, Bool.not_true, Bool.false_eq_true, if_false, view_provsOf h]
    rcases addProvider_effect h r with ⟨h1, h2, h3, _⟩ | ⟨h1, h2, _, _, _, h6⟩
    · rw [h1, h2]
      simp [providersOf, h3]
    · rw [h1]
      simp only [reduceCtorEq, beq_iff_eq, if_false]
      apply ite_none
      simp only [Bool.and_eq_true, beq_iff_eq, List.all_eq_true, Bool.or_eq_true, decide_eq_true_eq]
      refine ⟨⟨⟨trivial, ?_⟩, ?_⟩, ?_⟩
      · simp [view, h2]
      · intro k _
        by_cases hk : k = r.key
        · exact Or.inl hk
        · right
          rw [view_provsOf h', h6]
          simp [Ne.symm hk]
      · rw [view_provsOf h', h6]
        simp
  | removeProvider k p =>
    simp only [step] at h' hok ⊢
    simp only [specStep, hok, Bool.not_true, Bool.false_eq_true, if_false]
    obtain ⟨h1, _, _, h4⟩ := removeProvider_effect h k p
    apply ite_none
    simp only [Bool.and_eq_true, beq_iff_eq, List.all_eq_true]
    refine ⟨⟨trivial, ?_⟩, ?_⟩
    · simp [view, h1]
    · intro k' _
      rw [view_provsOf h', view_provsOf h, view_provsOf h, h4]
      by_cases hk : k' = k
      · subst hk; simp
      · have : ¬ k = k' := fun hc => hk hc.symm
        simp [hk, this]

end C41
