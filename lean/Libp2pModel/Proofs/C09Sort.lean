import Libp2pModel.Model.C09
/-! # C09 — helper lemmas: the stable sort, the Happy-Eyeballs pass, the delay pass -/
namespace C09

/-! ## sort -/
theorem insertByKey_perm (key : Maddr → Nat) (x : Maddr) (l : List Maddr) :
    (insertByKey key x l).Perm (x :: l) := by
  induction l with
  | nil => exact .refl _
  | cons y ys ih =>
    unfold insertByKey
    split
    · exact (ih.cons y).trans (List.Perm.swap x y ys)
    · exact .refl _

theorem sortByKey_perm (key : Maddr → Nat) (l : List Maddr) : (sortByKey key l).Perm l := by
  induction l with
  | nil => exact .refl _
  | cons x xs ih => exact (insertByKey_perm key x _).trans (ih.cons x)

theorem insertByKey_sorted (key : Maddr → Nat) (x : Maddr) (l : List Maddr)
    (h : l.Pairwise fun a b => key a ≤ key b) :
    (insertByKey key x l).Pairwise fun a b => key a ≤ key b := by
  induction l with
  | nil => simp [insertByKey]
  | cons y ys ih =>
    rw [List.pairwise_cons] at h
    unfold insertByKey
    split
    · rename_i hlt
      rw [List.pairwise_cons]
      refine ⟨?_, ih h.2⟩
      intro z hz
      rcases List.mem_cons.1 ((insertByKey_perm key x ys).mem_iff.1 hz) with rfl | hz
      · omega
      · exact h.1 z hz
    · rename_i hge
      rw [List.pairwise_cons]
      refine ⟨?_, List.pairwise_cons.2 h⟩
      intro z hz
      rcases List.mem_cons.1 hz with rfl | hz
      · omega
      · have := h.1 z hz; omega

theorem sortByKey_sorted (key : Maddr → Nat) (l : List Maddr) :
    (sortByKey key l).Pairwise fun a b => key a ≤ key b := by
  induction l with
  | nil => simp [sortByKey]
  | cons x xs ih => exact insertByKey_sorted key x _ ih

/-! ## QUIC addresses sort first -/
theorem isQuic_eq (a : Maddr) : isQuic a = (hasQuicV1 a || hasQuic0 a) := by
  induction a with
  | nil => rfl
  | cons p r ih =>
    simp only [isQuic, hasQuicV1, hasQuic0, List.any_cons] at *
    rw [ih]
    cases p <;> simp <;> cases (List.any r _) <;> simp

theorem rank_le_one_iff (a : Maddr) : transportRank a ≤ 1 ↔ isQuic a = true := by
  rw [isQuic_eq]
  unfold transportRank
  cases hasQuicV1 a <;> cases hasQuic0 a <;> simp
  repeat' split
  all_goals omega

/-- `QF l`: no non-QUIC address precedes a QUIC address -/
def QF (l : List Maddr) : Prop := l.Pairwise fun a b => isQuic b = true → isQuic a = true

theorem score_quic_first (a b : Maddr) (h : score a ≤ score b) (hb : isQuic b = true) :
    isQuic a = true := by
  rw [← rank_le_one_iff] at *
  unfold score at h
  have h1 : firstPort a % 65536 < 65536 := Nat.mod_lt _ (by decide)
  have h2 : firstPort b % 65536 < 65536 := Nat.mod_lt _ (by decide)
  split at h <;> split at h <;> omega

theorem sorted_QF (l : List Maddr) : QF (sortByKey score l) :=
  (sortByKey_sorted score l).imp fun {a b} h => score_quic_first a b h

/-! ## Happy-Eyeballs pass -/
theorem insertAt_perm (l : List Maddr) (i : Nat) (d : Maddr) : (insertAt l i d).Perm (l ++ [d]) := by
  unfold insertAt
  have h1 : (l.take i ++ d :: l.drop i).Perm (d :: (l.take i ++ l.drop i)) := List.perm_middle
  rw [List.take_append_drop] at h1
  exact h1.trans (List.perm_append_singleton d l).symm

theorem heStep_perm (s : HE) (d : Maddr) : (heStep s d).out.Perm (s.out ++ [d]) := by
  unfold heStep
  repeat' split
  all_goals first | exact insertAt_perm _ _ _ | exact List.Perm.refl _

theorem he_perm (l : List Maddr) (s : HE) : (l.foldl heStep s).out.Perm (s.out ++ l) := by
  induction l generalizing s with
  | nil => simp
  | cons d ds ih =>
    simp only [List.foldl_cons]
    refine (ih _).trans ?_
    have := (heStep_perm s d).append_right ds
    simpa using this

theorem QF_of_all (l : List Maddr) (h : ∀ x ∈ l, isQuic x = true) : QF l := by
  unfold QF
  induction l with
  | nil => simp
  | cons a r ih =>
    rw [List.pairwise_cons]
    exact ⟨fun b _ _ => h a (by simp), ih fun x hx => h x (by simp [hx])⟩

theorem QF_append_nonquic (x y : List Maddr) (hx : QF x) (hy : ∀ b ∈ y, isQuic b = false) :
    QF (x ++ y) := by
  unfold QF at *
  rw [List.pairwise_append]
  refine ⟨hx, ?_, ?_⟩
  · induction y with
    | nil => simp
    | cons a r ih =>
      rw [List.pairwise_cons]
      refine ⟨fun b hb hq => ?_, ih fun b hb => hy b (by simp [hb])⟩
      have := hy b (by simp [hb]); simp_all
  · intro a _ b hb hq
    have := hy b hb; simp_all

/-- invariant of the reorder loop -/
def HEInv (s : HE) : Prop :=
  QF s.out ∧ ∀ idx, s.firstTcp = some idx →
    (∃ x ∈ s.out, isQuic x = false) ∧ ∀ x ∈ s.out.drop (idx + 1), isQuic x = false

theorem mem_drop_take_append (l y : List Maddr) (n : Nat) (x : Maddr)
    (h : x ∈ (l.take n ++ y).drop n) : x ∈ y := by
  rw [List.drop_append] at h
  rcases List.mem_append.1 h with h | h
  · have : (List.take n l).drop n = [] := by
      apply List.drop_eq_nil_of_le; simp; omega
    simp [this] at h
  · exact List.mem_of_mem_drop h

theorem heStep_inv (s : HE) (d : Maddr) (hs : HEInv s)
    (hd : isQuic d = true → ∀ x ∈ s.out, isQuic x = true) : HEInv (heStep s d) := by
  obtain ⟨hqf, hft⟩ := hs
  by_cases hq : isQuic d = true
  · -- a QUIC dial: everything so far is QUIC, `firstTcp` is unset
    have hall := hd hq
    have hnone : s.firstTcp = none := by
      cases hf : s.firstTcp with
      | none => rfl
      | some idx =>
        obtain ⟨⟨x, hx, hxq⟩, _⟩ := hft idx hf
        have := hall x hx; simp_all
    unfold heStep
    simp only [hq, ↓reduceIte]
    split
    · refine ⟨QF_of_all _ ?_, ?_⟩
      · intro x hx
        rcases List.mem_append.1 ((insertAt_perm s.out 1 d).mem_iff.1 hx) with h | h
        · exact hall x h
        · simp at h; subst h; exact hq
      · intro idx h; simp [hnone] at h
    · refine ⟨QF_of_all _ ?_, ?_⟩
      · intro x hx
        rcases List.mem_append.1 hx with h | h
        · exact hall x h
        · simp at h; subst h; exact hq
      · intro idx h; simp [hnone] at h
  · have hq' : isQuic d = false := by simpa using hq
    unfold heStep
    simp only [hq', Bool.false_eq_true, ↓reduceIte]
    have push : ∀ s' : HE, s'.out = s.out ++ [d] → s'.firstTcp = s.firstTcp → HEInv s' := by
      intro s' ho hf
      refine ⟨?_, ?_⟩
      · rw [ho]; exact QF_append_nonquic _ _ hqf (by simp [hq'])
      · intro idx h
        rw [hf] at h
        obtain ⟨⟨x, hx, hxq⟩, hdrop⟩ := hft idx h
        refine ⟨⟨x, by simp [ho, hx], hxq⟩, ?_⟩
        intro y hy
        rw [ho, List.drop_append] at hy
        rcases List.mem_append.1 hy with h | h
        · exact hdrop y h
        · have := List.mem_of_mem_drop h; simp at this; subst this; exact hq'
    split
    · split
      · rename_i idx hidx
        split
        · -- insert at idx + 1
          obtain ⟨_, hdrop⟩ := hft idx hidx
          have hny : ∀ b ∈ d :: s.out.drop (idx + 1), isQuic b = false := by
            intro b hb
            rcases List.mem_cons.1 hb with rfl | hb
            · exact hq'
            · exact hdrop b hb
          refine ⟨?_, ?_⟩
          · show QF (insertAt s.out (idx + 1) d)
            unfold insertAt
            refine QF_append_nonquic _ _ ?_ hny
            exact hqf.sublist (List.take_sublist _ _)
          · intro idx' h
            have : idx' = idx := by simp_all
            subst this
            refine ⟨⟨d, ?_, hq'⟩, ?_⟩
            · show d ∈ insertAt s.out (idx' + 1) d
              simp [insertAt]
            · intro y hy
              exact hny y (mem_drop_take_append _ _ _ _ hy)
        · exact push _ rfl rfl
      · rename_i hnone
        refine ⟨?_, ?_⟩
        · exact QF_append_nonquic _ _ hqf (by simp [hq'])
        · intro idx h
          have : idx = s.out.length := by simp_all
          subst this
          refine ⟨⟨d, by simp, hq'⟩, ?_⟩
          intro y hy
          simp at hy
    · exact push _ rfl rfl

theorem he_inv (l : List Maddr) (s : HE) (hs : HEInv s) (hl : QF l)
    (hd : ∀ d ∈ l, isQuic d = true → ∀ x ∈ s.out, isQuic x = true) :
    HEInv (l.foldl heStep s) := by
  induction l generalizing s with
  | nil => exact hs
  | cons d ds ih =>
    simp only [List.foldl_cons]
    have hl' := List.pairwise_cons.1 hl
    refine ih _ (heStep_inv s d hs (hd d (by simp))) hl'.2 ?_
    intro d' hd' hq x hx
    rcases List.mem_append.1 ((heStep_perm s d).mem_iff.1 hx) with h | h
    · exact hd d' (by simp [hd']) hq x h
    · simp at h; subst h; exact hl'.1 d' hd' hq

theorem he_QF (l : List Maddr) : QF ((sortByKey score l).foldl heStep {}).out := by
  refine (he_inv _ {} ?_ (sorted_QF l) ?_).1
  · exact ⟨by simp [QF], by intro idx h; simp at h⟩
  · intro d _ _ x hx; simp at hx

/-! ## delay pass -/
theorem assign_snd (qHe tHe : Bool) (td qd od off : Nat) (s : AS) (l : List Maddr) :
    (assign qHe tHe td qd od off s l).map (·.2) = l := by
  induction l generalizing s with
  | nil => rfl
  | cons d ds ih => simp [assign, ih]

theorem stagger_le (c : Nat) (he : Bool) (d : Nat) : stagger c he d ≤ 2 * d := by
  unfold stagger; repeat' split
  all_goals omega

theorem stagger_mono (c : Nat) (he : Bool) (d : Nat) : stagger c he d ≤ stagger (c + 1) he d := by
  unfold stagger
  match c with
  | 0 => simp
  | 1 => simp; split <;> omega
  | n + 2 => simp

/-- bound invariant of the delay loop -/
def ASB (td qd : Nat) (s : AS) : Prop := s.tcpStart ≤ 2 * qd + td ∧ s.base ≤ 2 * qd + 3 * td

theorem assign_bound (qHe tHe : Bool) (td qd od off : Nat) (s : AS) (l : List Maddr)
    (hs : ASB td qd s) :
    ∀ x ∈ assign qHe tHe td qd od off s l, x.1 ≤ off + (2 * qd + 3 * td + od) := by
  induction l generalizing s with
  | nil => simp [assign]
  | cons d ds ih =>
    obtain ⟨h1, h2⟩ := hs
    have hq := stagger_le s.qc qHe qd
    have ht := stagger_le s.tc tHe td
    intro x hx
    simp only [assign, List.mem_cons] at hx
    rcases hx with rfl | hx
    · simp only [assignStep]
      repeat' split
      all_goals simp only; omega
    · refine ih _ ?_ x hx
      simp only [assignStep]
      repeat' split
      all_goals (simp only [ASB]; omega)

/-- monotonicity invariant: every later TCP start is at least the current one -/
def ASM (qHe : Bool) (td qd : Nat) (s : AS) : Prop := s.tcpStart ≤ stagger s.qc qHe qd + td

theorem assign_tcp_ge (qHe tHe : Bool) (td qd od off : Nat) (s : AS) (l : List Maddr)
    (hs : ASM qHe td qd s) :
    ∀ x ∈ assign qHe tHe td qd od off s l, isQuic x.2 = false → isTcp x.2 = true →
      off + s.tcpStart ≤ x.1 := by
  induction l generalizing s with
  | nil => simp [assign]
  | cons d ds ih =>
    intro x hx hxq hxt
    simp only [assign, List.mem_cons] at hx
    rcases hx with rfl | hx
    · simp only [assignStep, hxq, hxt, Bool.false_eq_true, ↓reduceIte]; omega
    · have hm := stagger_mono s.qc qHe qd
      unfold ASM at hs
      by_cases hq : isQuic d = true
      · have := ih { s with qc := s.qc + 1, tcpStart := stagger s.qc qHe qd + td, base := stagger s.qc qHe qd }
          (by simp only [ASM]; omega) x (by simpa [assignStep, hq] using hx) hxq hxt
        simp only at this; omega
      · by_cases ht : isTcp d = true
        · have := ih { s with tc := s.tc + 1, base := stagger s.tc tHe td + s.tcpStart }
            (by simp only [ASM]; omega) x (by simpa [assignStep, hq, ht] using hx) hxq hxt
          simpa using this
        · exact ih s hs x (by simpa [assignStep, hq, ht] using hx) hxq hxt

theorem assign_quic_le_tcp (qHe tHe : Bool) (td qd od off : Nat) (s : AS) (l : List Maddr)
    (hs : ASM qHe td qd s) (hl : QF l) :
    ∀ q ∈ assign qHe tHe td qd od off s l, ∀ t ∈ assign qHe tHe td qd od off s l,
      isQuic q.2 = true → isQuic t.2 = false → isTcp t.2 = true → q.1 ≤ t.1 := by
  induction l generalizing s with
  | nil => simp [assign]
  | cons d ds ih =>
    have hl' := List.pairwise_cons.1 hl
    have hm := stagger_mono s.qc qHe qd
    intro q hq t ht hqq htq htt
    simp only [assign, List.mem_cons] at hq ht
    have tail_mem : ∀ x ∈ assign qHe tHe td qd od off (assignStep qHe tHe td qd od s d).1 ds, x.2 ∈ ds := by
      intro x hx
      have := assign_snd qHe tHe td qd od off (assignStep qHe tHe td qd od s d).1 ds
      rw [← this]; exact List.mem_map_of_mem hx
    have hs' : ASM qHe td qd (assignStep qHe tHe td qd od s d).1 := by
      unfold ASM at *
      simp only [assignStep]
      repeat' split
      all_goals simp only; omega
    rcases hq with rfl | hq
    · rcases ht with rfl | ht
      · simp_all
      · -- head is QUIC, t in the tail
        have := assign_tcp_ge qHe tHe td qd od off _ ds hs' t ht htq htt
        simp only [assignStep, hqq, ↓reduceIte] at this ⊢
        omega
    · rcases ht with rfl | ht
      · -- head is not QUIC but a QUIC address follows: impossible
        have := hl'.1 q.2 (tail_mem q hq) hqq
        simp_all
      · exact ih _ hs' hl'.2 q hq t ht hqq htq htt

end C09
