import Libp2pModel.Model.C20
/-!
# C20 — proofs that need no Mathlib: varint readers, PeerId byte encoding, key protobuf messages
-/
namespace C20

theorem pow7 (i : Nat) : 2 ^ (7 * (i + 1)) = 128 * 2 ^ (7 * i) := by
  rw [Nat.mul_add, Nat.pow_add]; simp [Nat.mul_comm]

/-- what an accepted `read_u64` has consumed: the canonical encoding of some `n` (before the
64-bit truncation), `k` bytes long. -/
theorem readU64Aux_ok (bs : List Nat) (hb : ∀ b ∈ bs, b < 256) :
    ∀ (f i acc v : Nat) (rest : List Nat), readU64Aux f i acc bs = .ok (v, rest) →
      ∃ n k, 1 ≤ k ∧ k ≤ f ∧ n < 128 ^ k ∧ (i > 0 → n ≠ 0) ∧ (Varint.encode n).length = k ∧ bs = Varint.encode n ++ rest ∧
        v = (acc + n * 2 ^ (7 * i)) % 2 ^ 64 := by
  induction bs with
  | nil => intro f i acc v rest h; cases f <;> simp [readU64Aux] at h
  | cons b t ih =>
    intro f i acc v rest h
    cases f with
    | zero => simp [readU64Aux] at h
    | succ f =>
      simp only [readU64Aux] at h
      have hb256 : b < 256 := hb b (by simp)
      split at h
      · rename_i hlt
        split at h
        · simp at h
        · rename_i hz
          simp only [Except.ok.injEq, Prod.mk.injEq] at h
          refine ⟨b, 1, by omega, by omega, by simpa using hlt, ?_, ?_, ?_, ?_⟩
          · intro hi hb0; subst hb0; simp [hi] at hz
          · unfold Varint.encode; simp [hlt]
          · rw [← h.2]; unfold Varint.encode; simp [hlt]
          · rw [← h.1, Nat.mod_eq_of_lt hlt]
      · rename_i hge
        obtain ⟨n, k, hk1, hkf, hn, hnz, hlen, henc, hv⟩ := ih (fun x hx => hb x (by simp [hx])) f (i + 1) _ v rest h
        have hn0 : n ≠ 0 := hnz (by omega)
        have hge' : ¬ ((b - 128) + 128 * n < 128) := by omega
        have e1 : (b - 128 + 128 * n) % 128 + 128 = b := by omega
        have e2 : (b - 128 + 128 * n) / 128 = n := by omega
        refine ⟨(b - 128) + 128 * n, k + 1, by omega, by omega, ?_, by omega, ?_, ?_, ?_⟩
        · rw [Nat.pow_succ]; omega
        · rw [Varint.encode]; simp only [hge', ↓reduceDIte, List.length_cons, e2, hlen]
        · rw [Varint.encode]; simp only [hge', ↓reduceDIte]
          rw [e1, e2, henc]; rfl
        · rw [hv, pow7]
          have : b % 128 = b - 128 := by omega
          rw [this]
          congr 1
          generalize 2 ^ (7 * i) = X
          have e3 : n * (128 * X) = 128 * n * X := by rw [Nat.mul_left_comm, Nat.mul_assoc]
          rw [e3, Nat.add_mul, Nat.add_assoc]

theorem readU64_ok (bs : List Nat) (hb : ∀ b ∈ bs, b < 256) (v : Nat) (rest : List Nat)
    (h : readU64 bs = .ok (v, rest)) :
    v < 2 ^ 64 ∧ (bs = Varint.encode v ++ rest ∨ bs.length = 10 + rest.length) := by
  obtain ⟨n, k, hk1, hkf, hn, _, hlen, henc, hv⟩ := readU64Aux_ok bs hb 10 0 0 v rest h
  simp at hv
  refine ⟨by omega, ?_⟩
  by_cases hk : k = 10
  · right
    have hl := congrArg List.length henc
    simp only [List.length_append] at hl
    omega
  · left
    have : n < 2 ^ 64 := by
      have : k ≤ 9 := by omega
      calc n < 128 ^ k := hn
        _ ≤ 128 ^ 9 := Nat.pow_le_pow_right (by decide) this
        _ ≤ 2 ^ 64 := by decide
    rw [hv, Nat.mod_eq_of_lt this]; exact henc

theorem encode_small (c : Nat) (h : c < 128) : Varint.encode c = [c] := by
  unfold Varint.encode; simp [h]

theorem readU64_small (c : Nat) (h : c < 128) (rest : List Nat) : readU64 (c :: rest) = .ok (c, rest) := by
  have : c % 128 = c := Nat.mod_eq_of_lt h
  have h2 : c % 2 ^ 64 = c := Nat.mod_eq_of_lt (by omega)
  simp [readU64, readU64Aux, h, this, h2]

theorem valid_cases (p : Mh) (h : validPeerId p = true) :
    (p.code = 0x12 ∧ p.digest.length ≤ 64) ∨ (p.code = 0 ∧ p.digest.length ≤ 42) := by
  simpa [validPeerId, SHA256, IDENTITY] using h

theorem toBytes_valid (p : Mh) (h : validPeerId p = true) :
    toBytes p = p.code :: p.digest.length :: p.digest := by
  rcases valid_cases p h with ⟨hc, hl⟩ | ⟨hc, hl⟩ <;>
    simp [toBytes, mhToBytes, hc, encode_small, show p.digest.length < 128 by omega]

/-- **byte round trip**: every valid peer id is recovered from its byte encoding. -/
theorem peerid_bytes_roundtrip (p : Mh) (h : validPeerId p = true) : fromBytes (toBytes p) = .ok p := by
  rw [toBytes_valid p h]
  rcases valid_cases p h with ⟨hc, hl⟩ | ⟨hc, hl⟩
  · have h1 := readU64_small p.code (by omega) (p.digest.length :: p.digest)
    have h2 := readU64_small p.digest.length (by omega) p.digest
    simp only [fromBytes, mhFromBytes, h1, h2]
    have : ¬ p.digest.length > 64 := by omega
    simp [this, fromMultihash, hc, SHA256]
    cases p; simp_all
  · have h1 := readU64_small p.code (by omega) (p.digest.length :: p.digest)
    have h2 := readU64_small p.digest.length (by omega) p.digest
    simp only [fromBytes, mhFromBytes, h1, h2]
    have : ¬ p.digest.length > 64 := by omega
    simp [this, fromMultihash, hc, SHA256, IDENTITY, MAX_INLINE_KEY_LENGTH, hl]
    cases p; simp_all

/-- shape of everything `Multihash::from_bytes` accepts -/
theorem mhFromBytes_ok (bs : List Nat) (m : Mh) (h : mhFromBytes bs = .ok m) :
    ∃ r1 size, readU64 bs = .ok (m.code, r1) ∧ readU64 r1 = .ok (size, m.digest) ∧
      size = m.digest.length ∧ size ≤ 64 := by
  unfold mhFromBytes at h
  split at h
  · simp at h
  · rename_i code r1 h1
    split at h
    · simp at h
    · rename_i size r2 h2
      split at h
      · simp at h
      · split at h
        · simp at h
        · split at h
          · simp at h
          · simp only [Except.ok.injEq] at h
            subst h
            exact ⟨r1, size, h1, h2, by simp; omega, by omega⟩

/-- **accepts only**: whatever `from_bytes` accepts is an identity multihash of at most 42 bytes
or a SHA2-256 multihash (digest at most 64 bytes). -/
theorem peerid_accepts_only (bs : List Nat) (p : Mh) (h : fromBytes bs = .ok p) : validPeerId p = true := by
  unfold fromBytes at h
  split at h
  · simp at h
  · rename_i m hm
    obtain ⟨r1, size, _, _, hs, hle⟩ := mhFromBytes_ok bs m hm
    unfold fromMultihash at h
    split at h
    · simp only [Except.ok.injEq] at h; subst h
      simp [validPeerId, *]; omega
    · split at h
      · rename_i hc
        simp only [Except.ok.injEq] at h; subst h
        simp [validPeerId, hc.1, IDENTITY]; right; exact hc.2
      · simp at h

/-- **accepts exactly the canonical encoding**, except for inputs that carry a 10-byte varint
(the `unsigned-varint` crate drops the bits above 2⁶⁴ of such an encoding instead of rejecting it). -/
theorem peerid_accepts_canonical (bs : List Nat) (hb : ∀ b ∈ bs, b < 256) (p : Mh)
    (h : fromBytes bs = .ok p) : bs = toBytes p ∨ bs.length ≥ p.digest.length + 11 := by
  have hv := peerid_accepts_only bs p h
  unfold fromBytes at h
  split at h
  · simp at h
  · rename_i m hm
    have hmp : m = p := by
      unfold fromMultihash at h
      split at h
      · simpa using h
      · split at h
        · simpa using h
        · simp at h
    subst hmp
    obtain ⟨r1, size, h1, h2, hs, hle⟩ := mhFromBytes_ok bs m hm
    obtain ⟨_, c1⟩ := readU64_ok bs hb _ _ h1
    have hb1 : ∀ b ∈ r1, b < 256 := by
      rcases c1 with c1 | c1
      · intro b hbm; apply hb; rw [c1]; simp [hbm]
      · intro b hbm
        obtain ⟨n, k, _, _, _, _, _, henc, _⟩ := readU64Aux_ok bs hb 10 0 0 _ _ h1
        apply hb; rw [henc]; simp [hbm]
    obtain ⟨_, c2⟩ := readU64_ok r1 hb1 _ _ h2
    have l1 : bs.length ≥ 1 + r1.length := by
      obtain ⟨n, k, hk, _, _, _, hlen, henc, _⟩ := readU64Aux_ok bs hb 10 0 0 _ _ h1
      have := congrArg List.length henc; simp at this; omega
    have l2 : r1.length ≥ 1 + m.digest.length := by
      obtain ⟨n, k, hk, _, _, _, hlen, henc, _⟩ := readU64Aux_ok r1 hb1 10 0 0 _ _ h2
      have := congrArg List.length henc; simp at this; omega
    rcases c1 with c1 | c1
    · rcases c2 with c2 | c2
      · left; rw [c1, c2, hs]; simp [toBytes, mhToBytes]
      · right; omega
    · right; omega

/-- **inline threshold**: the peer id of a key is the identity multihash of the key's protobuf
encoding exactly when that encoding is at most 42 bytes, and the SHA2-256 multihash otherwise. -/
theorem inline_threshold (sha : List Nat → List Nat) (enc : List Nat) :
    (enc.length ≤ 42 → fromPublicKey sha enc = ⟨0, enc⟩) ∧
    (42 < enc.length → fromPublicKey sha enc = ⟨0x12, sha enc⟩) := by
  unfold fromPublicKey MAX_INLINE_KEY_LENGTH IDENTITY SHA256
  constructor <;> intro h
  · simp [h]
  · have : ¬ enc.length ≤ 42 := by omega
    simp [this]

/-- the derived peer id is always a valid one (so it round-trips through bytes and base58) -/
theorem fromPublicKey_valid (sha : List Nat → List Nat) (hsha : ∀ x, (sha x).length = 32) (enc : List Nat) :
    validPeerId (fromPublicKey sha enc) = true := by
  unfold fromPublicKey validPeerId MAX_INLINE_KEY_LENGTH IDENTITY SHA256
  by_cases h : enc.length ≤ 42 <;> simp [h, hsha]


theorem pow7' (i : Nat) : 2 ^ (7 * (i + 1)) = 128 * 2 ^ (7 * i) := by
  rw [Nat.mul_add, Nat.pow_add]; simp [Nat.mul_comm]

theorem pvAux_encode (n : Nat) : ∀ (k f i acc : Nat) (rest : List Nat), 1 ≤ k → n < 128 ^ k → k ≤ f → i + k ≤ 10 →
    (i + k = 10 → n < 2 * 128 ^ (k - 1)) →
    pvAux f i acc (Varint.encode n ++ rest) = some (acc + n * 2 ^ (7 * i), rest) := by
  fun_induction Varint.encode n with
  | case1 n h =>
    intro k f i acc rest hk1 hn hk hik h10
    obtain ⟨f, rfl⟩ : ∃ f', f = f' + 1 := ⟨f - 1, by omega⟩
    have hm : n % 128 = n := Nat.mod_eq_of_lt h
    have : ¬ ((i == 9) = true ∧ n ≥ 2) := by
      rintro ⟨h9, h2⟩
      have : i = 9 := by simpa using h9
      have hk' : k = 1 := by omega
      have := h10 (by omega)
      subst hk'; simp at this; omega
    simp only [List.cons_append, List.nil_append, pvAux, h, ↓reduceIte, hm]
    simp only [Bool.and_eq_true, decide_eq_true_eq, beq_iff_eq, ite_eq_right_iff, reduceCtorEq, imp_false, not_and] at this ⊢
    exact this
  | case2 n h ih =>
    intro k f i acc rest _ hn hk hik h10
    have hk2 : 2 ≤ k := by
      rcases k with _ | _ | k
      · simp at hn; omega
      · simp at hn; omega
      · omega
    obtain ⟨f, rfl⟩ : ∃ f', f = f' + 1 := ⟨f - 1, by omega⟩
    have hb : ¬ (n % 128 + 128 < 128) := by omega
    have hm : (n % 128 + 128) % 128 = n % 128 := by omega
    simp only [List.cons_append, pvAux, hb, ↓reduceIte, hm]
    have hn' : n / 128 < 128 ^ (k - 1) := by
      rw [Nat.div_lt_iff_lt_mul (by omega)]
      have : 128 ^ k = 128 ^ (k - 1) * 128 := by rw [← Nat.pow_succ]; congr 1; omega
      omega
    rw [ih (k - 1) f (i + 1) _ rest (by omega) hn' (by omega) (by omega) ?_]
    · congr 1; rw [pow7']
      generalize 2 ^ (7 * i) = X
      have e3 : n / 128 * (128 * X) = 128 * (n / 128) * X := by rw [Nat.mul_left_comm, Nat.mul_assoc]
      have e4 : n % 128 + 128 * (n / 128) = n := by omega
      rw [e3, Nat.add_assoc, ← Nat.add_mul, e4]
    · intro h10'
      have := h10 (by omega)
      have e : 128 ^ (k - 1) = 128 ^ (k - 1 - 1) * 128 := by rw [← Nat.pow_succ]; congr 1; omega
      rw [e] at this
      rw [Nat.div_lt_iff_lt_mul (by omega)]; omega

theorem pv_encode (n : Nat) (h : n < 2 ^ 64) (rest : List Nat) : pv (Varint.encode n ++ rest) = some (n, rest) := by
  have := pvAux_encode n 10 10 0 0 rest (by omega) (by omega) (by omega) (by omega) (by intro _; simpa using h)
  simpa [pv] using this

theorem encode_small' (c : Nat) (h : c < 128) : Varint.encode c = [c] := by
  unfold Varint.encode; simp [h]

/-- **key protobuf round trip** (message level): decoding the encoding of `{type, data}` gives
back exactly the type and the data bytes, for every key type and every data length. -/
theorem keymsg_roundtrip (ty : Nat) (hty : ty < 4) (data : List Nat) (hl : data.length < 2 ^ 64) :
    decodeKeyMsg (encodeKeyMsg ty data) = some ⟨ty, data⟩ := by
  unfold decodeKeyMsg encodeKeyMsg
  rw [encode_small' ty (by omega)]
  have hlen : ([0x08] ++ [ty] ++ [0x12] ++ Varint.encode data.length ++ data).length + 1 =
      ((Varint.encode data.length).length + data.length + 1) + 3 := by
    simp only [List.length_append, List.length_cons, List.length_nil]; omega
  rw [hlen]
  have k1 : decodeKey (8 :: ty :: (18 :: (Varint.encode data.length ++ data))) =
      some (1, 0, ty :: (18 :: (Varint.encode data.length ++ data))) := by
    simp [decodeKey, pv, pvAux]
  have k2 : decodeKey (18 :: (Varint.encode data.length ++ data)) =
      some (2, 2, Varint.encode data.length ++ data) := by
    simp [decodeKey, pv, pvAux]
  have v1 : pv (ty :: (18 :: (Varint.encode data.length ++ data))) =
      some (ty, 18 :: (Varint.encode data.length ++ data)) := by
    have : ty % 128 = ty := Nat.mod_eq_of_lt (by omega)
    simp [pv, pvAux, show ty < 128 by omega, this]
  have v2 := pv_encode data.length hl data
  have hty32 : ty % 2 ^ 32 = ty := Nat.mod_eq_of_lt (by omega)
  simp only [List.cons_append, List.nil_append, decodeMsg, List.isEmpty_cons,
    Bool.false_eq_true, ↓reduceIte, k1, k2, v1, v2, hty32]
  simp [decodeMsg]

/-- **key protobuf round trip** (API level): with a key-type parser that accepts the key's own
bytes, `try_decode_protobuf (encode_protobuf k) = Ok k`. -/
theorem key_proto_roundtrip (parse : Nat → List Nat → Option (List Nat)) (ty : Nat) (hty : ty < 4)
    (data : List Nat) (hl : data.length < 2 ^ 64) (hvalid : parse ty data = some data) :
    decodeKeyProto parse (encodeKeyMsg ty data) = .ok (ty, data) := by
  unfold decodeKeyProto
  rw [keymsg_roundtrip ty hty data hl]
  have : ¬ ty ≥ 4 := by omega
  simp [this, hvalid]

/-- **totality / error discipline**: on every input the decoder returns `Ok` of a key of one of
the four types whose bytes the key-type parser accepted, or one of three errors — there is no
other outcome (no panic) in the model; the correspondence run checks the same of the code. -/
theorem decode_total (parse : Nat → List Nat → Option (List Nat)) (bs : List Nat) :
    (∃ ty canon data, decodeKeyProto parse bs = .ok (ty, canon) ∧ ty < 4 ∧ parse ty data = some canon) ∨
    decodeKeyProto parse bs = .error .badProtobuf ∨ decodeKeyProto parse bs = .error .unknownKeyType ∨
    decodeKeyProto parse bs = .error .badKey := by
  unfold decodeKeyProto
  cases h : decodeKeyMsg bs with
  | none => simp
  | some m =>
    by_cases ht : m.ty ≥ 4
    · simp [ht]
    · cases hp : parse m.ty m.data with
      | none => simp [ht, hp]
      | some canon =>
        left
        exact ⟨m.ty, canon, m.data, by simp [ht, hp], by omega, hp⟩

end C20
