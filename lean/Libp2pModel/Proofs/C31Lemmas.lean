import Libp2pModel.Model.C31
/-!
# C31 — helper lemmas: the varint decoders on canonical encodings, one field, the field walk
-/
namespace C31

/-! ## unsigned-varint prefix -/

theorem len_succ_of_ge (n : Nat) (h : ¬ n < 128) : Varint.len n = 1 + Varint.len (n / 128) := by
  unfold Varint.len
  rw [Varint.encode]
  simp [h]; omega

theorem len_one_of_lt (n : Nat) (h : n < 128) : Varint.len n = 1 := by
  unfold Varint.len
  rw [Varint.encode]
  simp [h]

/-- the prefix decoder reads back a canonical encoding (no 10th byte involved) -/
theorem uv_encode (n : Nat) : ∀ (i : Nat) (rest : List Nat), (i > 0 → 0 < n) → i + Varint.len n ≤ 9 →
    uvDecode i (Varint.encode n ++ rest) = .ok n rest := by
  fun_induction Varint.encode n with
  | case1 n h =>
    intro i rest hpos hlen
    have h9 : i ≠ 9 := by have := len_one_of_lt n h; omega
    simp only [List.cons_append, List.nil_append, uvDecode, h, ↓reduceIte, h9]
    have : ¬ (n = 0 ∧ i > 0) := by intro ⟨h0, hi⟩; have := hpos hi; omega
    simp [this]
  | case2 n h ih =>
    intro i rest hpos hlen
    have hl := len_succ_of_ge n h
    have h9 : i ≠ 9 := by have := Varint.len_pos (n / 128); omega
    have hb : ¬ (n % 128 + 128 < 128) := by omega
    simp only [List.cons_append, uvDecode, hb, ↓reduceIte, h9]
    rw [ih (i + 1) rest (by intro _; omega) (by omega)]
    simp only
    congr 1
    omega

theorem uv_length (buf : List Nat) : ∀ (i n : Nat) (rem : List Nat), uvDecode i buf = .ok n rem →
    rem.length < buf.length := by
  induction buf with
  | nil => intro i n rem h; simp [uvDecode] at h
  | cons b rest ih =>
    intro i n rem h
    unfold uvDecode at h
    split at h
    · split at h
      · cases h
      · injection h with h1 h2; subst h2; simp
    · split at h
      · cases h
      · cases hr : uvDecode (i + 1) rest with
        | ok v r =>
          rw [hr] at h
          simp only at h
          injection h with h1 h2
          subst h2
          have := ih (i + 1) v r hr
          simp; omega
        | insufficient => rw [hr] at h; cases h
        | overflow => rw [hr] at h; cases h
        | notMinimal => rw [hr] at h; cases h

theorem uv_stable (buf : List Nat) : ∀ (i n : Nat) (rem x : List Nat), uvDecode i buf = .ok n rem →
    uvDecode i (buf ++ x) = .ok n (rem ++ x) := by
  induction buf with
  | nil => intro i n rem x h; simp [uvDecode] at h
  | cons b rest ih =>
    intro i n rem x h
    unfold uvDecode at h
    simp only [List.cons_append]
    unfold uvDecode
    split at h
    · rename_i hb
      simp only [hb, ↓reduceIte]
      split at h
      · cases h
      · rename_i hz
        simp only [hz, ↓reduceIte]
        injection h with h1 h2
        subst h1 h2
        rfl
    · rename_i hb
      simp only [hb, ↓reduceIte]
      split at h
      · cases h
      · rename_i h9
        simp only [h9, ↓reduceIte]
        cases hr : uvDecode (i + 1) rest with
        | ok v r =>
          rw [hr] at h
          simp only at h
          injection h with h1 h2
          subst h1 h2
          rw [ih (i + 1) v r x hr]
        | insufficient => rw [hr] at h; cases h
        | overflow => rw [hr] at h; cases h
        | notMinimal => rw [hr] at h; cases h

/-- a strict prefix of a canonical encoding is "insufficient" -/
theorem uv_prefix_insufficient (n : Nat) : ∀ (i : Nat) (p q : List Nat), Varint.encode n = p ++ q → q ≠ [] →
    i + Varint.len n ≤ 9 → uvDecode i p = .insufficient := by
  fun_induction Varint.encode n with
  | case1 n h =>
    intro i p q hpq hq _
    cases p with
    | nil => rfl
    | cons a p' =>
      simp only [List.cons_append, List.cons.injEq] at hpq
      have : p' ++ q = [] := hpq.2.symm
      simp at this
      exact absurd this.2 hq
  | case2 n h ih =>
    intro i p q hpq hq hlen
    have hl := len_succ_of_ge n h
    cases p with
    | nil => rfl
    | cons a p' =>
      simp only [List.cons_append, List.cons.injEq] at hpq
      obtain ⟨ha, hrest⟩ := hpq
      subst ha
      have hb : ¬ (n % 128 + 128 < 128) := by omega
      have h9 : i ≠ 9 := by have := Varint.len_pos (n / 128); omega
      simp only [uvDecode, hb, ↓reduceIte, h9]
      rw [ih (i + 1) p' q hrest hq (by omega)]

/-! ## prost varint -/

theorem pbAux_encode (k : Nat) : ∀ (n : Nat) (rest : List Nat), n < 2 * 128 ^ k →
    pbVarintAux (k + 1) (Varint.encode n ++ rest) = some (n, rest) := by
  induction k with
  | zero =>
    intro n rest h
    have hn : n < 128 := by simp at h; omega
    rw [Varint.encode]
    simp only [hn, ↓reduceDIte, List.cons_append, List.nil_append, pbVarintAux, ↓reduceIte]
    have : ¬ (True ∧ n ≥ 2) := by simp at h ⊢; omega
    simp at h
    simp; omega
  | succ k ih =>
    intro n rest h
    rw [Varint.encode]
    by_cases hn : n < 128
    · simp only [hn, ↓reduceDIte, List.cons_append, List.nil_append, pbVarintAux, ↓reduceIte]
      simp
    · have hb : ¬ (n % 128 + 128 < 128) := by omega
      simp only [hn, ↓reduceDIte, List.cons_append, pbVarintAux, hb, ↓reduceIte]
      have hdiv : n / 128 < 2 * 128 ^ k := by
        rw [Nat.div_lt_iff_lt_mul (by omega)]
        rw [Nat.pow_succ] at h
        omega
      rw [ih (n / 128) rest hdiv]
      simp only [Option.some.injEq, Prod.mk.injEq, and_true]
      omega

theorem pb_encode (n : Nat) (rest : List Nat) (h : n < 2 ^ 64) :
    pbVarint (Varint.encode n ++ rest) = some (n, rest) := by
  unfold pbVarint
  exact pbAux_encode 9 n rest (by
    have : (2 : Nat) * 128 ^ 9 = 2 ^ 64 := by decide
    omega)

/-! ## one length-delimited field -/

theorem decodeKey_len (tag : Nat) (rest : List Nat) (h1 : 1 ≤ tag) (h2 : tag < 536870912) :
    decodeKey (Varint.encode (tag * 8 + 2) ++ rest) = some (tag, .len, rest) := by
  unfold decodeKey
  rw [pb_encode _ _ (by omega)]
  simp only
  have hk : ¬ (tag * 8 + 2 > 4294967295) := by omega
  have hm : (tag * 8 + 2) % 8 = 2 := by omega
  have hd : (tag * 8 + 2) / 8 = tag := by omega
  simp only [hk, ↓reduceIte, hm, wtOf, hd]
  have : ¬ tag < 1 := by omega
  simp [this]

theorem consume_len (tag : Nat) (payload rest : List Nat) (h : payload.length < 2 ^ 64) :
    consumeMessage .len tag (Varint.encode payload.length ++ payload ++ rest) = some rest := by
  unfold consumeMessage
  simp only [skipField]
  rw [List.append_assoc, pb_encode _ _ h]
  simp [adv]

theorem encField_ne_nil (f : Field) : encField f ≠ [] := by
  unfold encField
  have := Varint.encode_ne_nil (f.tag * 8 + 2)
  cases h : Varint.encode (f.tag * 8 + 2) with
  | nil => exact absurd h this
  | cons a l => simp

end C31
