import Libp2pModel.Model.C37_Mon
import Libp2pModel.Proofs.C37Spec
import Libp2pModel.Proofs.C37Tmo
/-!
# C37 — monitor proof, part A: association lists, frame lemmas of the bucket operations
-/
namespace C37

/-! ## association lists -/

theorem lookupA_cons {β} (a : Nat × β) (l : List (Nat × β)) (k' : Nat) :
    lookupA (a :: l) k' = if a.1 = k' then some a.2 else lookupA l k' := by
  unfold lookupA
  rw [List.find?_cons]
  by_cases h : a.1 = k'
  · simp [h]
  · have : (a.1 == k') = false := by simp [h]
    simp [this, h]

theorem lookupA_eraseA {β} (l : List (Nat × β)) (k k' : Nat) :
    lookupA (eraseA l k) k' = if k' = k then none else lookupA l k' := by
  induction l with
  | nil => simp [lookupA, eraseA]
  | cons a l ih =>
    by_cases hak : a.1 = k
    · have he : eraseA (a :: l) k = eraseA l k := by simp [eraseA, List.filter_cons, hak]
      rw [he, ih, lookupA_cons]
      by_cases hk : k' = k
      · simp [hk]
      · have : ¬ a.1 = k' := fun e => hk (by rw [← e, hak])
        simp [hk, this]
    · have he : eraseA (a :: l) k = a :: eraseA l k := by simp [eraseA, List.filter_cons, hak]
      rw [he, lookupA_cons, lookupA_cons, ih]
      by_cases hk : k' = k
      · subst hk
        simp [hak]
      · simp [hk]

theorem lookupA_setA {β} (l : List (Nat × β)) (k k' : Nat) (v : β) :
    lookupA (setA l k v) k' = if k' = k then some v else lookupA l k' := by
  by_cases h : k' = k
  · subst h; simp [lookupA, setA]
  · have hne : ¬ k = k' := fun e => h e.symm
    have : lookupA (setA l k v) k' = lookupA (eraseA l k) k' := by
      simp [lookupA, setA, hne]
    rw [this, lookupA_eraseA]
    simp [h]

theorem filterMap_congr' {α β} (l : List α) (f g : α → Option β) (h : ∀ a ∈ l, f a = g a) :
    l.filterMap f = l.filterMap g := by
  induction l with
  | nil => rfl
  | cons a l ih =>
    simp only [List.filterMap_cons]
    rw [h a (by simp), ih fun x hx => h x (by simp [hx])]

/-! ## frame lemmas -/

theorem eraseIdx_perm {α} : ∀ (l : List α) (pos : Nat) (x : α), l[pos]? = some x → l.Perm (x :: l.eraseIdx pos)
  | [], _, _, h => by simp at h
  | a :: l, 0, x, h => by
    simp only [List.getElem?_cons_zero, Option.some.injEq] at h
    subst h; simp
  | a :: l, pos + 1, x, h => by
    simp only [List.getElem?_cons_succ] at h
    simp only [List.eraseIdx_cons_succ]
    exact ((eraseIdx_perm l pos x h).cons a).trans (List.Perm.swap x a _)

/-- `insert` into a bucket with room: the node list gains exactly the node; nothing else changes -/
theorem insert_frame {l i B : Nat} {b : Bucket} (h : BInv l i B b) (node : Node) (st : Status) (now : Nat)
    (hroom : b.nodes.length < b.capacity) :
    (b.insert node st now).1.nodes.Perm (node :: b.nodes) ∧ (b.insert node st now).1.pending = b.pending := by
  obtain ⟨D, C, hsp⟩ := h.split
  have hnf : ¬ b.capacity ≤ b.nodes.length := by omega
  unfold Bucket.insert
  cases st with
  | connected =>
    simp only [hnf, if_false]
    constructor
    · exact List.perm_append_singleton _ _
    · first | rfl | trivial
  | disconnected =>
    simp only [hnf, if_false]
    cases hfc : b.firstConn with
    | some p =>
      obtain ⟨hpD, _, hlt⟩ := firstConn_lt hsp p hfc
      have hple : p ≤ b.nodes.length := by omega
      simp only [hple, if_true]
      constructor
      · rw [hsp.nodes, hpD, insertIdx_append_length]
        exact List.perm_middle
      · first | rfl | trivial
    | none =>
      simp only
      constructor
      · exact List.perm_append_singleton _ _
      · first | rfl | trivial

/-- a `Full` result leaves the bucket untouched -/
theorem insert_full_eq {l i B : Nat} {b : Bucket} (h : BInv l i B b) (node : Node) (st : Status) (now : Nat)
    (hr : (b.insert node st now).2 = .full) : (b.insert node st now).1 = b := by
  have hne : b.capacity ≤ b.nodes.length → b.nodes ≠ [] := by
    intro hfull e
    have := h.capPos
    rw [e] at hfull
    simp at hfull
    omega
  obtain ⟨D, C, hsp⟩ := h.split
  unfold Bucket.insert at hr ⊢
  cases st with
  | disconnected =>
    simp only at hr ⊢
    by_cases hfull : b.capacity ≤ b.nodes.length
    · simp only [hfull, if_true]
    · simp only [hfull, if_false] at hr
      split at hr
      · split at hr <;> cases hr
      · cases hr
  | connected =>
    simp only at hr ⊢
    by_cases hfull : b.capacity ≤ b.nodes.length
    · simp only [hfull, if_true] at hr ⊢
      by_cases hc : b.firstConn = some 0 ∨ b.pending.isSome = true
      · simp only [hc, if_true]
      · simp only [hc, if_false] at hr
        obtain ⟨n0, rest, hnodes⟩ := List.exists_cons_of_ne_nil (hne hfull)
        rw [hnodes] at hr
        cases hr
    · simp only [hfull, if_false] at hr
      cases hr

/-- what `update` of a present key does to the node list and the pending slot -/
theorem update_frame {l i B : Nat} {b : Bucket} (h : BInv l i B b) (key : Nat) (st : Status) (now tick : Nat)
    {pos : Nat} (hpos : b.position key = some pos) :
    (∀ n ∈ (b.update key st now tick).nodes,
      (n.key = key ∧ n.gst = st ∧ n.stamp = tick) ∨ (n ∈ b.nodes ∧ n.key ≠ key)) ∧
    ((b.update key st now tick).pending = none ∨ (b.update key st now tick).pending = b.pending) := by
  rcases remove_spec h key with ⟨hnone, _, _⟩ | ⟨b1, node, st0, pos', hrem, _, hr⟩
  · rw [hpos] at hnone; cases hnone
  · simp only [Bucket.update, hrem]
    have hb2 : BInv l i B (if pos' = 0 ∧ st = .connected then { b1 with pending := none } else b1) := by
      split
      · exact binv_clear_pending hr.inv
      · exact hr.inv
    have hnodes2 : (if pos' = 0 ∧ st = .connected then { b1 with pending := none } else b1).nodes = b1.nodes := by
      split <;> rfl
    have hcap2 : (if pos' = 0 ∧ st = .connected then { b1 with pending := none } else b1).capacity = b1.capacity := by
      split <;> rfl
    have hpend2 : (if pos' = 0 ∧ st = .connected then { b1 with pending := none } else b1).pending = none ∨
        (if pos' = 0 ∧ st = .connected then { b1 with pending := none } else b1).pending = b.pending := by
      split
      · exact Or.inl rfl
      · exact Or.inr hr.pending
    have hroom : (if pos' = 0 ∧ st = .connected then { b1 with pending := none } else b1).nodes.length <
        (if pos' = 0 ∧ st = .connected then { b1 with pending := none } else b1).capacity := by
      rw [hnodes2, hcap2, hr.cap]
      have := h.len
      have := hr.len
      omega
    have hins := insert_result_inserted hb2 { node with gst := st, stamp := tick } st now hroom
    have hfr := insert_frame hb2 { node with gst := st, stamp := tick } st now hroom
    revert hins hfr
    generalize (if pos' = 0 ∧ st = .connected then { b1 with pending := none } else b1).insert
      { node with gst := st, stamp := tick } st now = res
    intro hins hfr
    obtain ⟨b3, r⟩ := res
    simp only at hins hfr
    subst hins
    simp only
    constructor
    · intro n hn
      rcases List.mem_cons.1 (hfr.1.mem_iff.1 hn) with rfl | hn'
      · exact Or.inl ⟨hr.key_eq, rfl, rfl⟩
      · rw [hnodes2] at hn'
        refine Or.inr ⟨hr.sub n hn', ?_⟩
        intro e
        exact hr.gone (e ▸ List.mem_map.2 ⟨n, hn', rfl⟩)
    · rw [hfr.2]; exact hpend2

/-- after `remove`, the remaining nodes are old nodes with a different key -/
theorem remove_frame {l i B : Nat} {b b' : Bucket} {key : Nat} {node : Node} {st : Status} {pos : Nat}
    (hr : Removed l i B b b' key node st pos) : ∀ n ∈ b'.nodes, n ∈ b.nodes ∧ n.key ≠ key := by
  intro n hn
  refine ⟨hr.sub n hn, ?_⟩
  intro e
  exact hr.gone (e ▸ List.mem_map.2 ⟨n, hn, rfl⟩)

/-- a pending entry is created only by a `Connected` insert into a full bucket whose head is
disconnected; it becomes due exactly `pending_timeout` later, and the reported "disconnected" key is
the head of the bucket -/
theorem pending_created {l i B : Nat} {b : Bucket} (h : BInv l i B b) (node : Node) (st : Status) (now d : Nat)
    (hr : (b.insert node st now).2 = .pending d) :
    st = .connected ∧ b.capacity ≤ b.nodes.length ∧ b.pending = none ∧ b.status 0 = .disconnected ∧
    (b.nodes.head?.map (·.key)) = some d ∧
    (b.insert node st now).1.pending = some ⟨node, .connected, now + b.timeout⟩ ∧
    (b.insert node st now).1.nodes = b.nodes := by
  cases st with
  | disconnected =>
    exfalso
    unfold Bucket.insert at hr
    simp only at hr
    split at hr
    · cases hr
    · split at hr
      · split at hr <;> cases hr
      · cases hr
  | connected =>
    by_cases hfull : b.capacity ≤ b.nodes.length
    · by_cases hc : b.firstConn = some 0 ∨ b.pending.isSome = true
      · exfalso
        simp only [Bucket.insert, hfull, if_true, hc] at hr
        cases hr
      · have hc' := not_or.1 hc
        have hpn : b.pending = none := by
          cases hp : b.pending with
          | none => rfl
          | some p => exact absurd (by simp [hp]) hc'.2
        have hst : b.status 0 = .disconnected := by
          unfold Bucket.status
          cases hfc : b.firstConn with
          | none => rfl
          | some p =>
            have : p ≠ 0 := fun e => hc'.1 (by rw [hfc, e])
            have : ¬ p ≤ 0 := by omega
            simp only [this, if_false]
        have hne : b.nodes ≠ [] := by
          intro e
          have := h.capPos
          rw [e] at hfull
          simp at hfull
          omega
        obtain ⟨n0, rest, hnodes⟩ := List.exists_cons_of_ne_nil hne
        have hres : b.insert node .connected now =
            ({ b with pending := some ⟨node, .connected, now + b.timeout⟩ }, .pending n0.key) := by
          simp only [Bucket.insert, hfull, if_true, hc, if_false]
          rw [hnodes]
        rw [hres] at hr ⊢
        simp only [InsertResult.pending.injEq] at hr
        refine ⟨rfl, hfull, hpn, hst, ?_, rfl, rfl⟩
        rw [hnodes, ← hr]; rfl
    · exfalso
      simp only [Bucket.insert, hfull, if_false] at hr
      cases hr

/-! ## the structured dump -/

theorem mdump_toBD (i : Nat) (b : Bucket) : (b.mdump i).toBD = b.dump i := by
  unfold Bucket.mdump MBucket.toBD Bucket.dump
  simp only [Option.map_map]
  rfl

theorem mdump_map_toBD (t : Table) : t.mdump.map MBucket.toBD = t.dump := by
  unfold Table.mdump Table.dump
  rw [List.map_filterMap]
  apply filterMap_congr'
  intro i _
  by_cases hc : (t.bucket i).nodes.length > 0 ∨ (t.bucket i).pending.isSome = true
  · simp only [hc, if_true, Option.map_some, mdump_toBD]
  · simp only [hc, if_false, Option.map_none]

theorem mdumpEntry_some {t : Table} {i : Nat} {bd : MBucket}
    (h : (if (t.bucket i).nodes.length > 0 ∨ (t.bucket i).pending.isSome = true
      then some ((t.bucket i).mdump i) else none) = some bd) : bd = (t.bucket i).mdump i := by
  split at h
  · exact (Option.some.inj h).symm
  · cases h

theorem mem_mdump {t : Table} {bd : MBucket} (h : bd ∈ t.mdump) :
    ∃ i, i < 256 ∧ bd = (t.bucket i).mdump i := by
  unfold Table.mdump at h
  obtain ⟨i, hi, hbd⟩ := List.mem_filterMap.1 h
  simp only [List.mem_range, NUM_BUCKETS] at hi
  exact ⟨i, hi, mdumpEntry_some hbd⟩

theorem mdump_mem {t : Table} {i : Nat} (hi : i < 256) {p : PendingNode} (hp : (t.bucket i).pending = some p) :
    (t.bucket i).mdump i ∈ t.mdump := by
  unfold Table.mdump
  apply List.mem_filterMap.2
  refine ⟨i, by simp [NUM_BUCKETS, hi], ?_⟩
  simp [hp]

/-- in the dump of a table satisfying the invariant, the bucket holding the pending key `k` is found -/
theorem findPending_mdump {t : Table} (h : TInv t) {i : Nat} (hi : i < 256) {p : PendingNode}
    (hp : (t.bucket i).pending = some p) :
    findPending t.mdump p.node.key = some ((t.bucket i).mdump i) := by
  unfold findPending
  have hmem := mdump_mem hi hp
  cases hf : t.mdump.find? (fun b => match b.pending with
      | some q => q.1 == p.node.key
      | none => false) with
  | none =>
    rw [List.find?_eq_none] at hf
    have := hf _ hmem
    simp [Bucket.mdump, hp] at this
  | some bd =>
    have hbd := List.mem_of_find?_eq_some hf
    have hpred := List.find?_some hf
    obtain ⟨j, hj, rfl⟩ := mem_mdump hbd
    cases hq : (t.bucket j).pending with
    | none => simp [Bucket.mdump, hq] at hpred
    | some q =>
      simp only [Bucket.mdump, hq, Option.map_some, beq_iff_eq] at hpred
      have h1 := (h.buckets j hj).pendingIndex q hq
      have h2 := (h.buckets i hi).pendingIndex p hp
      rw [hpred, h2] at h1
      have : i = j := Option.some.inj h1
      subst this
      rfl

end C37
