import Libp2pModel.Model.C50
/-!
# C50 — lemmas about `filterValidAddrs`
-/
namespace C50

theorem mem_collect (f : Maddr → Option Maddr) :
    ∀ (l seen : List Maddr) (a : Maddr),
      a ∈ collect f seen l ↔ (a ∉ seen ∧ ∃ d ∈ l, f d = some a) := by
  intro l
  induction l with
  | nil => intro seen a; simp [collect]
  | cons d rest ih =>
    intro seen a
    unfold collect
    cases hf : f d with
    | none =>
      simp only [ih seen a, List.mem_cons, exists_eq_or_imp, hf]
      simp
    | some b =>
      simp only
      by_cases hb : seen.contains b = true
      · simp only [hb, ↓reduceIte, ih seen a, List.mem_cons, exists_eq_or_imp, hf, Option.some.injEq]
        constructor
        · rintro ⟨h1, h2⟩; exact ⟨h1, Or.inr h2⟩
        · rintro ⟨h1, h2 | h2⟩
          · subst h2; simp at hb; exact absurd hb h1
          · exact ⟨h1, h2⟩
      · simp only [hb, Bool.false_eq_true, ↓reduceIte, List.mem_cons, ih (b :: seen) a,
          exists_eq_or_imp, hf, Option.some.injEq, not_or]
        simp at hb
        constructor
        · rintro (h | ⟨⟨h1, h2⟩, h3⟩)
          · subst h; exact ⟨hb, Or.inl rfl⟩
          · exact ⟨h2, Or.inr h3⟩
        · rintro ⟨h1, h2 | h2⟩
          · exact Or.inl h2.symm
          · by_cases hab : a = b
            · exact Or.inl hab
            · exact Or.inr ⟨⟨hab, h1⟩, h2⟩

theorem nodup_collect (f : Maddr → Option Maddr) :
    ∀ (l seen : List Maddr), (collect f seen l).Nodup := by
  intro l
  induction l with
  | nil => intro seen; simp [collect]
  | cons d rest ih =>
    intro seen
    unfold collect
    cases hf : f d with
    | none => exact ih seen
    | some b =>
      simp only
      by_cases hb : seen.contains b = true
      · simp only [hb, ↓reduceIte]; exact ih seen
      · simp only [hb, Bool.false_eq_true, ↓reduceIte, List.nodup_cons]
        refine ⟨?_, ih _⟩
        intro hmem
        have := (mem_collect f rest (b :: seen) b).1 hmem
        simp at this

/-- what the `is_valid` check guarantees for one component -/
theorem validProto_imp (peer : Peer) (ip p : Proto) (h : validProto peer ip p = true) :
    (p.isIp = true → p = ip) ∧ p ≠ Proto.p2pCircuit ∧ (∀ q, p = Proto.p2p q → q = peer) := by
  cases p <;> simp_all [validProto, Proto.isIp] <;> (subst h; simp)

theorem nodupB_iff (l : List Maddr) : nodupB l = true ↔ l.Nodup := by
  induction l with
  | nil => simp [nodupB]
  | cons a t ih => simp [nodupB, ih]

theorem addrOk_iff (peer : Peer) (ip : Proto) (a : Maddr) :
    addrOk peer ip a = true ↔
      (∀ p ∈ a, p.isIp = true → p = ip) ∧ Proto.p2pCircuit ∉ a ∧ a.getLast? = some (Proto.p2p peer) := by
  unfold addrOk
  simp only [Bool.and_eq_true, List.all_eq_true, Bool.or_eq_true, Bool.not_eq_true', beq_iff_eq,
    List.contains_eq_mem, decide_eq_false_iff_not]
  constructor
  · rintro ⟨⟨h1, h2⟩, h3⟩
    refine ⟨?_, by simpa using h2, h3⟩
    intro p hp hip
    rcases h1 p hp with h | h
    · rw [hip] at h; cases h
    · exact h
  · rintro ⟨h1, h2, h3⟩
    refine ⟨⟨?_, by simpa using h2⟩, h3⟩
    intro p hp
    cases hip : p.isIp with
    | false => exact Or.inl rfl
    | true => exact Or.inr (h1 p hp hip)

theorem lastIsP2p_true (a : Maddr) (h : lastIsP2p a = true) : ∃ q, a.getLast? = some (Proto.p2p q) := by
  unfold lastIsP2p at h
  split at h
  · rename_i q hq; exact ⟨q, hq⟩
  · cases h

/-- Every address produced by the closure body satisfies the per-address property. -/
theorem rewriteOne_ok (peer : Peer) (ip : Proto) (d a : Maddr) (h : rewriteOne peer ip d = some a) :
    addrOk peer ip a = true := by
  unfold rewriteOne at h
  split at h
  · cases h
  · split at h
    · cases h
    · rename_i a' _
      by_cases hv : a'.all (validProto peer ip) = true
      · simp only [hv, Bool.not_true, Bool.false_eq_true, ↓reduceIte] at h
        have hall : ∀ p ∈ a', (p.isIp = true → p = ip) ∧ p ≠ Proto.p2pCircuit ∧
            (∀ q, p = Proto.p2p q → q = peer) := by
          intro p hp
          exact validProto_imp peer ip p (List.all_eq_true.1 hv p hp)
        rw [addrOk_iff]
        by_cases hl : lastIsP2p a' = true
        · simp only [hl, Bool.not_true, Bool.false_eq_true, ↓reduceIte, Option.some.injEq] at h
          subst h
          obtain ⟨q, hq⟩ := lastIsP2p_true a' hl
          have hmem : Proto.p2p q ∈ a' := List.mem_of_getLast? hq
          have hqp : q = peer := (hall _ hmem).2.2 q rfl
          refine ⟨fun p hp => (hall p hp).1, ?_, by rw [hq, hqp]⟩
          intro hc; exact (hall _ hc).2.1 rfl
        · simp only [hl, Bool.not_false, ↓reduceIte, Option.some.injEq] at h
          subst h
          refine ⟨?_, ?_, by simp⟩
          · intro p hp hip
            rcases List.mem_append.1 hp with hp | hp
            · exact (hall p hp).1 hip
            · simp at hp; subst hp; simp [Proto.isIp] at hip
          · intro hc
            rcases List.mem_append.1 hc with hc | hc
            · exact (hall _ hc).2.1 rfl
            · simp at hc
      · simp [hv] at h

/-- `position` + `replaceAt`: the component that gets replaced is the first IP component. -/
theorem position_replaceAt (q : Proto) :
    ∀ (a : Maddr) (i : Nat) (r : Maddr), position Proto.isIp a = some i → replaceAt a i q = some r →
      ∃ pre x post, a = pre ++ x :: post ∧ (∀ p ∈ pre, p.isIp = false) ∧ x.isIp = true ∧
        r = pre ++ q :: post := by
  intro a
  induction a with
  | nil => intro i r h; simp [position] at h
  | cons h t ih =>
    intro i r hp hr
    unfold position at hp
    by_cases hh : h.isIp = true
    · simp only [hh, ↓reduceIte, Option.some.injEq] at hp
      subst hp
      simp only [replaceAt, Option.some.injEq] at hr
      exact ⟨[], h, t, rfl, by simp, hh, by simp [hr]⟩
    · simp only [hh, Bool.false_eq_true, ↓reduceIte, Option.map_eq_some_iff] at hp
      obtain ⟨j, hj, rfl⟩ := hp
      simp only [replaceAt, Option.map_eq_some_iff] at hr
      obtain ⟨r', hr', rfl⟩ := hr
      obtain ⟨pre, x, post, rfl, h1, h2, rfl⟩ := ih j r' hj hr'
      refine ⟨h :: pre, x, post, rfl, ?_, h2, rfl⟩
      intro p hp
      rcases List.mem_cons.1 hp with rfl | hp
      · simpa using hh
      · exact h1 p hp

/-- Shape of a rewritten address: the demanded address with its first IP component replaced,
optionally followed by `/p2p/peer` — nothing else is changed. -/
theorem rewriteOne_shape (peer : Peer) (ip : Proto) (d a : Maddr) (h : rewriteOne peer ip d = some a) :
    ∃ pre x post, d = pre ++ x :: post ∧ (∀ p ∈ pre, p.isIp = false) ∧ x.isIp = true ∧
      (a = pre ++ ip :: post ∨ a = pre ++ ip :: post ++ [Proto.p2p peer]) := by
  unfold rewriteOne at h
  split at h
  · cases h
  · rename_i i hi
    split at h
    · cases h
    · rename_i a' ha'
      obtain ⟨pre, x, post, hd, h1, h2, hr⟩ := position_replaceAt ip d i a' hi ha'
      refine ⟨pre, x, post, hd, h1, h2, ?_⟩
      split at h
      · cases h
      · split at h
        · right; simp at h; rw [← h, hr]
        · left; simp at h; rw [← h, hr]

end C50
