import Libp2pModel.Proofs.C26Read
namespace C26
open C25 (Sid Role Frame)

theorem SubOk_new (c : Cfg) (b : Option Sid) (id : Sid) : SubOk c b { id := id, st := .opn, buf := [] } := by
  refine ⟨.inl (by simp), by simp, ⟨[], .inl rfl, by simp, by simp⟩⟩

/-- changing only the protocol state: `Reset` is absorbing and a half-closed write side stays closed -/
theorem SubOk_setSt {c : Cfg} {b : Option Sid} {x : Sub} (h : SubOk c b x) (st' : SS)
    (h1 : x.st = .reset → st' = .reset)
    (h2 : (x.st ≠ .opn ∧ x.st ≠ .recvClosed) → (st' ≠ .opn ∧ st' ≠ .recvClosed)) :
    SubOk c b { x with st := st' } := by
  obtain ⟨a1, a2, tail, a3, a4, a5⟩ := h
  refine ⟨?_, a2, tail, a3, a4, fun ht => h2 (a5 ht)⟩
  rcases a1 with a1 | ⟨a1, a1'⟩
  · exact .inl a1
  · right
    refine ⟨a1, ?_⟩
    by_cases hb : c.block
    · simpa [hb] using a1'
    · simp only [hb] at a1' ⊢
      simpa using h1 (by simpa using a1')

theorem Inv_onOpen {s : State} (hi : Inv s) (rid : Sid) :
    Inv (onOpen s rid).1 ∧ (onOpen s rid).1.cfg = s.cfg ∧ (onOpen s rid).1.blocking = s.blocking := by
  unfold onOpen
  simp only
  split
  · exact ⟨Inv_onError _ _, by simp [onError], by simp [onError]⟩
  · split
    · have hc := Inv_checkMaxPending hi
      rcases hcm : checkMaxPending s with ⟨s1, r⟩
      rw [hcm] at hc
      cases r with
      | error k =>
        refine ⟨hc.1, ?_, ?_⟩ <;>
        · unfold checkMaxPending at hcm
          split at hcm <;> simp at hcm
          rw [← hcm.1]; simp [onError]
      | ok u =>
        obtain ⟨h1, h2⟩ := hc
        obtain ⟨h2a, h2b⟩ := h2 rfl
        simp only at h2a; subst h2a
        exact ⟨Inv_push_pend hi h2b _, rfl, rfl⟩
    · rename_i hroom
      exact ⟨Inv_put_new hi (by omega) (SubOk_new _ _ _), rfl, rfl⟩

theorem Inv_onReset {s : State} (hi : Inv s) (id : Sid) :
    Inv (onReset s id) ∧ (onReset s id).cfg = s.cfg ∧ (onReset s id).blocking = s.blocking := by
  unfold onReset
  split
  · exact ⟨hi, rfl, rfl⟩
  · rename_i x hx
    have hg := Inv_get hi hx
    have hx' : s.get x.id = some x := by rw [hg.2]; exact hx
    split
    · exact ⟨Inv_put_present hi hx' hg.1, rfl, rfl⟩
    · exact ⟨Inv_put_present hi hx' hg.1, rfl, rfl⟩
    · refine ⟨Inv_put_present (x := { x with st := .reset }) hi hx' ?_, rfl, rfl⟩
      exact SubOk_setSt hg.1 .reset (fun _ => rfl) (fun _ => by simp)

theorem Inv_onClose {s : State} (hi : Inv s) (id : Sid) :
    Inv (onClose s id) ∧ (onClose s id).cfg = s.cfg ∧ (onClose s id).blocking = s.blocking := by
  unfold onClose
  split
  · exact ⟨hi, rfl, rfl⟩
  · rename_i x hx
    have hg := Inv_get hi hx
    have hx' : s.get x.id = some x := by rw [hg.2]; exact hx
    split
    · exact ⟨hi, rfl, rfl⟩
    · exact ⟨hi, rfl, rfl⟩
    · exact ⟨hi, rfl, rfl⟩
    · rename_i hst
      refine ⟨Inv_put_present (x := { x with st := .closed }) hi hx' ?_, rfl, rfl⟩
      exact SubOk_setSt hg.1 .closed (fun h => by rw [hst] at h; cases h) (fun _ => by simp)
    · rename_i hst
      refine ⟨Inv_put_present (x := { x with st := .recvClosed }) hi hx' ?_, rfl, rfl⟩
      exact SubOk_setSt hg.1 .recvClosed (fun h => by rw [hst] at h; cases h) (fun h => by rw [hst] at h; exact absurd rfl h.1)

end C26
