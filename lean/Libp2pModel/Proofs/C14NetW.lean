import Libp2pModel.Model.C14_NetW
import Libp2pModel.Proofs.C14NetLazy
/-!
# C14 helper: the network with write buffers refines the atomic-send network
-/
namespace C14
open Mss

/-- the bytes a decoded frame occupied are a frame by themselves -/
theorem frameDec_exact (X : Bytes) (f : Frame) (r : Bytes) (h : frameDec X = some (f, r)) :
    ∃ fb, X = fb ++ r ∧ frameDec fb = some (f, []) ∧ 0 < fb.length := by
  unfold frameDec at h
  split at h
  · simp at h
  · rename_i b0 r0
    split at h
    · rename_i hb0
      split at h
      · rename_i hge
        split at h
        · rename_i hle
          simp at h; obtain ⟨rfl, rfl⟩ := h
          refine ⟨b0 :: r0.take b0, by simp, ?_, by simp⟩
          have : b0 ≤ (r0.take b0).length := by simp; omega
          simp [frameDec, hb0, hge, List.take_take, Nat.min_eq_left hle]
        · simp at h
      · rename_i hge
        simp at h; obtain ⟨rfl, rfl⟩ := h
        exact ⟨[b0], by simp, by simp [frameDec, hb0, hge], by simp⟩
    · rename_i hb0
      split at h
      · simp at h
      · rename_i b1 r1
        split at h
        · rename_i hb1
          split at h
          · rename_i hz
            simp at h; obtain ⟨rfl, rfl⟩ := h
            exact ⟨[b0, b1], by simp, by simp [frameDec, hb0, hb1, hz], by simp⟩
          · rename_i hz
            simp only at h
            split at h
            · rename_i hle
              simp at h; obtain ⟨rfl, rfl⟩ := h
              refine ⟨b0 :: b1 :: r1.take (b0 % 128 ||| b1 <<< 7), by simp, ?_, by simp⟩
              have : (b0 % 128 ||| b1 <<< 7) ≤ (r1.take (b0 % 128 ||| b1 <<< 7)).length := by
                simp; omega
              simp [frameDec, hb0, hb1, hz, List.take_take, Nat.min_eq_left hle]
            · simp at h
        · rename_i hb1
          simp at h; obtain ⟨rfl, rfl⟩ := h
          exact ⟨[b0, b1], by simp, by simp [frameDec, hb0, hb1], by simp⟩

/-- the atomic poll that sees exactly one frame consumes exactly that frame -/
theorem pollBytes_one {σ : Type} (step : σ → RdEv → σ × List Msg) (isDone : σ → Bool)
    (s : σ) (fb tail : Bytes) (f : Frame) (closed : Bool) (hnd : isDone s = false)
    (hf : frameDec fb = some (f, [])) (hpos : 0 < fb.length) :
    pollBytes step isDone s (fb ++ tail) closed fb.length =
      ((step s (frameEvent f)).1, tail, (step s (frameEvent f)).2) := by
  unfold pollBytes
  have htake : (fb ++ tail).take fb.length = fb := List.take_left' rfl
  have hdrop : (fb ++ tail).drop fb.length = tail := List.drop_left' rfl
  have hnot : ¬ ((fb ++ tail).length < fb.length) := by simp
  obtain ⟨m, hm⟩ : ∃ m, fb.length = m + 1 := ⟨fb.length - 1, by omega⟩
  simp only [hnd, Bool.false_eq_true, ↓reduceIte, htake, hdrop, hnot, decide_false, Bool.and_false]
  rw [runBytes]
  simp only [hnd, Bool.false_eq_true, ↓reduceIte, hf]
  rw [hm, runBytes]
  split
  · simp
  · simp [frameDec]

/-- the atomic poll at EOF -/
theorem pollBytes_eof {σ : Type} (step : σ → RdEv → σ × List Msg) (isDone : σ → Bool)
    (s : σ) (inb : Bytes) (n : Nat) (hnd : isDone s = false) (hf : frameDec inb = none)
    (hn : inb.length < n) :
    pollBytes step isDone s inb true n = ((step s (eofEvent inb)).1, [], (step s (eofEvent inb)).2) := by
  unfold pollBytes
  have htake : inb.take n = inb := List.take_of_length_le (by omega)
  simp only [hnd, Bool.false_eq_true, ↓reduceIte, htake]
  rw [runBytes]
  simp [hnd, hf, hn]

/-! ### failing steps send nothing -/

theorem lSend_failed_out (m : Msg) (next : LSt) (h : lFailed (lSend m next).1 = true)
    (hn : lFailed next = false) : (lSend m next).2 = [] := by
  unfold lSend at h ⊢
  split
  · rename_i hs; simp [hs, hn] at h
  · rfl

theorem lStep_failed_out (ls : List Bytes) (s : LSt) (ev : RdEv)
    (h : lFailed (lStep ls s ev).1 = true) (hnd : lIsDone s = false) : (lStep ls s ev).2 = [] := by
  cases s with
  | done r => simp [lIsDone] at hnd
  | recvHeader =>
    cases ev with
    | panic w => simp [lStep]
    | eof => simp [lStep]
    | err e => simp [lStep]
    | msg m =>
      cases m with
      | header => exact lSend_failed_out _ _ (by simpa [lStep] using h) rfl
      | _ => simp [lStep]
  | recvMessage na =>
    cases ev with
    | panic w => simp [lStep]
    | eof => simp [lStep]
    | err e => simp only [lStep]; split <;> rfl
    | msg m =>
      cases m with
      | ls => exact lSend_failed_out _ _ (by simpa [lStep] using h) rfl
      | proto p =>
        simp only [lStep] at h ⊢
        split
        · rename_i hc; simp only [hc, ↓reduceIte] at h; exact lSend_failed_out _ _ h rfl
        · rename_i hc; simp only [hc, ↓reduceIte] at h; exact lSend_failed_out _ _ h rfl
      | _ => simp [lStep]

theorem dPropose_failed_out (lazy : Bool) (d : Bytes) (rest : List Bytes) (pending : List Msg)
    (h : dFailed (dPropose lazy d rest pending).1 = true) : (dPropose lazy d rest pending).2 = [] := by
  unfold dPropose at h ⊢
  split
  · rfl
  · split
    · rfl
    · split <;> simp_all [dFailed]

theorem dStart_failed_out (lazy : Bool) (ds : List Bytes) (h : dFailed (dStart lazy ds).1 = true) :
    (dStart lazy ds).2 = [] := by
  unfold dStart at h ⊢
  cases ds with
  | nil => rfl
  | cons d rest => exact dPropose_failed_out _ _ _ _ h

theorem dStep_failed_out (lazy : Bool) (s : DSt) (ev : RdEv)
    (h : dFailed (dStep lazy s ev).1 = true) (hnd : dIsDone s = false) : (dStep lazy s ev).2 = [] := by
  cases s with
  | done r => simp [dIsDone] at hnd
  | await cur rest =>
    cases ev with
    | panic w => simp [dStep]
    | eof => simp [dStep]
    | err e => simp [dStep]
    | msg m =>
      cases m with
      | header => simp [dStep]
      | proto p => simp only [dStep]; split <;> rfl
      | na =>
        simp only [dStep] at h ⊢
        cases rest with
        | nil => rfl
        | cons d r => exact dPropose_failed_out _ _ _ _ h
      | ls => simp [dStep]
      | protos ps => simp [dStep]
  | expecting cur hx =>
    cases ev with
    | panic w => simp [dStep]
    | eof => simp [dStep]
    | err e => simp [dStep]
    | msg m =>
      cases m with
      | header => cases hx <;> simp [dStep]
      | proto p => simp only [dStep]; split <;> rfl
      | na => simp [dStep]
      | ls => simp [dStep]
      | protos ps => simp [dStep]

theorem dFailed_not_expecting (s : DSt) (h : dFailed s = true) : isExpecting s = false := by
  cases s <;> simp_all [dFailed, isExpecting]

theorem lFailed_done (s : LSt) (h : lFailed s = true) : lIsDone s = true := by
  cases s <;> simp_all [lFailed, lIsDone]

theorem dFailed_done (s : DSt) (h : dFailed s = true) : dIsDone s = true := by
  cases s <;> simp_all [dFailed, dIsDone]

structure WInv (c : WCfg) : Prop where
  l : c.b.ld.closed = true → lIsDone c.b.l = true ∧ c.lW = []
  d : c.b.dl.closed = true → dIsDone c.b.d = true ∧ c.dW = []
  s : c.b.started = false → c.dW = [] ∧ c.b.dl.closed = false

theorem take_drop_nil (l : Bytes) (k : Nat) (h : (l.drop k).isEmpty = true) : l.take k = l := by
  have h' : l.drop k = [] := by simpa using h
  have := List.take_append_drop k l
  rw [h', List.append_nil] at this
  exact this

/-- a poll of the listener in the network with write buffers = at most one atomic poll -/
theorem wstepL_refines (P : Params) (A : Bytes) (k n : Nat) (c : WCfg) (hinv : WInv c) :
    (∃ bs : List BMove, wabs (wStepL P k n c) = bs.foldl (bstepA P A) (wabs c)) ∧
      WInv (wStepL P k n c) := by
  unfold wStepL
  by_cases hcond : (!(c.lW.drop k).isEmpty || lIsDone c.b.l) = true
  · -- only the flush
    simp only [hcond, ↓reduceIte]
    refine ⟨⟨[], ?_⟩, ?_⟩
    · simp [wabs, List.append_assoc]
    · exact {
        l := by
          intro h
          obtain ⟨h1, h2⟩ := hinv.l h
          exact ⟨h1, by simp [h2]⟩
        d := hinv.d
        s := hinv.s }
  · simp only [hcond, Bool.false_eq_true, ↓reduceIte]
    simp only [Bool.or_eq_true, Bool.not_eq_true', not_or, Bool.not_eq_false, Bool.not_eq_true] at hcond
    obtain ⟨hflushed, hnd⟩ := hcond
    have htk : c.lW.take k = c.lW := take_drop_nil _ _ hflushed
    have hncl : c.b.ld.closed = false := by
      cases hc : c.b.ld.closed with
      | false => rfl
      | true => have := (hinv.l hc).1; rw [hnd] at this; cases this
    unfold readOne
    cases hdec : frameDec (c.b.dl.bytes.take n) with
    | some p =>
      obtain ⟨f, rest⟩ := p
      obtain ⟨fb, hfb, hfbd, hpos⟩ := frameDec_exact _ _ _ hdec
      have hbytes : c.b.dl.bytes = fb ++ (rest ++ c.b.dl.bytes.drop n) := by
        have := List.take_append_drop n c.b.dl.bytes
        rw [hfb, List.append_assoc] at this
        exact this.symm
      have hone := pollBytes_one (lStep P.ls) lIsDone c.b.l fb (rest ++ c.b.dl.bytes.drop n ++ c.dW) f
        c.b.dl.closed hnd hfbd hpos
      refine ⟨⟨[.pollL fb.length], ?_⟩, ?_⟩
      · simp only [List.foldl_cons, List.foldl_nil, bstepA, bStepL, wabs, hnd, Bool.false_eq_true,
          ↓reduceIte]
        have hb2 : c.b.dl.bytes ++ c.dW = fb ++ (rest ++ c.b.dl.bytes.drop n ++ c.dW) := by
          conv => lhs; rw [hbytes]
          simp [List.append_assoc]
        rw [hb2, hone]
        simp [htk, List.append_assoc]
      · exact {
          l := by
            intro h
            simp only [hncl, Bool.false_or] at h
            exact ⟨lFailed_done _ h, by
              simp only
              rw [lStep_failed_out P.ls c.b.l _ h hnd]; rfl⟩
          d := hinv.d
          s := hinv.s }
    | none =>
      by_cases heof : (c.b.dl.closed && decide (c.b.dl.bytes.length < n)) = true
      · simp only [heof, ↓reduceIte]
        simp only [Bool.and_eq_true, decide_eq_true_eq] at heof
        obtain ⟨hcl, hlen⟩ := heof
        have hdW : c.dW = [] := (hinv.d hcl).2
        have hwhole : c.b.dl.bytes.take n = c.b.dl.bytes := List.take_of_length_le (by omega)
        rw [hwhole] at hdec
        have heofp := pollBytes_eof (lStep P.ls) lIsDone c.b.l c.b.dl.bytes n hnd hdec hlen
        refine ⟨⟨[.pollL n], ?_⟩, ?_⟩
        · simp only [List.foldl_cons, List.foldl_nil, bstepA, bStepL, wabs, hnd, Bool.false_eq_true,
            ↓reduceIte, hdW, List.append_nil, hcl, heofp]
          simp [htk, List.append_assoc]
        · exact {
            l := by
              intro h
              simp only [hncl, Bool.false_or] at h
              exact ⟨lFailed_done _ h, by
                simp only
                rw [lStep_failed_out P.ls c.b.l _ h hnd]; rfl⟩
            d := hinv.d
            s := hinv.s }
      · simp only [heof, Bool.false_eq_true, ↓reduceIte]
        have hnf := lFailed_of_not_done _ hnd
        refine ⟨⟨[], ?_⟩, ?_⟩
        · simp [wabs, htk, hnf, wireOfAll, hflushed]
        · exact {
            l := by
              intro h
              simp only [hncl, hnf, Bool.or_self] at h
              cases h
            d := hinv.d
            s := hinv.s }

/-- a poll of the dialer in the network with write buffers = at most one atomic poll -/
theorem wstepD_refines (P : Params) (A : Bytes) (k n : Nat) (c : WCfg) (hinv : WInv c) :
    (∃ bs : List BMove, wabs (wStepD P A k n c) = bs.foldl (bstepA P A) (wabs c)) ∧
      WInv (wStepD P A k n c) := by
  unfold wStepD
  by_cases hst : c.b.started = true
  · simp only [hst, Bool.not_true, Bool.false_eq_true, ↓reduceIte]
    by_cases hcond : (!(c.dW.drop k).isEmpty || dIsDone c.b.d) = true
    · simp only [hcond, ↓reduceIte]
      refine ⟨⟨[], ?_⟩, ?_⟩
      · simp [wabs, List.append_assoc, hst]
      · exact {
          l := hinv.l
          d := by
            intro h
            obtain ⟨h1, h2⟩ := hinv.d h
            exact ⟨h1, by simp [h2]⟩
          s := by intro h; simp [hst] at h }
    · simp only [hcond, Bool.false_eq_true, ↓reduceIte]
      simp only [Bool.or_eq_true, Bool.not_eq_true', not_or, Bool.not_eq_false, Bool.not_eq_true] at hcond
      obtain ⟨hflushed, hnd⟩ := hcond
      have htk : c.dW.take k = c.dW := take_drop_nil _ _ hflushed
      have hnds : dStop c.b.d c.b.d = false := by rw [dStop_self]; exact hnd
      have hncl : c.b.dl.closed = false := by
        cases hc : c.b.dl.closed with
        | false => rfl
        | true => have := (hinv.d hc).1; rw [hnd] at this; cases this
      unfold readOne
      cases hdec : frameDec (c.b.ld.bytes.take n) with
      | some p =>
        obtain ⟨f, rest⟩ := p
        obtain ⟨fb, hfb, hfbd, hpos⟩ := frameDec_exact _ _ _ hdec
        have hbytes : c.b.ld.bytes = fb ++ (rest ++ c.b.ld.bytes.drop n) := by
          have := List.take_append_drop n c.b.ld.bytes
          rw [hfb, List.append_assoc] at this
          exact this.symm
        have hone := pollBytes_one (dStep P.lazy) (dStop c.b.d) c.b.d fb
          (rest ++ c.b.ld.bytes.drop n ++ c.lW) f c.b.ld.closed hnds hfbd hpos
        refine ⟨⟨[.pollD fb.length], ?_⟩, ?_⟩
        · simp only [List.foldl_cons, List.foldl_nil, bstepA, bStepDA, wabs, hst, Bool.not_true,
            Bool.false_eq_true, ↓reduceIte, hnd]
          have hb2 : c.b.ld.bytes ++ c.lW = fb ++ (rest ++ c.b.ld.bytes.drop n ++ c.lW) := by
            conv => lhs; rw [hbytes]
            simp [List.append_assoc]
          rw [hb2, hone]
          simp [htk, List.append_assoc]
        · exact {
            l := hinv.l
            d := by
              intro h
              simp only [hncl, Bool.false_or] at h
              refine ⟨dFailed_done _ h, ?_⟩
              simp only
              rw [dStep_failed_out P.lazy c.b.d _ h hnd, dFailed_not_expecting _ h]
              rfl
            s := by intro h; simp [hst] at h }
      | none =>
        by_cases heof : (c.b.ld.closed && decide (c.b.ld.bytes.length < n)) = true
        · simp only [heof, ↓reduceIte]
          simp only [Bool.and_eq_true, decide_eq_true_eq] at heof
          obtain ⟨hcl, hlen⟩ := heof
          have hlW : c.lW = [] := (hinv.l hcl).2
          have hwhole : c.b.ld.bytes.take n = c.b.ld.bytes := List.take_of_length_le (by omega)
          rw [hwhole] at hdec
          have heofp := pollBytes_eof (dStep P.lazy) (dStop c.b.d) c.b.d c.b.ld.bytes n hnds hdec hlen
          refine ⟨⟨[.pollD n], ?_⟩, ?_⟩
          · simp only [List.foldl_cons, List.foldl_nil, bstepA, bStepDA, wabs, hst, Bool.not_true,
              Bool.false_eq_true, ↓reduceIte, hnd, hlW, List.append_nil, hcl, heofp]
            simp [htk, List.append_assoc]
          · exact {
              l := hinv.l
              d := by
                intro h
                simp only [hncl, Bool.false_or] at h
                refine ⟨dFailed_done _ h, ?_⟩
                simp only
                rw [dStep_failed_out P.lazy c.b.d _ h hnd, dFailed_not_expecting _ h]
                rfl
              s := by intro h; simp [hst] at h }
        · simp only [heof, Bool.false_eq_true, ↓reduceIte]
          have hnf := dFailed_of_not_done _ hnd
          refine ⟨⟨[], ?_⟩, ?_⟩
          · simp [wabs, htk, hnf, wireOfAll, hflushed, hst]
          · exact {
              l := hinv.l
              d := by
                intro h
                simp [hncl, hnf] at h
              s := by intro h; simp [hst] at h }
  · -- the very first poll
    have hst0 : c.b.started = false := by simpa using hst
    have hdW := (hinv.s hst0).1
    have hncl := (hinv.s hst0).2
    simp only [hst0, Bool.not_false, ↓reduceIte]
    refine ⟨⟨[.pollD n], ?_⟩, ?_⟩
    · simp [bstepA, bStepDA, wabs, hst0, hdW, List.append_assoc]
    · exact {
        l := hinv.l
        d := by
          intro h
          simp only [hncl, Bool.false_or] at h
          refine ⟨dFailed_done _ h, ?_⟩
          simp only
          rw [dStart_failed_out P.lazy P.ds h, dFailed_not_expecting _ h]
          rfl
        s := by intro h; simp at h }

theorem winv_init : WInv winit :=
  { l := by intro h; simp [winit, binit] at h
    d := by intro h; simp [winit, binit] at h
    s := by intro _; simp [winit, binit] }

/-- **Write-path refinement**: every run of the network with write buffers (partial writes,
flush before the next read) is, after forgetting the buffers, a run of the atomic-send network. -/
theorem wexec_refines (P : Params) (A : Bytes) (ws : List WMove) :
    ∃ bs : List BMove, wabs (wexec P A ws) = bexecA P A bs := by
  have gen : ∀ (ws : List WMove) (c : WCfg), WInv c → (∃ bs, wabs c = bexecA P A bs) →
      ∃ bs, wabs (ws.foldl (wstep P A) c) = bexecA P A bs := by
    intro ws
    induction ws with
    | nil => intro c _ h; simpa using h
    | cons mv rest ih =>
      intro c hinv ⟨bs, hbs⟩
      simp only [List.foldl_cons]
      cases mv with
      | pollD k n =>
        obtain ⟨⟨ex, hex⟩, hinv'⟩ := wstepD_refines P A k n c hinv
        exact ih _ hinv' ⟨bs ++ ex, by simp [wstep, hex, hbs, bexecA, List.foldl_append]⟩
      | pollL k n =>
        obtain ⟨⟨ex, hex⟩, hinv'⟩ := wstepL_refines P A k n c hinv
        exact ih _ hinv' ⟨bs ++ ex, by simp [wstep, hex, hbs, bexecA, List.foldl_append]⟩
  exact gen ws winit winv_init ⟨[], by simp [wabs, winit, bexecA]⟩

end C14
