import Libp2pModel.Proofs.C26ReadLoop
namespace C26
open C25 (Sid Role Frame)

theorem readFromBuf_none {s : State} {id : Sid} (h : readFromBuf s id = none) : EmptyBuf s id := by
  intro x hx
  unfold readFromBuf at h
  rw [hx] at h
  simp only at h
  cases hb : x.buf with
  | nil => rfl
  | cons d rest => rw [hb] at h; simp at h

theorem Inv_readFromBuf {s s' : State} {id : Sid} {d : List Nat} (hi : Inv s)
    (h : readFromBuf s id = some (s', d)) : Inv s' ∧ s'.cfg = s.cfg := by
  unfold readFromBuf at h
  cases hx : s.get id with
  | none => rw [hx] at h; simp at h
  | some x =>
    rw [hx] at h
    simp only at h
    cases hb : x.buf with
    | nil => rw [hb] at h; simp at h
    | cons d0 rest =>
      rw [hb] at h
      simp only [Option.some.injEq, Prod.mk.injEq] at h
      obtain ⟨h1, h2⟩ := h
      subst h2
      have hg := Inv_get hi hx
      have hid := hg.2
      obtain ⟨a1, a2, a3⟩ := hg.1
      have hlen : rest.length ≤ s.cfg.maxBuf := by
        rcases a1 with a1 | ⟨a1, _⟩ <;> rw [hb] at a1 <;> simp at a1 <;> omega
      have hrx : x.rx = (x.dl ++ [d0]) ++ rest := by rw [a2, hb]; simp
      by_cases hbl : s.blocking = some id
      · simp only [hbl, ↓reduceIte] at h1
        subst h1
        refine ⟨⟨?_, hi.2.1, ?_⟩, rfl⟩
        · have := len_insert_present (x := { x with buf := rest, dl := x.dl ++ [d0] }) (l := s.subs)
            (by show getSub s.subs x.id = some x; rw [hid]; exact hx)
          have := hi.1
          simp only [State.put]; omega
        · intro y hy
          simp only [State.put] at hy ⊢
          rcases mem_insertSub hy with rfl | ⟨hm, hne⟩
          · exact ⟨.inl hlen, hrx, a3⟩
          · obtain ⟨b1, b2, b3⟩ := hi.2.2 y hm
            refine ⟨?_, b2, b3⟩
            rcases b1 with b1 | ⟨b1, b1'⟩
            · exact .inl b1
            · by_cases hblk : s.cfg.block
              · simp only [hblk, ↓reduceIte, hbl, Option.some.injEq] at b1'
                exact absurd (b1'.symm.trans hid.symm) hne
              · right; refine ⟨b1, ?_⟩
                simp only [hblk] at b1' ⊢
                exact b1'
      · simp only [hbl, ↓reduceIte] at h1
        subst h1
        refine ⟨Inv_put_present (x := { x with buf := rest, dl := x.dl ++ [d0] }) hi
          (by show s.get x.id = some x; rw [hid]; exact hx) ?_, rfl⟩
        exact ⟨.inl hlen, hrx, a3⟩

theorem Inv_pollReadStream {s : State} (hi : Inv s) (id : Sid) :
    Inv (pollReadStream s id).1 ∧ (pollReadStream s id).1.cfg = s.cfg := by
  unfold pollReadStream
  split
  · exact ⟨hi, rfl⟩
  · split
    · rename_i s' d h
      exact Inv_readFromBuf hi h
    · rename_i h
      exact Inv_readStreamLoop _ s id 0 hi (readFromBuf_none h)

theorem Inv_substreamRead : ∀ (fuel : Nat) (s : State) (h : Handle) (n : Nat), Inv s →
    Inv (substreamRead fuel s h n).1 := by
  intro fuel
  induction fuel with
  | zero => intro s h n hi; exact hi
  | succ fuel ih =>
    intro s h n hi
    simp only [substreamRead]
    split
    · exact hi
    · have hr := Inv_pollReadStream hi h.id
      rcases hp : pollReadStream s h.id with ⟨s1, r⟩
      rw [hp] at hr
      cases r with
      | pending => exact hr.1
      | ready e =>
        cases e with
        | error k => exact hr.1
        | ok o =>
          cases o with
          | none => exact hr.1
          | some d => exact ih s1 _ n hr.1

theorem Inv_substreamClose {s : State} (hi : Inv s) (id : Sid) : Inv (substreamClose s id).1 := by
  unfold substreamClose
  have h := Inv_pollCloseStream hi id
  rcases hp : pollCloseStream s id with ⟨s1, r⟩
  rw [hp] at h
  cases r with
  | pending => exact h
  | ready e =>
    cases e with
    | error k => exact h
    | ok u => exact Inv_pollFlushStream h

/-- **every driver operation preserves the invariant** -/
theorem Inv_step (m : MState) (op : Op) (hi : Inv m.s) : Inv (step m op).1.s := by
  cases op with
  | wire items => exact Inv_congr hi rfl rfl rfl rfl
  | wblock b => exact Inv_congr hi rfl rfl rfl rfl
  | inbound =>
    simp only [step]
    have := Inv_pollNextStream hi
    rcases hp : pollNextStream m.s with ⟨s1, r⟩
    rw [hp] at this
    cases r with
    | pending => exact this
    | ready e => cases e <;> exact this
  | outbound =>
    simp only [step]
    have := Inv_pollOpenStream hi
    rcases hp : pollOpenStream m.s with ⟨s1, r⟩
    rw [hp] at this
    cases r with
    | pending => exact this
    | ready e => cases e <;> exact this
  | read id n =>
    simp only [step]
    exact Inv_substreamRead _ m.s _ n hi
  | write id d => simp only [step]; exact Inv_pollWriteStream hi id d
  | flush id => simp only [step]; exact Inv_pollFlushStream hi
  | close id => simp only [step]; exact Inv_substreamClose hi id
  | drop id => simp only [step]; exact (Inv_dropStream hi id).1
  | closeConn => simp only [step]; exact Inv_pollClose hi

end C26
