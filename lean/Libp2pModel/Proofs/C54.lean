import Libp2pModel.Model.C54
/-!
# C54 — helper lemmas: record-level and store-level effect of the primitives on the
"permanence flag" view `flag s p a`, and the representation invariant `Inv`.
-/
set_option linter.unusedSimpArgs false
set_option linter.unusedVariables false

namespace Lru
variable {κ ν : Type} [DecidableEq κ]

/-- after `upsertBack k`, `k` is the LRU key only if it is the only key -/
theorem Cache.lruKey_upsertBack_self (c : Cache κ ν) (k : κ) (v : ν)
    (h : (c.upsertBack k v).lruKey = some k) : (c.upsertBack k v).len = 1 := by
  unfold Cache.lruKey Cache.upsertBack at h
  unfold Cache.len Cache.upsertBack
  simp only at h ⊢
  cases hd : del k c.items with
  | nil => simp
  | cons x t =>
    rw [hd] at h
    simp at h
    have : x.1 ∈ (del k c.items).map Prod.fst := by rw [hd]; simp
    exact absurd h (mem_keys_del this).2

/-- pushing a new key at the back does not change the LRU key of a non-empty cache -/
theorem Cache.lruKey_upsertBack_of_not_mem (c : Cache κ ν) (k : κ) (v : ν)
    (hk : c.peek k = none) (hne : c.len ≠ 0) : (c.upsertBack k v).lruKey = c.lruKey := by
  unfold Cache.lruKey Cache.upsertBack
  simp only [del_of_find_none hk]
  cases hi : c.items with
  | nil => simp [Cache.len, hi] at hne
  | cons x t => simp

theorem Cache.len_eq_zero_of_lruKey_none (c : Cache κ ν) (h : c.lruKey = none) : c.len = 0 := by
  unfold Cache.lruKey at h
  unfold Cache.len
  cases hi : c.items with
  | nil => rfl
  | cons x t => simp [hi] at h

end Lru

namespace C54
open Lru

/-! ## invariant -/

structure RecOk (cfg : Cfg) (r : Rec) : Prop where
  wf : r.addrs.WF
  cap : r.addrs.cap = cfg.recCap
  len : r.addrs.len ≤ cfg.recCap

/-- representation invariant of `MemoryStore` (for the repaired code) -/
structure Inv (s : State) : Prop where
  wf : s.records.WF
  cap : s.records.cap = s.cfg.peerCap
  len : s.records.len ≤ s.cfg.peerCap
  recs : s.records.AllV (RecOk s.cfg)
  pc1 : 1 ≤ s.cfg.peerCap
  rc1 : 1 ≤ s.cfg.recCap

theorem recOk_new (cfg : Cfg) : RecOk cfg (Rec.new cfg.recCap) :=
  ⟨Cache.wf_new _, rfl, by simp [Rec.new]⟩

theorem inv_init (cfg : Cfg) (h1 : 1 ≤ cfg.peerCap) (h2 : 1 ≤ cfg.recCap) : Inv (init cfg) :=
  ⟨Cache.wf_new _, rfl, by simp [init], Cache.allV_new _ _, h1, h2⟩

/-! ## record level -/

section RecLevel
variable {cfg : Cfg} {r : Rec}

theorem addAddress_spec (h : RecOk cfg r) (h1 : 1 ≤ cfg.recCap) (a : Addr) (isPerm : Bool) :
    let x := r.addAddress a isPerm
    RecOk cfg x.1 ∧ x.1.custom = r.custom ∧ x.2 = (r.addrs.peek a).isNone ∧
    x.1.addrs.peek a = some (isPerm || (r.addrs.peek a).getD false) ∧
    (∀ b, b ≠ a → x.1.addrs.peek b ≠ r.addrs.peek b →
        x.1.addrs.peek b = none ∧ r.addrs.peek a = none ∧ r.addrs.len = cfg.recCap ∧ r.addrs.lruKey = some b) := by
  obtain ⟨hwf, hcap, hlen⟩ := h
  unfold Rec.addAddress
  cases hp : r.addrs.peek a with
  | some was =>
    have hg : r.addrs.getMut a = (r.addrs.upsertBack a was, some was) := by
      unfold Cache.getMut; rw [hp]
    rw [hg]
    have hlen1 : (r.addrs.upsertBack a was).len ≤ r.addrs.len :=
      Cache.len_upsertBack_of_mem _ _ (by simp [hp])
    have hwf1 := Cache.wf_upsertBack _ hwf a was
    by_cases hc : (!was && isPerm) = true
    · simp only [hc, ↓reduceIte]
      have hlen2 : ((r.addrs.upsertBack a was).upsertBack a isPerm).len ≤ (r.addrs.upsertBack a was).len :=
        Cache.len_upsertBack_of_mem _ _ (by simp [Cache.peek_upsertBack_self])
      have hev : ((r.addrs.upsertBack a was).insert a isPerm).1 = (r.addrs.upsertBack a was).upsertBack a isPerm := by
        unfold Cache.insert
        simp only
        apply Cache.evictIfOver_of_le
        simp only [Cache.cap_upsertBack]; omega
      rw [hev]
      have hw : was = false ∧ isPerm = true := by
        cases was <;> cases isPerm <;> simp_all
      refine ⟨⟨Cache.wf_upsertBack _ hwf1 _ _, by simp [hcap], by simp only; omega⟩, by first | trivial | rfl, by simp, ?_, ?_⟩
      · simp [Cache.peek_upsertBack_self, hw.1, hw.2]
      · intro b hb hne
        simp [Cache.peek_upsertBack_ne _ hb] at hne
    · simp only [hc, Bool.false_eq_true, ↓reduceIte]
      have hw : (isPerm || was) = was := by
        cases was <;> cases isPerm <;> simp_all
      refine ⟨⟨hwf1, by simp [hcap], by simp only; omega⟩, by first | trivial | rfl, by simp, ?_, ?_⟩
      · simp [Cache.peek_upsertBack_self, hw]
      · intro b hb hne
        simp [Cache.peek_upsertBack_ne _ hb] at hne
  | none =>
    have hg : r.addrs.getMut a = (r.addrs, none) := by
      unfold Cache.getMut; rw [hp]
    rw [hg]
    simp only
    have hwf1 := Cache.wf_upsertBack _ hwf a isPerm
    refine ⟨⟨Cache.wf_insert _ hwf _ _, by simp [hcap], ?_⟩, by first | trivial | rfl, by simp, ?_, ?_⟩
    · have := Cache.length_insert_le_cap r.addrs a isPerm (by omega)
      simp only; omega
    · -- the new address itself is not evicted: capacity ≥ 1
      unfold Cache.insert
      simp only [Cache.peek_evictIfOver _ hwf1, Cache.peek_upsertBack_self, Cache.cap_upsertBack]
      have : ¬ ((r.addrs.upsertBack a isPerm).len > r.addrs.cap ∧ (r.addrs.upsertBack a isPerm).lruKey = some a) := by
        intro ⟨h1', h2'⟩
        have := Cache.lruKey_upsertBack_self _ _ _ h2'
        omega
      simp [this]
    · intro b hb hne
      unfold Cache.insert at hne ⊢
      simp only [Cache.peek_evictIfOver _ hwf1, Cache.peek_upsertBack_ne _ hb, Cache.cap_upsertBack] at hne ⊢
      by_cases hc : (r.addrs.upsertBack a isPerm).len > r.addrs.cap ∧ (r.addrs.upsertBack a isPerm).lruKey = some b
      · have hl := Cache.len_upsertBack_of_not_mem r.addrs isPerm hp
        have hne0 : r.addrs.len ≠ 0 := by
          intro h0
          have : (r.addrs.upsertBack a isPerm).len = 1 := by omega
          -- a single element: the LRU key is `a`, not `b`
          have hk : (r.addrs.upsertBack a isPerm).lruKey = some a := by
            unfold Cache.lruKey Cache.upsertBack
            have : r.addrs.items = [] := by
              unfold Cache.len at h0; exact List.eq_nil_of_length_eq_zero h0
            simp [this, del]
          rw [hk] at hc
          exact hb (Option.some.inj hc.2).symm
        have hc0 := hc
        rw [Cache.lruKey_upsertBack_of_not_mem _ _ _ hp hne0] at hc
        refine ⟨by simp [hc0], by first | trivial | rfl, by omega, hc.2⟩
      · simp [hc] at hne

theorem removeAddress_spec (h : RecOk cfg r) (a : Addr) (force : Bool) :
    let x := r.removeAddress a force
    RecOk cfg x.1 ∧ x.1.custom = r.custom ∧
    x.2 = (match r.addrs.peek a with | some f => force || !f | none => false) ∧
    (∀ b, x.1.addrs.peek b = if b = a ∧ x.2 = true then none else r.addrs.peek b) := by
  obtain ⟨hwf, hcap, hlen⟩ := h
  unfold Rec.removeAddress
  by_cases hc : (!force && r.addrs.peek a == some true) = true
  · simp only [hc, ↓reduceIte]
    have : force = false ∧ r.addrs.peek a = some true := by
      cases force <;> simp_all
    refine ⟨⟨hwf, hcap, hlen⟩, by first | trivial | rfl, by simp [this.1, this.2], by simp⟩
  · simp only [hc, Bool.false_eq_true, ↓reduceIte, Cache.remove_snd]
    refine ⟨⟨Cache.wf_remove _ hwf _, by simp [hcap], ?_⟩, by first | trivial | rfl, ?_, ?_⟩
    · have := Cache.length_remove_le r.addrs a
      show (r.addrs.remove a).1.len ≤ cfg.recCap
      omega
    · cases hp : r.addrs.peek a with
      | none => simp
      | some f => cases force <;> cases f <;> simp_all
    · intro b
      rw [Cache.peek_remove]
      by_cases hb : b = a
      · subst hb
        cases hp : r.addrs.peek b <;> simp
      · simp [hb]

end RecLevel

/-! ## dump ↔ flag -/

theorem flag_isSome_iff (s : State) (p : Peer) (a : Addr) :
    (flag s p a).isSome ↔ ∃ r, s.records.peek p = some r ∧ (r.addrs.peek a).isSome := by
  unfold flag
  cases s.records.peek p <;> simp

theorem mem_pairs_dump (s : State) (hwf : s.records.WF) (p : Peer) (a : Addr) :
    (p, a) ∈ pairsOf (dump s) ↔ (flag s p a).isSome := by
  rw [flag_isSome_iff]
  unfold pairsOf
  rw [List.mem_flatMap]
  constructor
  · rintro ⟨e, he, hpa⟩
    unfold dump at he
    rw [List.mem_map] at he
    obtain ⟨⟨q, r⟩, hqr, rfl⟩ := he
    simp only [List.mem_map, Prod.mk.injEq] at hpa
    obtain ⟨a', ha', rfl, rfl⟩ := hpa
    simp only [Cache.iter, List.mem_map, List.mem_reverse] at ha'
    obtain ⟨⟨a2, f⟩, hf, rfl⟩ := ha'
    refine ⟨r, find_of_mem_nodup hwf hqr, ?_⟩
    rw [Option.isSome_iff_ne_none]
    intro hn
    have := (find_none_iff_not_mem_keys a2 r.addrs.items).1 hn
    exact this (List.mem_map_of_mem (f := Prod.fst) hf)
  · rintro ⟨r, hr, ha⟩
    obtain ⟨f, hf⟩ := Option.isSome_iff_exists.1 ha
    refine ⟨(p, r.addrs.iter.reverse.map Prod.fst, r.custom), ?_, ?_⟩
    · unfold dump
      rw [List.mem_map]
      exact ⟨(p, r), mem_of_find hr, rfl⟩
    · simp only [List.mem_map, Prod.mk.injEq, Cache.iter, List.mem_reverse]
      exact ⟨a, ⟨(a, f), mem_of_find hf, rfl⟩, by first | trivial | rfl, by first | trivial | rfl⟩

theorem dump_keys (s : State) : (dump s).map (·.1) = s.records.keys := by
  simp [dump, Cache.iter, Cache.keys, Function.comp_def]

theorem dump_length (s : State) : (dump s).length = s.records.len := by
  simp [dump, Cache.iter, Cache.len]

theorem mem_keys_iff (c : Cache Peer Rec) (p : Peer) : p ∈ c.keys ↔ (c.peek p).isSome := by
  have := find_none_iff_not_mem_keys p c.items
  unfold Cache.keys Cache.peek
  cases h : find p c.items with
  | none => simp [this.1 h]
  | some v =>
    simp only [Option.isSome_some, iff_true]
    apply Classical.byContradiction
    intro hn
    have := this.2 hn
    rw [h] at this; cases this

theorem dump_recCap (s : State) (h : Inv s) : ∀ e ∈ dump s, e.2.1.length ≤ s.cfg.recCap := by
  intro e he
  unfold dump Cache.iter at he
  simp only [List.mem_map] at he
  obtain ⟨⟨p, r⟩, hm, rfl⟩ := he
  have := (h.recs (p, r) hm).len
  simpa [Cache.iter, Cache.len] using this

/-! ## store level: `add_address_inner` (repaired) -/

theorem addInner_spec {s : State} (h : Inv s) (p : Peer) (a : Addr) (isPerm : Bool) :
    let x := addInner true s p a isPerm
    Inv x.1 ∧ x.1.cfg = s.cfg ∧ x.2 = (flag s p a).isNone ∧
    x.1.pending = s.pending ++ (if x.2 then [Event.added p a isPerm] else []) ∧
    flag x.1 p a = some (isPerm || (flag s p a).getD false) ∧
    (∀ q b, (q, b) ≠ (p, a) → flag x.1 q b = none ∨ flag x.1 q b = flag s q b) ∧
    (x.2 = false → ∀ q b, (q, b) ≠ (p, a) → flag x.1 q b = flag s q b) ∧
    (x.2 = false → ∀ q, (x.1.records.peek q).isSome = (s.records.peek q).isSome) := by
  obtain ⟨hwf, hcap, hlen, hrecs, hpc, hrc⟩ := h
  have hev : s.records.evictIfOver = s.records := Cache.evictIfOver_of_le _ (by omega)
  -- the record found or created
  let r0 : Rec := (s.records.peek p).getD (Rec.new s.cfg.recCap)
  have hr0 : RecOk s.cfg r0 := by
    show RecOk s.cfg ((s.records.peek p).getD (Rec.new s.cfg.recCap))
    cases hp : s.records.peek p with
    | none => exact recOk_new _
    | some r => exact Cache.allV_of_peek _ hrecs hp
  have hflag0 : ∀ b, flag s p b = r0.addrs.peek b := by
    intro b
    show flag s p b = ((s.records.peek p).getD (Rec.new s.cfg.recCap)).addrs.peek b
    unfold flag
    cases hp : s.records.peek p with
    | none => simp [Rec.new]
    | some r => simp
  have he2 : (s.records.entryOrInsertWith p (Rec.new s.cfg.recCap)).2 = r0 := by
    rw [Cache.entry_snd, hev]
  obtain ⟨hra1, hra2, hra3, hra4, hra5⟩ := addAddress_spec hr0 hrc a isPerm
  -- the cache after the write through `&mut`
  let e1 := (s.records.entryOrInsertWith p (Rec.new s.cfg.recCap)).1
  let recs1 := e1.upsertBack p (r0.addAddress a isPerm).1
  have hwf_e1 : e1.WF := Cache.wf_entryOrInsertWith _ hwf _ _
  have hwf1 : recs1.WF := Cache.wf_upsertBack _ hwf_e1 _ _
  have hall_e1 : e1.AllV (RecOk s.cfg) := Cache.allV_entryOrInsertWith _ hrecs _ (recOk_new _)
  have hall1 : recs1.AllV (RecOk s.cfg) := Cache.allV_upsertBack _ hall_e1 _ hra1
  have hpeek1 : ∀ q, recs1.peek q = if q = p then some (r0.addAddress a isPerm).1 else s.records.peek q := by
    intro q
    show (e1.upsertBack p _).peek q = _
    rw [Cache.peek_upsertBack]
    by_cases hq : q = p
    · simp [hq]
    · simp only [hq, ↓reduceIte]
      show (s.records.entryOrInsertWith p (Rec.new s.cfg.recCap)).1.peek q = _
      rw [Cache.peek_entry, hev]; simp [hq]
  have hlen_e1 : e1.len ≤ s.cfg.peerCap + 1 := by
    have := Cache.length_entry_le s.records p (Rec.new s.cfg.recCap) (by omega)
    rw [hcap] at this; exact this
  have hlen1 : recs1.len ≤ s.cfg.peerCap + 1 := by
    have : recs1.len ≤ e1.len := Cache.len_upsertBack_of_mem _ _ (by
      show (s.records.entryOrInsertWith p (Rec.new s.cfg.recCap)).1.peek p ≠ none
      rw [Cache.peek_entry]; simp)
    omega
  have hcap1 : recs1.cap = s.cfg.peerCap := by
    show (e1.upsertBack p _).cap = _
    simp [e1, hcap]
  -- p itself is never the evicted key
  have hnot_p : ¬ (recs1.len > recs1.cap ∧ recs1.lruKey = some p) := by
    intro ⟨hgt, hk⟩
    have := Cache.lruKey_upsertBack_self e1 p _ hk
    have : recs1.len = 1 := this
    omega
  -- unfold the function
  have hx : addInner true s p a isPerm =
      ({ s with records := recs1.evictIfOver,
                pending := if (r0.addAddress a isPerm).2 then s.pending ++ [Event.added p a isPerm] else s.pending },
        (r0.addAddress a isPerm).2) := by
    unfold addInner
    simp only [he2, ↓reduceIte]
    rfl
  rw [hx]
  simp only
  have hpeekF : ∀ q, recs1.evictIfOver.peek q =
      if recs1.len > recs1.cap ∧ recs1.lruKey = some q then none else recs1.peek q :=
    fun q => Cache.peek_evictIfOver _ hwf1 q
  have hflagF : ∀ q b, flag { s with records := recs1.evictIfOver, pending := if (r0.addAddress a isPerm).2 then s.pending ++ [Event.added p a isPerm] else s.pending } q b =
      (recs1.evictIfOver.peek q).bind fun r => r.addrs.peek b := fun q b => rfl
  have hisnew : (r0.addAddress a isPerm).2 = (flag s p a).isNone := by rw [hra3, hflag0]
  refine ⟨⟨Cache.wf_evictIfOver _ hwf1, by simp [hcap1], ?_, Cache.allV_evictIfOver _ hall1, hpc, hrc⟩,
    by first | trivial | rfl, hisnew, ?_, ?_, ?_, ?_, ?_⟩
  · have := Cache.len_evictIfOver recs1
    simp only; omega
  · cases (r0.addAddress a isPerm).2 <;> simp
  · rw [hflagF, hpeekF]
    simp only [hnot_p, ↓reduceIte, hpeek1]
    simp [hra4, hflag0]
  · intro q b hne
    rw [hflagF, hpeekF]
    by_cases hevq : recs1.len > recs1.cap ∧ recs1.lruKey = some q
    · left; simp [hevq]
    · simp only [hevq, ↓reduceIte, hpeek1]
      by_cases hq : q = p
      · subst hq
        have hb : b ≠ a := fun e => hne (by rw [e])
        simp only [↓reduceIte, Option.bind_some, hflag0]
        by_cases hch : (r0.addAddress a isPerm).1.addrs.peek b = r0.addrs.peek b
        · right; exact hch
        · left; exact (hra5 b hb hch).1
      · right; simp [hq, flag]
  · intro hfalse
    -- not new: the peer existed, nothing is evicted
    have hsome : (r0.addrs.peek a).isSome := by
      rw [hra3] at hfalse
      cases hh : r0.addrs.peek a <;> simp_all
    have hpres : s.records.peek p ≠ none := by
      intro hn
      have : r0 = Rec.new s.cfg.recCap := by
        show (s.records.peek p).getD _ = _
        rw [hn]; rfl
      rw [this] at hsome
      simp [Rec.new] at hsome
    have hlen_le : recs1.len ≤ recs1.cap := by
      have h1 : e1.len ≤ s.cfg.peerCap := by
        have := Cache.length_entry_occupied s.records (Rec.new s.cfg.recCap) (by omega) hpres
        rw [hcap] at this; exact this
      have : recs1.len ≤ e1.len := Cache.len_upsertBack_of_mem _ _ (by
        show (s.records.entryOrInsertWith p (Rec.new s.cfg.recCap)).1.peek p ≠ none
        rw [Cache.peek_entry]; simp)
      omega
    have hnoev : ∀ q, ¬ (recs1.len > recs1.cap ∧ recs1.lruKey = some q) := by
      intro q ⟨hgt, _⟩; omega
    intro q b hne
    rw [hflagF, hpeekF]
    simp only [hnoev q, ↓reduceIte, hpeek1]
    by_cases hq : q = p
    · subst hq
      have hb : b ≠ a := fun e => hne (by rw [e])
      simp only [↓reduceIte, Option.bind_some, hflag0]
      apply Classical.byContradiction
      intro hch
      have := (hra5 b hb hch).2.1
      rw [this] at hsome; simp at hsome
    · simp [hq, flag]
  · intro hfalse q
    have hsome : (r0.addrs.peek a).isSome := by
      rw [hra3] at hfalse
      cases hh : r0.addrs.peek a <;> simp_all
    have hpres : s.records.peek p ≠ none := by
      intro hn
      have : r0 = Rec.new s.cfg.recCap := by
        show (s.records.peek p).getD _ = _
        rw [hn]; rfl
      rw [this] at hsome
      simp [Rec.new] at hsome
    have hlen_le : recs1.len ≤ recs1.cap := by
      have h1 : e1.len ≤ s.cfg.peerCap := by
        have := Cache.length_entry_occupied s.records (Rec.new s.cfg.recCap) (by omega) hpres
        rw [hcap] at this; exact this
      have : recs1.len ≤ e1.len := Cache.len_upsertBack_of_mem _ _ (by
        show (s.records.entryOrInsertWith p (Rec.new s.cfg.recCap)).1.peek p ≠ none
        rw [Cache.peek_entry]; simp)
      omega
    have hnoev : ¬ (recs1.len > recs1.cap ∧ recs1.lruKey = some q) := by
      intro ⟨hgt, _⟩; omega
    simp only [hpeekF, hnoev, ↓reduceIte, hpeek1]
    by_cases hq : q = p
    · subst hq
      cases hh : s.records.peek q with
      | none => exact absurd hh hpres
      | some v => simp
    · simp [hq]

/-! ## store level: `remove_address_inner` -/

theorem getMut_some {c : Cache Peer Rec} {p : Peer} {r : Rec} (hp : c.peek p = some r) :
    c.getMut p = (c.upsertBack p r, some r) := by
  unfold Cache.getMut; rw [hp]

theorem getMut_none {c : Cache Peer Rec} {p : Peer} (hp : c.peek p = none) :
    c.getMut p = (c, none) := by
  unfold Cache.getMut; rw [hp]

/-- invariant pieces for "promote `p`, then write `r'` through the `&mut`" -/
theorem inv_touch {s : State} (h : Inv s) {p : Peer} {r r' : Rec} (hp : s.records.peek p = some r)
    (hr' : RecOk s.cfg r') :
    let c := (s.records.upsertBack p r).upsertBack p r'
    c.WF ∧ c.cap = s.cfg.peerCap ∧ c.len ≤ s.cfg.peerCap ∧ c.AllV (RecOk s.cfg) ∧
    (∀ q, c.peek q = if q = p then some r' else s.records.peek q) := by
  obtain ⟨hwf, hcap, hlen, hrecs, hpc, hrc⟩ := h
  have hr : RecOk s.cfg r := Cache.allV_of_peek _ hrecs hp
  have h1 : (s.records.upsertBack p r).len ≤ s.records.len :=
    Cache.len_upsertBack_of_mem _ _ (by simp [hp])
  have h2 : ((s.records.upsertBack p r).upsertBack p r').len ≤ (s.records.upsertBack p r).len :=
    Cache.len_upsertBack_of_mem _ _ (by simp [Cache.peek_upsertBack_self])
  refine ⟨Cache.wf_upsertBack _ (Cache.wf_upsertBack _ hwf _ _) _ _, by simp [hcap], by omega,
    Cache.allV_upsertBack _ (Cache.allV_upsertBack _ hrecs _ hr) _ hr', ?_⟩
  intro q
  rw [Cache.peek_upsertBack, Cache.peek_upsertBack]
  by_cases hq : q = p <;> simp [hq]

theorem removeInner_spec {s : State} (h : Inv s) (p : Peer) (a : Addr) (force : Bool) :
    let x := removeInner s p a force
    Inv x.1 ∧ x.1.cfg = s.cfg ∧
    x.2 = (match flag s p a with | some f => force || !f | none => false) ∧
    x.1.pending = s.pending ++ (if x.2 then [Event.removed p a] else []) ∧
    (∀ q b, flag x.1 q b = if (q = p ∧ b = a) ∧ x.2 = true then none else flag s q b) := by
  have h' := h
  obtain ⟨hwf, hcap, hlen, hrecs, hpc, hrc⟩ := h
  unfold removeInner
  cases hp : s.records.peek p with
  | none =>
    rw [getMut_none hp]
    have hf : ∀ b, flag s p b = none := by intro b; simp [flag, hp]
    refine ⟨h', rfl, by simp [hf], by simp, ?_⟩
    intro q b
    simp
  | some r =>
    rw [getMut_some hp]
    have hr : RecOk s.cfg r := Cache.allV_of_peek _ hrecs hp
    obtain ⟨hr1, hr2, hr3, hr4⟩ := removeAddress_spec hr a force
    obtain ⟨twf, tcap, tlen, tall, tpeek⟩ := inv_touch h' hp hr1
    have hf : ∀ b, flag s p b = r.addrs.peek b := by intro b; simp [flag, hp]
    have hfq : ∀ q b, q ≠ p → ∀ (c : Cache Peer Rec) (pend : List Event),
        (c.peek q = s.records.peek q) → flag { s with records := c, pending := pend } q b = flag s q b := by
      intro q b _ c pend hc; simp [flag, hc]
    simp only
    cases hret : (r.removeAddress a force).2 with
    | true =>
      simp only [↓reduceIte]
      rw [hret] at hr3 hr4
      by_cases hc : ((r.removeAddress a force).1.addrs.isEmpty && (r.removeAddress a force).1.custom.isNone) = true
      · simp only [hc, ↓reduceIte]
        have hempty : (r.removeAddress a force).1.addrs.isEmpty = true := by
          cases hh : (r.removeAddress a force).1.addrs.isEmpty <;> simp_all
        refine ⟨⟨Cache.wf_remove _ twf _, by simp [hcap], ?_, Cache.allV_remove _ tall _, hpc, hrc⟩,
          by first | trivial | rfl, ?_, by simp, ?_⟩
        · have := Cache.length_remove_le ((s.records.upsertBack p r).upsertBack p (r.removeAddress a force).1) p
          simp only; omega
        · rw [hf]; exact hr3
        · intro q b
          show ((((s.records.upsertBack p r).upsertBack p (r.removeAddress a force).1).remove p).1.peek q).bind
            (fun r => r.addrs.peek b) = _
          rw [Cache.peek_remove, tpeek]
          by_cases hq : q = p
          · subst hq
            simp only [↓reduceIte, Option.bind_none, true_and, and_true, hf]
            by_cases hb : b = a
            · simp [hb]
            · have := hr4 b
              simp only [hb, false_and, ↓reduceIte] at this ⊢
              rw [← this]
              exact (Cache.peek_eq_none_of_isEmpty _ hempty b).symm
          · simp [hq, flag]
      · simp only [hc, Bool.false_eq_true, ↓reduceIte]
        refine ⟨⟨twf, by simp [hcap], tlen, tall, hpc, hrc⟩, by first | trivial | rfl, ?_, by simp, ?_⟩
        · rw [hf]; exact hr3
        · intro q b
          show (((s.records.upsertBack p r).upsertBack p (r.removeAddress a force).1).peek q).bind
            (fun r => r.addrs.peek b) = _
          rw [tpeek]
          by_cases hq : q = p
          · subst hq
            simp only [↓reduceIte, Option.bind_some, true_and, and_true, hf]
            simpa using hr4 b
          · simp [hq, flag]
    | false =>
      simp only [Bool.false_eq_true, ↓reduceIte]
      rw [hret] at hr3 hr4
      refine ⟨⟨twf, by simp [hcap], tlen, tall, hpc, hrc⟩, by first | trivial | rfl, ?_, by simp, ?_⟩
      · rw [hf]; exact hr3
      · intro q b
        show (((s.records.upsertBack p r).upsertBack p (r.removeAddress a force).1).peek q).bind
          (fun r => r.addrs.peek b) = _
        rw [tpeek]
        by_cases hq : q = p
        · subst hq
          simp only [↓reduceIte, Option.bind_some, Bool.false_eq_true, and_false, hf]
          have := hr4 b
          simpa using this
        · simp [hq, flag]

end C54
