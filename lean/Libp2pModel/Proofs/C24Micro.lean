import Libp2pModel.Proofs.C24Send
import Libp2pModel.Proofs.C26Keys2
/-!
# C24 — every endpoint method is a sequence of atomic frame events (refinement, part 1)

`Micro s s'` = one atomic event of one mplex endpoint, described through the part of the state the
end-to-end invariant looks at: configuration, `nextId`, the frames waiting in the inbound queue,
the pending queue, the emitted-but-undelivered frames (`wire ++ sinkBuf`) and, per substream id,
`(open for reading?, rx, acc)`.  `Steps` = finite sequences of such events.
-/
namespace C26
open C25 (Sid Role Frame)

structure Ent where
  ro : Bool
  rx : List (List Nat)
  acc : List (List Nat)

def entOf (s : State) (id : Sid) : Option Ent :=
  (s.get id).map fun x => ⟨x.st.recvOpen, x.rx, x.acc⟩

def itemFrame : InItem → Option Frame
  | .frame f => some f
  | _ => none

/-- the frames waiting in the inbound queue -/
def inFrames (s : State) : List Frame := s.inq.filterMap itemFrame

inductive Micro : State → State → Prop
  /-- nothing the invariant can see (flushes, wake-up bookkeeping, buffer → reader hand-over, …) -/
  | silent {s s' : State} (hc : s'.cfg = s.cfg) (hn : s'.nextId = s.nextId)
      (hi : inFrames s' = inFrames s) (hp : s'.pendQ = s.pendQ) (he : s'.emitted = s.emitted)
      (hent : ∀ id, entOf s' id = entOf s id) : Micro s s'
  /-- `on_error`: all substreams and pending frames are gone (possibly after taking one item) -/
  | fail {s s' : State} (hc : s'.cfg = s.cfg) (hn : s'.nextId = s.nextId)
      (hi : inFrames s' = inFrames s ∨ ∃ f, inFrames s = f :: inFrames s')
      (hp : s'.pendQ = []) (he : s'.emitted = s.emitted) (hent : ∀ id, entOf s' id = none) : Micro s s'
  /-- a pending `Reset`/`Close` enters the sink -/
  | pendOut {s s' : State} (f : Frame) (hc : s'.cfg = s.cfg) (hn : s'.nextId = s.nextId)
      (hi : inFrames s' = inFrames s) (hp : s.pendQ = f :: s'.pendQ) (he : s'.emitted = s.emitted ++ [f])
      (hent : ∀ id, entOf s' id = entOf s id) : Micro s s'
  | openAccept {s s' : State} (rid : Sid) (hc : s'.cfg = s.cfg) (hn : s'.nextId = s.nextId)
      (hi : inFrames s = .opn rid :: inFrames s') (hp : s'.pendQ = s.pendQ) (he : s'.emitted = s.emitted)
      (h0 : entOf s rid.mirror = none) (h1 : entOf s' rid.mirror = some ⟨true, [], []⟩)
      (h2 : ∀ j, j ≠ rid.mirror → entOf s' j = entOf s j) : Micro s s'
  | openRefuse {s s' : State} (rid : Sid) (hc : s'.cfg = s.cfg) (hn : s'.nextId = s.nextId)
      (hi : inFrames s = .opn rid :: inFrames s') (hp : s'.pendQ = s.pendQ ++ [.reset rid.mirror])
      (he : s'.emitted = s.emitted) (h0 : entOf s rid.mirror = none)
      (hent : ∀ id, entOf s' id = entOf s id) : Micro s s'
  | dataAccept {s s' : State} (rid : Sid) (d : List Nat) (e : Ent) (hc : s'.cfg = s.cfg)
      (hn : s'.nextId = s.nextId) (hi : inFrames s = .data rid d :: inFrames s') (hp : s'.pendQ = s.pendQ)
      (he : s'.emitted = s.emitted) (h0 : entOf s rid.mirror = some e) (hro : e.ro = true)
      (h1 : entOf s' rid.mirror = some ⟨true, e.rx ++ [d], e.acc⟩)
      (h2 : ∀ j, j ≠ rid.mirror → entOf s' j = entOf s j) : Micro s s'
  | dataDrop {s s' : State} (rid : Sid) (d : List Nat) (hc : s'.cfg = s.cfg) (hn : s'.nextId = s.nextId)
      (hi : inFrames s = .data rid d :: inFrames s') (hp : s'.pendQ = s.pendQ) (he : s'.emitted = s.emitted)
      (h0 : ∀ e, entOf s rid.mirror = some e → e.ro = false)
      (hent : ∀ id, entOf s' id = entOf s id) : Micro s s'
  | closeReset {s s' : State} (f : Frame) (rid : Sid) (hf : f = .close rid ∨ f = .reset rid)
      (hc : s'.cfg = s.cfg) (hn : s'.nextId = s.nextId) (hi : inFrames s = f :: inFrames s')
      (hp : s'.pendQ = s.pendQ) (he : s'.emitted = s.emitted)
      (h1 : entOf s' rid.mirror = (entOf s rid.mirror).map fun e => { e with ro := false })
      (h2 : ∀ j, j ≠ rid.mirror → entOf s' j = entOf s j) : Micro s s'
  | emitOpen {s s' : State} (hc : s'.cfg = s.cfg) (hn : s'.nextId = s.nextId + 1)
      (hi : inFrames s' = inFrames s) (hp : s'.pendQ = s.pendQ)
      (he : s'.emitted = s.emitted ++ [.opn ⟨s.nextId, .dialer⟩])
      (h1 : entOf s' ⟨s.nextId, .dialer⟩ = some ⟨true, [], []⟩)
      (h2 : ∀ j, j ≠ ⟨s.nextId, .dialer⟩ → entOf s' j = entOf s j) : Micro s s'
  | emitData {s s' : State} (id : Sid) (d : List Nat) (e : Ent) (hc : s'.cfg = s.cfg)
      (hn : s'.nextId = s.nextId) (hi : inFrames s' = inFrames s) (hp : s'.pendQ = s.pendQ)
      (he : s'.emitted = s.emitted ++ [.data id d]) (h0 : entOf s id = some e)
      (h1 : entOf s' id = some { e with acc := e.acc ++ [d] })
      (h2 : ∀ j, j ≠ id → entOf s' j = entOf s j) : Micro s s'
  | emitClose {s s' : State} (id : Sid) (hc : s'.cfg = s.cfg) (hn : s'.nextId = s.nextId)
      (hi : inFrames s' = inFrames s) (hp : s'.pendQ = s.pendQ)
      (he : s'.emitted = s.emitted ++ [.close id]) (h0 : (entOf s id).isSome = true)
      (hent : ∀ id, entOf s' id = entOf s id) : Micro s s'

inductive Steps : State → State → Prop
  | refl (s : State) : Steps s s
  | cons {a b c : State} (h : Micro a b) (t : Steps b c) : Steps a c

theorem Steps.single {a b : State} (h : Micro a b) : Steps a b := .cons h (.refl b)

theorem Steps.trans {a b c : State} (h1 : Steps a b) (h2 : Steps b c) : Steps a c := by
  induction h1 with
  | refl => exact h2
  | cons h _ ih => exact .cons h (ih h2)

theorem Micro.cfg {a b : State} (h : Micro a b) : b.cfg = a.cfg := by
  cases h <;> assumption

theorem Steps.cfg {a b : State} (h : Steps a b) : b.cfg = a.cfg := by
  induction h with
  | refl => rfl
  | cons h _ ih => rw [ih, h.cfg]

/-- a change confined to fields the invariant does not look at -/
theorem silent_of_fields {s s' : State} (hc : s'.cfg = s.cfg) (hn : s'.nextId = s.nextId)
    (hi : s'.inq = s.inq) (hp : s'.pendQ = s.pendQ) (he : s'.emitted = s.emitted)
    (hs : s'.subs = s.subs) : Steps s s' :=
  .single (.silent hc hn (by unfold inFrames; rw [hi]) hp he (by intro id; unfold entOf State.get; rw [hs]))

theorem entOf_put (s : State) (x : Sub) (id : Sid) :
    entOf (s.put x) id = if x.id = id then some ⟨x.st.recvOpen, x.rx, x.acc⟩ else entOf s id := by
  unfold entOf
  rw [get_put]
  split <;> rfl

theorem entOf_nil {s : State} (h : s.subs = []) (id : Sid) : entOf s id = none := by
  unfold entOf State.get; rw [h]; rfl

/-! ### the sink, pending frames, flush -/

theorem sinkReady_nextId (s : State) : (sinkReady s).1.nextId = s.nextId := by
  unfold sinkReady
  split
  · split <;> rfl
  · rfl

theorem sinkReady_steps (s : State) : Steps s (sinkReady s).1 := by
  have hc := sinkReady_core s
  exact silent_of_fields hc.1 (sinkReady_nextId s) hc.2.2.2.2.1 hc.2.2.1
    (sinkReady_emitted s) hc.2.1

theorem sendFrame_nextId (s : State) (f : Frame) : (sendFrame s f).1.nextId = s.nextId := by
  unfold sendFrame
  have h := sinkReady_nextId s
  rcases hsr : sinkReady s with ⟨s1, b⟩
  rw [hsr] at h
  cases b with
  | false => exact h
  | true =>
    simp only
    split
    · simpa [onError] using h
    · exact h

/-- `poll_send_frame` seen through the view -/
theorem sendFrame_view (s : State) (f : Frame) :
    (sendFrame s f).1.cfg = s.cfg ∧ (sendFrame s f).1.nextId = s.nextId ∧ (sendFrame s f).1.inq = s.inq ∧
    ((sendFrame s f).2 = .ready (.ok ()) →
      (sendFrame s f).1.subs = s.subs ∧ (sendFrame s f).1.pendQ = s.pendQ ∧
      (sendFrame s f).1.emitted = s.emitted ++ [f]) ∧
    ((sendFrame s f).2 = .pending →
      (sendFrame s f).1.subs = s.subs ∧ (sendFrame s f).1.pendQ = s.pendQ ∧
      (sendFrame s f).1.emitted = s.emitted) ∧
    (∀ k, (sendFrame s f).2 = .ready (.error k) →
      (sendFrame s f).1.subs = [] ∧ (sendFrame s f).1.pendQ = [] ∧ (sendFrame s f).1.emitted = s.emitted) := by
  refine ⟨(sendFrame_core s f).1, sendFrame_nextId s f, sendFrame_inq s f, ?_, ?_, ?_⟩
  · intro h
    have hk := sendFrame_keeps s f (by intro k; rw [h]; simp)
    exact ⟨hk.1, hk.2, (sendFrame_emitted s f).1 h⟩
  · intro h
    have hk := sendFrame_keeps s f (by intro k; rw [h]; simp)
    exact ⟨hk.1, hk.2, (sendFrame_emitted s f).2 (by rw [h]; simp)⟩
  · intro k h
    have he := (sendFrame_emitted s f).2 (by rw [h]; simp)
    refine ⟨?_, ?_, he⟩
    · unfold sendFrame at h ⊢
      rcases hsr : sinkReady s with ⟨s1, b⟩
      rw [hsr] at h
      cases b with
      | false => simp at h
      | true =>
        simp only at h ⊢
        split
        · rfl
        · rename_i hb; simp [hb] at h
    · unfold sendFrame at h ⊢
      rcases hsr : sinkReady s with ⟨s1, b⟩
      rw [hsr] at h
      cases b with
      | false => simp at h
      | true =>
        simp only at h ⊢
        split
        · rfl
        · rename_i hb; simp [hb] at h

theorem fail_of {s s' : State} (hc : s'.cfg = s.cfg) (hn : s'.nextId = s.nextId) (hi : s'.inq = s.inq)
    (hp : s'.pendQ = []) (he : s'.emitted = s.emitted) (hs : s'.subs = []) : Steps s s' :=
  .single (.fail hc hn (.inl (by unfold inFrames; rw [hi])) hp he (entOf_nil hs))

theorem sendPendingGo_steps : ∀ (l : List Frame) (s : State), s.pendQ = l → Steps s (sendPendingGo s l).1 := by
  intro l
  induction l with
  | nil =>
    intro s hl
    exact silent_of_fields rfl rfl rfl (by simp [sendPendingGo, hl]) rfl rfl
  | cons f rest ih =>
    intro s hl
    simp only [sendPendingGo]
    have hv := sendFrame_view { s with pendQ := rest } f
    rcases hsf : sendFrame { s with pendQ := rest } f with ⟨s', r⟩
    rw [hsf] at hv
    obtain ⟨hc, hn, hi, hok, hpend, herr⟩ := hv
    simp only at hc hn hi hok hpend herr
    cases r with
    | pending =>
      obtain ⟨h1, h2, h3⟩ := hpend rfl
      exact silent_of_fields hc hn hi (by simp [hl]) h3 h1
    | ready e =>
      cases e with
      | error k =>
        obtain ⟨h1, h2, h3⟩ := herr k rfl
        exact fail_of hc hn hi h2 h3 h1
      | ok u =>
        obtain ⟨h1, h2, h3⟩ := hok rfl
        refine .cons (.pendOut f hc hn (by unfold inFrames; rw [hi]) (by rw [hl, h2]) h3
          (by intro id; unfold entOf State.get; rw [h1])) (ih s' h2)

theorem sendPending_steps (s : State) : Steps s (sendPending s).1 := sendPendingGo_steps _ s rfl

theorem pollFlush_steps (s : State) : Steps s (pollFlush s).1 := by
  unfold pollFlush
  split
  · exact .refl _
  · exact .refl _
  · have h := sendPending_steps s
    rcases hsp : sendPending s with ⟨s1, r⟩
    rw [hsp] at h
    cases r with
    | pending => exact h
    | ready e =>
      cases e with
      | error k => exact h
      | ok u =>
        simp only
        split
        · exact h
        · exact h.trans (silent_of_fields rfl rfl rfl rfl (by simp [State.emitted]) rfl)

theorem readFlush_steps (s : State) (sid : Option Sid) : Steps s (readFlush s sid).1 := by
  unfold readFlush
  split
  · split
    · have hp := pollFlush_steps s
      rcases hpf : pollFlush s with ⟨s2, r2⟩
      rw [hpf] at hp
      cases r2 with
      | pending => exact hp
      | ready e => cases e with
        | error k => exact hp
        | ok u => exact hp.trans (silent_of_fields rfl rfl rfl rfl rfl rfl)
    · exact .refl _
  · exact .refl _

end C26
