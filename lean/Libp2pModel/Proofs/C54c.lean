import Libp2pModel.Proofs.C54b
/-!
# C54 — every public-API call of the model is accepted by the set-level reference (`Post`)
-/
set_option linter.unusedSimpArgs false
set_option linter.unusedVariables false

namespace C54
open Lru

/-- what one (non-`poll`) step of the model guarantees relative to the reference's reading of the op -/
structure Post (s : State) (perm : List Pair) (op : Op) (s' : State) (out : Out)
    (rr : Ref × Option Bool) : Prop where
  inv : Inv s'
  cfg : s'.cfg = s.cfg
  ret : ∀ b, rr.2 = some b → out = Out.bool b
  pend : s'.pending = s.pending ++ rr.1.evs
  sub : ∀ q b, (flag s' q b).isSome → (q, b) ∈ rr.1.cur
  sup : rr.1.newKey = false → ∀ q b, (q, b) ∈ rr.1.cur → (flag s' q b).isSome
  perm' : ∀ q b, flag s' q b = some true ↔
      ((((q, b) ∈ perm ∧ op ≠ Op.remove q b) ∨ op = Op.add q b) ∧ (flag s' q b).isSome)

/-- ops that change no address (or only evict) -/
theorem post_of_flags {s s' : State} {perm cur : List Pair} {op : Op} {out : Out} {r : Ref}
    (h' : Inv s') (hcfg : s'.cfg = s.cfg) (hpend : s'.pending = s.pending)
    (hsub : ∀ q b, flag s' q b = none ∨ flag s' q b = flag s q b)
    (hsame : r.newKey = false → ∀ q b, flag s' q b = flag s q b)
    (hperm : PermRel s perm) (hcur : Cur s cur) (hrc : r.cur = cur) (hre : r.evs = [])
    (hop1 : ∀ q b, op ≠ Op.add q b) (hop2 : ∀ q b, op ≠ Op.remove q b) :
    Post s perm op s' out (r, none) := by
  refine ⟨h', hcfg, by simp, by simp [hpend, hre], ?_, ?_, ?_⟩
  · intro q b hs
    rcases hsub q b with hn | he
    · rw [hn] at hs; cases hs
    · rw [he] at hs; simp only; rw [hrc]; exact (hcur q b).2 hs
  · intro hnk q b hm
    simp only at hm; rw [hrc] at hm
    rw [hsame hnk q b]; exact (hcur q b).1 hm
  · intro q b
    simp only [hop1 q b, hop2 q b, ne_eq, not_false_eq_true, and_true, or_false]
    rcases hsub q b with hn | he
    · simp [hn]
    · rw [he]
      constructor
      · intro ht; exact ⟨(hperm q b).2 ht, by simp [ht]⟩
      · intro ⟨hm, _⟩; exact (hperm q b).1 hm

theorem post_id {s : State} {perm cur : List Pair} {op : Op} {out : Out}
    (h : Inv s) (hperm : PermRel s perm) (hcur : Cur s cur)
    (hop1 : ∀ q b, op ≠ Op.add q b) (hop2 : ∀ q b, op ≠ Op.remove q b) :
    Post s perm op s out (Ref.start cur, none) :=
  post_of_flags h rfl rfl (fun _ _ => Or.inr rfl) (fun _ _ _ => rfl) hperm hcur rfl rfl hop1 hop2

/-- an op whose last action is `add_address_inner(p, a, false)` after non-forced removals -/
theorem post_final_add {s s1 : State} {perm : List Pair} {op : Op} {r : Ref}
    (h1 : Inv s1) (hcfg1 : s1.cfg = s.cfg) (hperm1 : PermRel s1 perm) (hcur1 : Cur s1 r.cur)
    (hpend1 : s1.pending = s.pending ++ r.evs) (hnk : r.newKey = false)
    (p : Peer) (a : Addr)
    (hop1 : ∀ q b, op ≠ Op.add q b) (hop2 : ∀ q b, op ≠ Op.remove q b) :
    Post s perm op (addInner true s1 p a false).1 Out.unit ((Ref.add r p a false).1, none) := by
  obtain ⟨j1, j2, j3, j4, j5, j6, j7, j8⟩ := sim_add h1 hperm1 hcur1 hpend1 p a false
  refine ⟨j1, j2.trans hcfg1, by simp, j4, j5, ?_, ?_⟩
  · intro hnk'
    exact (j7 (j6 hnk')).2
  · intro q b
    rw [j8 q b]
    simp [hop1 q b, hop2 q b]

theorem step_post {s : State} {perm cur : List Pair} {peers : List Peer} (h : Inv s)
    (hperm : PermRel s perm) (hcur : Cur s cur)
    (hpeers : ∀ p, peers.contains p = (s.records.peek p).isSome)
    (op : Op) (hop : op ≠ Op.poll) :
    Post s perm op (step s op).1 (step s op).2 (refOp s.cfg perm peers cur op) := by
  have hstart : s.pending = s.pending ++ (Ref.start cur).evs := by simp [Ref.start]
  cases op with
  | poll => exact absurd rfl hop
  | add p a =>
    obtain ⟨j1, j2, j3, j4, j5, j6, j7, j8⟩ :=
      sim_add h hperm (r := Ref.start cur) hcur hstart p a true
    show Post s perm (Op.add p a) (addInner true s p a true).1 (Out.bool (addInner true s p a true).2)
      ((Ref.add (Ref.start cur) p a true).1, some (Ref.add (Ref.start cur) p a true).2)
    refine ⟨j1, j2, ?_, j4, j5, fun hnk => (j7 (j6 hnk)).2, ?_⟩
    · intro b hb; simp only [Option.some.injEq] at hb; rw [← hb, j3]
    · intro q b
      rw [j8 q b]
      simp only [true_and, ne_eq, reduceCtorEq, not_false_eq_true, and_true, Op.add.injEq]
      constructor
      · rintro ⟨hm | ⟨rfl, rfl⟩, hs⟩
        · exact ⟨Or.inl hm, hs⟩
        · exact ⟨Or.inr ⟨rfl, rfl⟩, hs⟩
      · rintro ⟨hm | ⟨rfl, rfl⟩, hs⟩
        · exact ⟨Or.inl hm, hs⟩
        · exact ⟨Or.inr ⟨rfl, rfl⟩, hs⟩
  | newExt p a =>
    exact post_final_add h rfl hperm (r := Ref.start cur) hcur hstart rfl p a (by simp) (by simp)
  | remove p a =>
    obtain ⟨i1, i2, i3, i4, i5⟩ := removeInner_spec h p a true
    have hc := hcur p a
    show Post s perm (Op.remove p a) (removeInner s p a true).1 (Out.bool (removeInner s p a true).2)
      ((Ref.remove perm (Ref.start cur) p a true).1, some (Ref.remove perm (Ref.start cur) p a true).2)
    have hret : (removeInner s p a true).2 = (flag s p a).isSome := by
      rw [i3]; cases flag s p a <;> simp
    have hy : Ref.remove perm (Ref.start cur) p a true =
        if (flag s p a).isSome then
          ({ Ref.start cur with cur := cur.filter (fun x => x != (p, a)), evs := [Event.removed p a] }, true)
        else (Ref.start cur, false) := by
      unfold Ref.remove
      by_cases hm : (p, a) ∈ cur
      · simp [Ref.start, hm, hc.1 hm]
      · have : ¬ (flag s p a).isSome = true := fun hh => hm (hc.2 hh)
        simp [Ref.start, hm, this]
    rw [hy]
    cases hs : (flag s p a).isSome with
    | true =>
      rw [hs] at hret
      rw [hret] at i4 i5
      simp only [↓reduceIte]
      refine ⟨i1, i2, by simp [hret], by simpa using i4, ?_, ?_, ?_⟩
      · intro q b hsome
        rw [i5] at hsome
        simp only [List.mem_filter, bne_iff_ne, ne_eq, Prod.mk.injEq]
        by_cases hqb : q = p ∧ b = a
        · simp [hqb] at hsome
        · simp only [hqb, false_and, ↓reduceIte] at hsome
          exact ⟨(hcur q b).2 hsome, by simpa using hqb⟩
      · intro _ q b hm
        simp only [List.mem_filter, bne_iff_ne, ne_eq, Prod.mk.injEq] at hm
        rw [i5]
        have : ¬ (q = p ∧ b = a) := by simpa using hm.2
        simp only [this, false_and, ↓reduceIte]
        exact (hcur q b).1 hm.1
      · intro q b
        rw [i5]
        by_cases hqb : q = p ∧ b = a
        · obtain ⟨rfl, rfl⟩ := hqb; simp
        · have hne : ¬ (p = q ∧ a = b) := fun ⟨e1, e2⟩ => hqb ⟨e1.symm, e2.symm⟩
          simp only [hqb, false_and, ↓reduceIte, ne_eq, Op.remove.injEq, hne, not_false_eq_true,
            and_true, reduceCtorEq, or_false]
          constructor
          · intro ht; exact ⟨(hperm q b).2 ht, by simp [ht]⟩
          · intro ⟨hm, _⟩; exact (hperm q b).1 hm
    | false =>
      rw [hs] at hret
      rw [hret] at i4 i5
      simp only [Bool.false_eq_true, ↓reduceIte]
      have hnone : flag s p a = none := by cases hh : flag s p a <;> simp_all
      refine ⟨i1, i2, by simp [hret], by simpa [Ref.start] using i4, ?_, ?_, ?_⟩
      · intro q b hsome
        rw [i5] at hsome
        simp only [Bool.false_eq_true, and_false, ↓reduceIte] at hsome
        exact (hcur q b).2 hsome
      · intro _ q b hm
        rw [i5]
        simp only [Bool.false_eq_true, and_false, ↓reduceIte]
        exact (hcur q b).1 hm
      · intro q b
        rw [i5]
        simp only [Bool.false_eq_true, and_false, ↓reduceIte, ne_eq, Op.remove.injEq, reduceCtorEq,
          or_false]
        constructor
        · intro ht
          refine ⟨⟨(hperm q b).2 ht, ?_⟩, by simp [ht]⟩
          rintro ⟨rfl, rfl⟩
          rw [hnone] at ht; cases ht
        · intro ⟨⟨hm, _⟩, _⟩; exact (hperm q b).1 hm
  | connEst p remote failed dialer =>
    cases dialer with
    | false =>
      exact post_id h hperm hcur (by simp) (by simp)
    | true =>
      show Post s perm _ (addInner true (if s.cfg.removeOnErr then removeMany s p failed else s) p remote false).1 Out.unit
        ((Ref.add (if s.cfg.removeOnErr then Ref.removeMany perm (Ref.start cur) p failed else Ref.start cur) p remote false).1, none)
      cases hrm : s.cfg.removeOnErr with
      | false =>
        simp only [Bool.false_eq_true, ↓reduceIte]
        exact post_final_add h rfl hperm (r := Ref.start cur) hcur hstart rfl p remote (by simp) (by simp)
      | true =>
        simp only [↓reduceIte]
        obtain ⟨k1, k2, k3, k4, k5, k6⟩ :=
          sim_removeMany (perm := perm) (base := s.pending) p failed h hperm (r := Ref.start cur) hcur hstart
        exact post_final_add k1 k2 k3 k4 k5 (by rw [k6]; rfl) p remote (by simp) (by simp)
  | dialFail peer err =>
    show Post s perm _ (onSwarm true s (Op.dialFail peer err)) Out.unit _
    unfold onSwarm refOp
    cases hrm : s.cfg.removeOnErr with
    | false =>
      simp only [Bool.not_false, ↓reduceIte]
      exact post_id h hperm hcur (by simp) (by simp)
    | true =>
      simp only [Bool.not_true, Bool.false_eq_true, ↓reduceIte]
      cases peer with
      | none => exact post_id h hperm hcur (by simp) (by simp)
      | some p =>
        cases err with
        | other => exact post_id h hperm hcur (by simp) (by simp)
        | transport addrs =>
          obtain ⟨k1, k2, k3, k4, k5, k6⟩ :=
            sim_removeMany (perm := perm) (base := s.pending) p addrs h hperm (r := Ref.start cur) hcur hstart
          simp only
          refine ⟨k1, k2, by simp, k5, fun q b hs => (k4 q b).2 hs, fun _ q b hm => (k4 q b).1 hm, ?_⟩
          intro q b
          simp only [ne_eq, reduceCtorEq, not_false_eq_true, and_true, or_false]
          constructor
          · intro ht; exact ⟨(k3 q b).2 ht, by simp [ht]⟩
          · intro ⟨hm, _⟩; exact (k3 q b).1 hm
        | wrongPeer obtained addr =>
          obtain ⟨j1, j2, j3, j4, j5, j6, j7⟩ :=
            sim_remove_nf h hperm (r := Ref.start cur) hcur hstart p addr
          simp only
          rw [j6]
          cases hret : (Ref.remove perm (Ref.start cur) p addr false).2 with
          | true =>
            simp only [↓reduceIte]
            exact post_final_add j1 j2 j3 j4 j5 (by rw [j7]; rfl) obtained addr (by simp) (by simp)
          | false =>
            simp only [Bool.false_eq_true, ↓reduceIte]
            refine ⟨j1, j2, by simp, j5, fun q b hs => (j4 q b).2 hs, fun _ q b hm => (j4 q b).1 hm, ?_⟩
            intro q b
            simp only [ne_eq, reduceCtorEq, not_false_eq_true, and_true, or_false]
            constructor
            · intro ht; exact ⟨(j3 q b).2 ht, by simp [ht]⟩
            · intro ⟨hm, _⟩; exact (j3 q b).1 hm
  | otherSwarm => exact post_id h hperm hcur (by simp) (by simp)
  | getCustom p => exact post_id h hperm hcur (by simp) (by simp)
  | addrsOf p => exact post_id h hperm hcur (by simp) (by simp)
  | getCustomMut p =>
    obtain ⟨g1, g2⟩ := getCustomMut_spec h p
    exact post_of_flags g1 rfl rfl (fun q b => Or.inr (g2 q b)) (fun _ => g2) hperm hcur rfl rfl
      (by simp) (by simp)
  | takeCustom p =>
    obtain ⟨g1, g2, g3, g4⟩ := takeCustom_spec h p
    exact post_of_flags g1 g2 g3 (fun q b => Or.inr (g4 q b)) (fun _ => g4) hperm hcur rfl rfl
      (by simp) (by simp)
  | insertCustom p d =>
    obtain ⟨g1, g2, g3, g4, g5⟩ := insertCustom_spec h p d
    show Post s perm _ (insertCustom s p d) Out.unit ({ Ref.start cur with newKey := !peers.contains p }, none)
    refine post_of_flags g1 g2 g3 g4 ?_ hperm hcur rfl rfl (by simp) (by simp)
    intro hnk
    simp only [Bool.not_eq_eq_eq_not, Bool.not_false] at hnk
    rw [hpeers p] at hnk
    exact g5 hnk

/-! ## the reference never removes a permanent pair in a swarm-event op, and a new key means an
`added` event -/

theorem Ref.remove_keeps {perm : List Pair} {r : Ref} {x : Pair} (p : Peer) (a : Addr)
    (hx : x ∈ perm) (hc : x ∈ r.cur) : x ∈ (Ref.remove perm r p a false).1.cur := by
  unfold Ref.remove
  by_cases hm : (p, a) ∈ perm
  · simp [hm, hc]
  · by_cases hm2 : (p, a) ∈ r.cur
    · simp only [hm2, List.contains_eq_mem, decide_true, Bool.false_or, hm, decide_false,
        Bool.not_false, Bool.and_self, ↓reduceIte, List.mem_filter, hc, bne_iff_ne, ne_eq, true_and]
      intro e; exact hm (e ▸ hx)
    · simp [hm2, hc]

theorem Ref.removeMany_keeps {perm : List Pair} {x : Pair} (p : Peer) (l : List Addr) (hx : x ∈ perm) :
    ∀ {r : Ref}, x ∈ r.cur → x ∈ (Ref.removeMany perm r p l).cur := by
  induction l with
  | nil => intro r hc; exact hc
  | cons f t ih =>
    intro r hc
    simp only [Ref.removeMany, List.foldl_cons]
    exact ih (Ref.remove_keeps p f hx hc)

theorem Ref.add_keeps {r : Ref} {x : Pair} (p : Peer) (a : Addr) (isPerm : Bool) (hc : x ∈ r.cur) :
    x ∈ (Ref.add r p a isPerm).1.cur := by
  unfold Ref.add
  by_cases hm : (p, a) ∈ r.cur <;> simp [hm, hc]

theorem refOp_keeps_perm (cfg : Cfg) (perm : List Pair) (peers : List Peer) (cur : List Pair)
    (op : Op) (hauto : isAuto op = true) {x : Pair} (hx : x ∈ perm) (hc : x ∈ cur) :
    x ∈ (refOp cfg perm peers cur op).1.cur := by
  cases op with
  | newExt p a => exact Ref.add_keeps p a false hc
  | connEst p remote failed dialer =>
    unfold refOp
    cases dialer with
    | false => exact hc
    | true =>
      simp only [↓reduceIte]
      apply Ref.add_keeps
      cases cfg.removeOnErr with
      | false => exact hc
      | true => exact Ref.removeMany_keeps p failed hx hc
  | dialFail peer err =>
    unfold refOp
    cases cfg.removeOnErr with
    | false => exact hc
    | true =>
      simp only [Bool.not_true, Bool.false_eq_true, ↓reduceIte]
      cases peer with
      | none => exact hc
      | some p =>
        cases err with
        | other => exact hc
        | transport addrs => exact Ref.removeMany_keeps p addrs hx hc
        | wrongPeer obtained addr =>
          simp only
          have := Ref.remove_keeps (r := Ref.start cur) p addr hx hc
          cases (Ref.remove perm (Ref.start cur) p addr false).2 with
          | true => exact Ref.add_keeps obtained addr false this
          | false => exact this
  | otherSwarm => exact hc
  | add p a => simp [isAuto] at hauto
  | remove p a => simp [isAuto] at hauto
  | insertCustom p d => simp [isAuto] at hauto
  | takeCustom p => simp [isAuto] at hauto
  | getCustomMut p => simp [isAuto] at hauto
  | getCustom p => simp [isAuto] at hauto
  | addrsOf p => simp [isAuto] at hauto
  | poll => simp [isAuto] at hauto

theorem Ref.remove_newKey (perm : List Pair) (r : Ref) (p : Peer) (a : Addr) (f : Bool) :
    (Ref.remove perm r p a f).1.newKey = r.newKey := by
  unfold Ref.remove; split <;> rfl

theorem Ref.removeMany_newKey (perm : List Pair) (p : Peer) (l : List Addr) :
    ∀ r : Ref, (Ref.removeMany perm r p l).newKey = r.newKey := by
  induction l with
  | nil => intro r; rfl
  | cons f t ih =>
    intro r
    simp only [Ref.removeMany, List.foldl_cons]
    exact (ih _).trans (Ref.remove_newKey perm r p f false)

theorem Ref.add_newKey {r : Ref} (p : Peer) (a : Addr) (isPerm : Bool)
    (h : (Ref.add r p a isPerm).1.newKey = true) (h0 : r.newKey = false) :
    Event.added p a isPerm ∈ (Ref.add r p a isPerm).1.evs := by
  unfold Ref.add at h ⊢
  by_cases hm : (p, a) ∈ r.cur
  · simp [hm, h0] at h
  · simp [hm]

/-- in a swarm-event op a new key can only come from the final `add_address_inner(.., false)`,
which then emits a `PeerAddressAdded{is_permanent: false}` -/
theorem refOp_newKey_added (cfg : Cfg) (perm : List Pair) (peers : List Peer) (cur : List Pair)
    (op : Op) (hauto : isAuto op = true) (h : (refOp cfg perm peers cur op).1.newKey = true) :
    ∃ q b, Event.added q b false ∈ (refOp cfg perm peers cur op).1.evs := by
  cases op with
  | newExt p a => exact ⟨p, a, Ref.add_newKey p a false h rfl⟩
  | connEst p remote failed dialer =>
    unfold refOp at h ⊢
    cases dialer with
    | false => simp [Ref.start] at h
    | true =>
      simp only [↓reduceIte] at h ⊢
      refine ⟨p, remote, Ref.add_newKey p remote false h ?_⟩
      cases cfg.removeOnErr with
      | false => rfl
      | true => exact Ref.removeMany_newKey perm p failed _
  | dialFail peer err =>
    cases hrm : cfg.removeOnErr with
    | false => simp [refOp, hrm, Ref.start] at h
    | true =>
      cases peer with
      | none => simp [refOp, hrm, Ref.start] at h
      | some p =>
        cases err with
        | other => simp [refOp, hrm, Ref.start] at h
        | transport addrs =>
          simp only [refOp, hrm, Bool.not_true, Bool.false_eq_true, ↓reduceIte] at h
          rw [Ref.removeMany_newKey] at h
          simp [Ref.start] at h
        | wrongPeer obtained addr =>
          simp only [refOp, hrm, Bool.not_true, Bool.false_eq_true, ↓reduceIte] at h ⊢
          cases hr : (Ref.remove perm (Ref.start cur) p addr false).2 with
          | true =>
            rw [hr] at h
            simp only [↓reduceIte] at h ⊢
            exact ⟨obtained, addr, Ref.add_newKey obtained addr false h (Ref.remove_newKey _ _ _ _ _)⟩
          | false =>
            rw [hr] at h
            simp only [Bool.false_eq_true, ↓reduceIte] at h
            rw [Ref.remove_newKey] at h
            simp [Ref.start] at h
  | otherSwarm => simp [refOp, Ref.start] at h
  | add p a => simp [isAuto] at hauto
  | remove p a => simp [isAuto] at hauto
  | insertCustom p d => simp [isAuto] at hauto
  | takeCustom p => simp [isAuto] at hauto
  | getCustomMut p => simp [isAuto] at hauto
  | getCustom p => simp [isAuto] at hauto
  | addrsOf p => simp [isAuto] at hauto
  | poll => simp [isAuto] at hauto

end C54
