import Libp2pModel.Proofs.C26Frames
namespace C26
open C25 (Sid Role Frame)

@[simp] theorem put_cfg (s : State) (x : Sub) : (s.put x).cfg = s.cfg := rfl
@[simp] theorem put_blocking (s : State) (x : Sub) : (s.put x).blocking = s.blocking := rfl
@[simp] theorem put_pendQ (s : State) (x : Sub) : (s.put x).pendQ = s.pendQ := rfl
@[simp] theorem del_cfg (s : State) (i : Sid) : (s.del i).cfg = s.cfg := rfl
@[simp] theorem del_blocking (s : State) (i : Sid) : (s.del i).blocking = s.blocking := rfl
@[simp] theorem del_pendQ (s : State) (i : Sid) : (s.del i).pendQ = s.pendQ := rfl

theorem insertSub_insertSub (l : List Sub) (a b : Sub) (h : a.id = b.id) :
    insertSub (insertSub l a) b = insertSub l b := by
  simp only [insertSub, removeSub, List.filter_cons, h, beq_self_eq_true, Bool.not_true,
    Bool.false_eq_true, ↓reduceIte, List.filter_filter, Bool.and_self]

theorem put_put (s : State) (a b : Sub) (h : a.id = b.id) : (s.put a).put b = s.put b := by
  simp only [State.put, insertSub_insertSub _ _ _ h]

/-- with no blocking stream, no buffer is over-full in `Block` mode; in `ResetStream` mode an
over-full buffer belongs to a `Reset` substream -/
theorem SubOk_not_overfull {c : Cfg} {x : Sub} (h : SubOk c none x) (hr : x.st.recvOpen = true) :
    x.buf.length ≤ c.maxBuf := by
  rcases h.1 with h1 | ⟨_, h2⟩
  · exact h1
  · by_cases hb : c.block
    · simp [hb] at h2
    · simp only [hb] at h2
      have : x.st = .reset := by simpa using h2
      rw [this] at hr; simp [SS.recvOpen] at hr

theorem SubOk_reblock {c : Cfg} {y : Sub} (b : Option Sid) (h : SubOk c none y) (hb : c.block = true) :
    SubOk c b y := by
  obtain ⟨a1, a2, a3⟩ := h
  refine ⟨?_, a2, a3⟩
  rcases a1 with a1 | ⟨_, a1'⟩
  · exact .inl a1
  · simp [hb] at a1'

/-- `buffer`: called only right after a frame was read, i.e. with no blocking stream; the
`debug_assert!` never fires -/
theorem Inv_buffer {s : State} (hi : Inv s) (hbn : s.blocking = none) (id : Sid) (d : List Nat) :
    Inv (buffer s id d).1 ∧ (buffer s id d).1.cfg = s.cfg ∧ (buffer s id d).2 ≠ .error .panic := by
  unfold buffer
  split
  · exact ⟨hi, rfl, by simp⟩
  · rename_i x hx
    have hg := Inv_get hi hx
    have hx' : s.get x.id = some x := by rw [hg.2]; exact hx
    have hid := hg.2
    split
    · exact ⟨hi, rfl, by simp⟩
    · rename_i hro
      have hro' : x.st.recvOpen = true := by simpa using hro
      have hok := hg.1
      rw [hbn] at hok
      have hle := SubOk_not_overfull hok hro'
      split
      · omega
      · simp only
        -- the new entry
        obtain ⟨a1, a2, tail, a3, a4, a5⟩ := hg.1
        have hrx : x.rx ++ [d] = x.dl ++ (x.buf ++ [d]) := by rw [a2]; simp
        split
        · rename_i hover
          simp only [List.length_append, List.length_cons, List.length_nil, put_cfg] at hover
          split
          · -- Block: this substream now blocks
            rename_i hblk
            simp only [put_cfg] at hblk
            refine ⟨⟨?_, hi.2.1, ?_⟩, rfl, by simp⟩
            · have := len_insert_present (x := { x with buf := x.buf ++ [d], rx := x.rx ++ [d] }) hx'
              have := hi.1
              simp only [State.put]; omega
            · intro y hy
              simp only [State.put] at hy ⊢
              rcases mem_insertSub hy with rfl | ⟨hm, _⟩
              · refine ⟨.inr ⟨by simp; omega, by simp [hblk, hid]⟩, hrx, tail, a3, a4, a5⟩
              · have := hi.2.2 y hm
                rw [hbn] at this
                exact SubOk_reblock _ this hblk
          · -- ResetStream
            rename_i hblk
            simp only [put_cfg] at hblk
            have hi1 : Inv (s.put { x with buf := x.buf ++ [d], rx := x.rx ++ [d], st := .reset }) := by
              refine Inv_put_present hi hx' ?_
              refine ⟨.inr ⟨by simp; omega, by simp [hblk]⟩, hrx, tail, a3, a4, fun _ => by simp⟩
            by_cases hge : s.pendQ.length ≥ s.cfg.maxSubs + EXTRA_PENDING_FRAMES
            · simp only [checkMaxPending, put_pendQ, put_cfg, hge, ↓reduceIte]
              exact ⟨Inv_onError _ _, by simp [onError], by simp⟩
            · simp only [checkMaxPending, put_pendQ, put_cfg, hge, ↓reduceIte, put_put _ _ _ rfl]
              have hp := Inv_push_pend hi1 (by simp only [put_pendQ, put_cfg]; omega) (.reset id)
              refine ⟨Inv_congr hp ?_ ?_ ?_ ?_, ?_, by simp⟩
              · rfl
              · show insertSub (insertSub s.subs { x with buf := x.buf ++ [d], rx := x.rx ++ [d] })
                    { x with buf := x.buf ++ [d], rx := x.rx ++ [d], st := .reset } = insertSub s.subs _
                exact insertSub_insertSub _ _ _ rfl
              · rfl
              · rfl
              · simp
        · rename_i hnover
          simp only [List.length_append, List.length_cons, List.length_nil, put_cfg] at hnover
          refine ⟨Inv_put_present hi hx' ?_, rfl, by simp⟩
          exact ⟨.inl (by simp; omega), hrx, tail, a3, a4, a5⟩

end C26
