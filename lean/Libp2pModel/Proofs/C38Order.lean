import Libp2pModel.Model.C38
/-!
# C38 — helper lemmas: the state machine `ClosestBucketsIter` equals its closed form
-/
namespace C38

/-- set bits below `i`, descending -/
def desc (d i : Nat) : List Nat := (List.range i).reverse.filter fun j => d.testBit j

/-- clear bits in `[s, s+n)`, ascending -/
def clearFrom (d s n : Nat) : List Nat := (List.range' s n).filter fun j => !d.testBit j

theorem desc_succ (d i : Nat) :
    desc d (i + 1) = if d.testBit i then i :: desc d i else desc d i := by
  unfold desc
  rw [List.range_succ, List.reverse_append]
  simp only [List.reverse_cons, List.reverse_nil, List.nil_append, List.singleton_append,
    List.filter_cons]

theorem clearFrom_succ (d s n : Nat) :
    clearFrom d s (n + 1) = if !d.testBit s then s :: clearFrom d (s + 1) n else clearFrom d (s + 1) n := by
  unfold clearFrom
  rw [List.range'_succ, List.filter_cons]

theorem clearFrom_zero (d s : Nat) : clearFrom d s 0 = [] := rfl

/-- `next_in` finds the highest set bit below `i` -/
theorem nextIn_spec (d : Nat) : ∀ i,
    (nextIn d i = none → desc d i = [] ∧ (0 < i → d.testBit 0 = false)) ∧
    (∀ j, nextIn d i = some j → j < i ∧ d.testBit j = true ∧ desc d i = j :: desc d j) := by
  intro i
  induction i with
  | zero =>
    refine ⟨fun _ => ⟨rfl, fun h => absurd h (Nat.lt_irrefl 0)⟩, fun j h => ?_⟩
    simp [nextIn] at h
  | succ i ih =>
    by_cases hb : d.testBit i = true
    · constructor
      · intro h; simp [nextIn, hb] at h
      · intro j h
        simp only [nextIn, hb, if_true, Option.some.injEq] at h
        subst h
        exact ⟨Nat.lt_succ_self _, hb, by rw [desc_succ, if_pos hb]⟩
    · have hb' : d.testBit i = false := by simpa using hb
      constructor
      · intro h
        simp only [nextIn, hb', Bool.false_eq_true, if_false] at h
        have := ih.1 h
        refine ⟨by rw [desc_succ, hb']; simpa using this.1, fun _ => ?_⟩
        by_cases hi : i = 0
        · subst hi; exact hb'
        · exact this.2 (Nat.pos_of_ne_zero hi)
      · intro j h
        simp only [nextIn, hb', Bool.false_eq_true, if_false] at h
        have ⟨h1, h2, h3⟩ := ih.2 j h
        exact ⟨Nat.lt_succ_of_lt h1, h2, by rw [desc_succ, hb']; simpa using h3⟩

/-- `next_out`'s scan finds the lowest clear bit in `[s, s+n)` -/
theorem findClear_spec (d : Nat) : ∀ n s,
    (findClear d s n = none → clearFrom d s n = []) ∧
    (∀ j, findClear d s n = some j →
      ∃ m, s ≤ j ∧ j + 1 + m = s + n ∧ clearFrom d s n = j :: clearFrom d (j + 1) m) := by
  intro n
  induction n with
  | zero =>
    intro s
    refine ⟨fun _ => rfl, fun j h => ?_⟩
    simp [findClear] at h
  | succ n ih =>
    intro s
    by_cases hb : d.testBit s = true
    · constructor
      · intro h
        simp only [findClear, hb, Bool.not_true, Bool.false_eq_true, if_false] at h
        rw [clearFrom_succ]; simp only [hb, Bool.not_true, Bool.false_eq_true, if_false]
        exact (ih (s + 1)).1 h
      · intro j h
        simp only [findClear, hb, Bool.not_true, Bool.false_eq_true, if_false] at h
        obtain ⟨m, h1, h2, h3⟩ := (ih (s + 1)).2 j h
        refine ⟨m, by omega, by omega, ?_⟩
        rw [clearFrom_succ]; simp only [hb, Bool.not_true, Bool.false_eq_true, if_false]
        exact h3
    · have hb' : d.testBit s = false := by simpa using hb
      constructor
      · intro h; simp [findClear, hb'] at h
      · intro j h
        simp only [findClear, hb', Bool.not_false, if_true, Option.some.injEq] at h
        subst h
        refine ⟨n, Nat.le_refl _, by omega, ?_⟩
        rw [clearFrom_succ]; simp [hb']

/-- zooming out from `i` yields the clear bits above `i`, ascending -/
theorem drain_zoomOut (d : Nat) : ∀ n i f, i + 1 + n = 256 → n < f →
    drain (next d) f (.zoomOut i) = clearFrom d (i + 1) n := by
  intro n
  induction n using Nat.strongRecOn with
  | _ n ih =>
    intro i f hin hf
    obtain ⟨f', rfl⟩ : ∃ f', f = f' + 1 := ⟨f - 1, by omega⟩
    have hno : nextOut d i = findClear d (i + 1) n := by
      unfold nextOut NUM_BUCKETS
      congr 1
      omega
    simp only [drain, next, nextZoomOut, hno]
    cases hfc : findClear d (i + 1) n with
    | none =>
      simp only
      exact ((findClear_spec d n (i + 1)).1 hfc).symm
    | some j =>
      simp only
      obtain ⟨m, h1, h2, h3⟩ := (findClear_spec d n (i + 1)).2 j hfc
      rw [h3, ih m (by omega) j f' (by omega) (by omega)]

/-- what follows the descending part: bucket 0 if it has not been produced yet, then the clear
bits from 1 upwards -/
def tailOf (d i : Nat) : List Nat :=
  (if 0 < i ∧ d.testBit 0 = false then [0] else []) ++ clearFrom d 1 255

/-- zooming in from `i` (the last index produced) -/
theorem drain_zoomIn (d : Nat) : ∀ i f, i + 258 ≤ f →
    drain (next d) f (.zoomIn i) = desc d i ++ tailOf d i := by
  intro i
  induction i using Nat.strongRecOn with
  | _ i ih =>
    intro f hf
    obtain ⟨f', rfl⟩ : ∃ f', f = f' + 1 := ⟨f - 1, by omega⟩
    cases hni : nextIn d i with
    | some j =>
      obtain ⟨h1, h2, h3⟩ := (nextIn_spec d i).2 j hni
      simp only [drain, next, hni]
      rw [ih j h1 f' (by omega), h3]
      simp only [List.cons_append, List.cons.injEq, true_and]
      congr 1
      unfold tailOf
      by_cases hj : j = 0
      · subst hj; simp [h2]
      · have : 0 < j := Nat.pos_of_ne_zero hj
        have : 0 < i := by omega
        simp [*]
    | none =>
      obtain ⟨h1, h2⟩ := (nextIn_spec d i).1 hni
      by_cases hi : i = 0
      · subst hi
        have : drain (next d) (f' + 1) (.zoomIn 0) = drain (next d) (f' + 1) (.zoomOut 0) := by
          simp only [drain, next, hni, if_true]
        rw [this, drain_zoomOut d 255 0 (f' + 1) (by omega) (by omega), h1]
        simp [tailOf]
      · have hpos : 0 < i := Nat.pos_of_ne_zero hi
        simp only [drain, next, hni, hi, if_false]
        rw [drain_zoomOut d 255 0 f' (by omega) (by omega), h1]
        simp [tailOf, hpos, h2 hpos]

theorem desc_zero_bits (d n : Nat) (h : ∀ j, j < n → d.testBit j = false) : desc d n = [] := by
  unfold desc
  rw [List.filter_eq_nil_iff]
  intro j hj
  simp only [List.mem_reverse, List.mem_range] at hj
  simp [h j hj]

/-- above the highest set bit nothing is added to the descending list -/
theorem desc_above (d s : Nat) (hs : d.testBit s = true) (hhi : ∀ j, s < j → d.testBit j = false) :
    ∀ k, desc d (s + 1 + k) = s :: desc d s := by
  intro k
  induction k with
  | zero => rw [Nat.add_zero, desc_succ, if_pos hs]
  | succ k ih =>
    rw [← Nat.add_assoc, desc_succ, hhi (s + 1 + k) (by omega)]
    simpa using ih

theorem clear_all (d : Nat) :
    ((List.range 256).filter fun i => !d.testBit i) =
      (if d.testBit 0 = false then [0] else []) ++ clearFrom d 1 255 := by
  rw [List.range_eq_range']
  have := clearFrom_succ d 0 255
  unfold clearFrom at this
  unfold clearFrom
  rw [this]
  cases d.testBit 0 <;> simp

theorem drain_start (d f i : Nat) :
    drain (next d) (f + 1) (.start i) = i :: drain (next d) f (.zoomIn i) := by
  simp only [drain, next]

/-- **the iterator equals its closed form**, for every 256-bit distance -/
theorem bucketOrder_eq (d : Nat) (hd : d < 2 ^ 256) : bucketOrder d = bucketOrderSpec d := by
  unfold bucketOrder bucketOrderSpec FUEL NUM_BUCKETS
  rw [clear_all]
  by_cases h0 : d = 0
  · subst h0
    have hdesc : ((List.range 256).reverse.filter fun i => (0 : Nat).testBit i) = [] :=
      desc_zero_bits 0 256 (fun j _ => Nat.zero_testBit j)
    rw [hdesc]
    have : new 0 = .start 0 := by simp [new, bucketIndex]
    rw [this, show (600 : Nat) = 599 + 1 from rfl, drain_start]
    rw [drain_zoomIn 0 0 599 (by omega)]
    simp [desc, tailOf]
  · have hs : d.testBit d.log2 = true := Nat.testBit_log2 h0
    have hlt : d.log2 < 256 := (Nat.log2_lt h0).2 hd
    have hhi : ∀ j, d.log2 < j → d.testBit j = false := by
      intro j hj
      apply Nat.testBit_lt_two_pow
      exact Nat.lt_of_lt_of_le Nat.lt_log2_self (Nat.pow_le_pow_right (by decide) hj)
    have hdesc : ((List.range 256).reverse.filter fun i => d.testBit i) = d.log2 :: desc d d.log2 := by
      have := desc_above d d.log2 hs hhi (255 - d.log2)
      have h256 : d.log2 + 1 + (255 - d.log2) = 256 := by omega
      rw [h256] at this
      exact this
    rw [hdesc]
    have : new d = .start d.log2 := by simp [new, bucketIndex, h0]
    rw [this, show (600 : Nat) = 599 + 1 from rfl, drain_start]
    rw [drain_zoomIn d d.log2 599 (by omega)]
    simp only [List.cons_append, List.cons.injEq, true_and]
    congr 1
    unfold tailOf
    congr 1
    by_cases hl : d.log2 = 0
    · rw [hl] at hs; simp [hl, hs]
    · have : 0 < d.log2 := Nat.pos_of_ne_zero hl
      simp [this]

end C38
