import Libp2pModel.Proofs.C26Lookup
namespace C26
open C25 (Sid Role Frame)

theorem checkMaxPending_subs (s : State) :
    (checkMaxPending s).1.subs = s.subs ∨ (checkMaxPending s).1.subs = [] := by
  unfold checkMaxPending
  split
  · right; simp [onError]
  · left; rfl

theorem EmptyBuf_onOpen {s : State} {id : Sid} (h : EmptyBuf s id) (rid : Sid) :
    EmptyBuf (onOpen s rid).1 id := by
  unfold onOpen
  simp only
  split
  · exact EmptyBuf_of_subs h (.inr (by simp [onError]))
  · split
    · have hc := checkMaxPending_subs s
      rcases hcm : checkMaxPending s with ⟨s1, r⟩
      rw [hcm] at hc
      cases r with
      | error k => exact EmptyBuf_of_subs h hc
      | ok u => exact EmptyBuf_of_subs h hc
    · exact EmptyBuf_put h (fun _ => rfl)

theorem EmptyBuf_onReset {s : State} {id : Sid} (h : EmptyBuf s id) (j : Sid) :
    EmptyBuf (onReset s j) id := by
  unfold onReset
  split
  · exact h
  · rename_i x hx
    have hid := (getSub_mem hx).2
    have hb : x.id = id → x.buf = [] := fun e => h x (by rw [← e, hid]; exact hx)
    split
    · exact EmptyBuf_put h hb
    · exact EmptyBuf_put h hb
    · exact EmptyBuf_put h hb

theorem EmptyBuf_onClose {s : State} {id : Sid} (h : EmptyBuf s id) (j : Sid) :
    EmptyBuf (onClose s j) id := by
  unfold onClose
  split
  · exact h
  · rename_i x hx
    have hid := (getSub_mem hx).2
    have hb : x.id = id → x.buf = [] := fun e => h x (by rw [← e, hid]; exact hx)
    split
    · exact h
    · exact h
    · exact h
    · exact EmptyBuf_put h hb
    · exact EmptyBuf_put h hb

theorem EmptyBuf_buffer {s : State} {id : Sid} (h : EmptyBuf s id) (j : Sid) (hj : j ≠ id) (d : List Nat) :
    EmptyBuf (buffer s j d).1 id := by
  unfold buffer
  split
  · exact h
  · rename_i x hx
    have hid := (getSub_mem hx).2
    have hne : x.id ≠ id := by rw [hid]; exact hj
    split
    · exact h
    · split
      · exact h
      · simp only
        have h1 : EmptyBuf (s.put { x with buf := x.buf ++ [d], rx := x.rx ++ [d] }) id :=
          EmptyBuf_put h (fun e => absurd e hne)
        split
        · split
          · exact EmptyBuf_of_subs h1 (.inl rfl)
          · by_cases hge : s.pendQ.length ≥ s.cfg.maxSubs + EXTRA_PENDING_FRAMES
            · simp only [checkMaxPending, put_pendQ, put_cfg, hge, ↓reduceIte]
              exact EmptyBuf_of_subs h (.inr (by simp [onError]))
            · simp only [checkMaxPending, put_pendQ, put_cfg, hge, ↓reduceIte]
              have h2 := EmptyBuf_put (y := { x with buf := x.buf ++ [d], rx := x.rx ++ [d], st := .reset }) h1
                (fun e => absurd e hne)
              exact EmptyBuf_of_subs h2 (.inl rfl)
        · exact h1

end C26
