import Libp2pModel.Model.C45
/-! # C45 — counting lemmas for the connection list operations -/
namespace C45

/-- number of occurrences of `id` in the outbound (`b = true`) / inbound pending sets of a
connection list -/
def cnt (b : Bool) (id : RId) : List Conn → Nat
  | [] => 0
  | x :: xs => (x.get b).count id + cnt b id xs

@[simp] theorem cnt_nil (b : Bool) (id : RId) : cnt b id [] = 0 := rfl
@[simp] theorem cnt_cons (b : Bool) (id : RId) (x : Conn) (xs : List Conn) :
    cnt b id (x :: xs) = (x.get b).count id + cnt b id xs := rfl

theorem cnt_append (b : Bool) (id : RId) (xs ys : List Conn) :
    cnt b id (xs ++ ys) = cnt b id xs + cnt b id ys := by
  induction xs with
  | nil => simp
  | cons x xs ih => simp [ih]; omega

@[simp] theorem get_put_same (b : Bool) (x : Conn) (l : List RId) : (x.put b l).get b = l := by
  cases b <;> simp [Conn.get, Conn.put]
@[simp] theorem get_put_other (b b' : Bool) (h : b' ≠ b) (x : Conn) (l : List RId) :
    (x.put b l).get b' = x.get b' := by
  cases b <;> cases b' <;> simp_all [Conn.get, Conn.put]
@[simp] theorem put_id (b : Bool) (x : Conn) (l : List RId) : (x.put b l).id = x.id := by
  cases b <;> simp [Conn.put]

theorem count_insertSet_fresh (l : List RId) (x y : RId) (h : x ∉ l) :
    (insertSet l x).count y = l.count y + (if y = x then 1 else 0) := by
  simp only [insertSet, h, if_false, List.count_append]
  by_cases hy : y = x
  · subst hy; simp
  · have : ¬ (x = y) := fun e => hy e.symm
    simp [hy, List.count_cons, this]

theorem foldl_insertSet (l acc : List RId) (h : (acc ++ l).Nodup) :
    l.foldl insertSet acc = acc ++ l := by
  induction l generalizing acc with
  | nil => simp
  | cons x xs ih =>
    have hx : x ∉ acc := by
      intro hm
      have := (List.nodup_append.1 h).2.2 x hm x (by simp)
      exact this rfl
    have e : insertSet acc x = acc ++ [x] := by simp [insertSet, hx]
    simp only [List.foldl_cons, e]
    rw [ih]
    · simp
    · simpa using h

theorem count_le_one_nodup (l : List RId) (h : ∀ x, l.count x ≤ 1) : l.Nodup :=
  List.nodup_iff_count.2 h

/-! ### sendTo -/

theorem sendTo_some (id : RId) : ∀ (i : Nat) (conns : List Conn), i < conns.length →
    ∃ r, sendTo id i conns = some r
  | _, [], h => by simp at h
  | 0, x :: xs, _ => ⟨_, rfl⟩
  | i + 1, x :: xs, h => by
    obtain ⟨r, hr⟩ := sendTo_some id i xs (by simpa using h)
    exact ⟨(r.1, x :: r.2), by simp [sendTo, hr]⟩

theorem sendTo_spec (id : RId) : ∀ (i : Nat) (conns : List Conn) (r : CId × List Conn),
    sendTo id i conns = some r → cnt true id conns = 0 →
    r.2.length = conns.length ∧
    (∀ id', cnt true id' r.2 = cnt true id' conns + (if id' = id then 1 else 0)) ∧
    (∀ id', cnt false id' r.2 = cnt false id' conns)
  | _, [], r, h, _ => by simp [sendTo] at h
  | 0, x :: xs, r, h, h0 => by
    simp only [sendTo, Option.some.injEq] at h
    subst h
    have hx : id ∉ x.pout := by
      have : x.pout.count id = 0 := by simp [Conn.get] at h0; omega
      exact List.count_eq_zero.1 this
    refine ⟨by simp, ?_, ?_⟩
    · intro id'
      simp only [cnt_cons, Conn.get, if_true, count_insertSet_fresh _ _ _ hx]
      omega
    · intro id'; simp [Conn.get]
  | i + 1, x :: xs, r, h, h0 => by
    simp only [sendTo, Option.map_eq_some_iff] at h
    obtain ⟨r', hr', rfl⟩ := h
    have h0' : cnt true id xs = 0 := by simp at h0; omega
    obtain ⟨h1, h2, h3⟩ := sendTo_spec id i xs r' hr' h0'
    refine ⟨by simp [h1], ?_, ?_⟩
    · intro id'; simp [h2 id']; omega
    · intro id'; simp [h3 id']

/-! ### takeConn -/

theorem takeConn_spec (c : CId) : ∀ (conns : List Conn) (r : Conn × List Conn),
    takeConn c conns = some r →
    r.2.length + 1 = conns.length ∧ (∀ b id, cnt b id conns = (r.1.get b).count id + cnt b id r.2)
  | [], r, h => by simp [takeConn] at h
  | x :: xs, r, h => by
    simp only [takeConn] at h
    split at h
    · simp only [Option.some.injEq] at h; subst h; simp
    · simp only [Option.map_eq_some_iff] at h
      obtain ⟨r', hr', rfl⟩ := h
      obtain ⟨h1, h2⟩ := takeConn_spec c xs r' hr'
      refine ⟨by simp; omega, ?_⟩
      intro b id; simp [h2 b id]; omega

/-! ### removeP -/

theorem removeP_length (b : Bool) (c : CId) (id : RId) (conns : List Conn) :
    (removeP b c id conns).2.length = conns.length := by
  induction conns with
  | nil => simp [removeP]
  | cons x xs ih => simp only [removeP]; split <;> simp [ih]

theorem removeP_other (b b' : Bool) (hne : b' ≠ b) (c : CId) (id id' : RId) (conns : List Conn) :
    cnt b' id' (removeP b c id conns).2 = cnt b' id' conns := by
  induction conns with
  | nil => simp [removeP]
  | cons x xs ih => simp only [removeP]; split <;> simp [ih, hne]

theorem count_filter_ne (l : List RId) (id id' : RId) (h : id' ≠ id) :
    (l.filter (· ≠ id)).count id' = l.count id' := by
  apply List.count_filter; simp [h]

theorem count_filter_self (l : List RId) (id : RId) : (l.filter (· ≠ id)).count id = 0 := by
  apply List.count_eq_zero.2; simp

theorem count_filter_ne' (l : List RId) (id id' : RId) (h : id' ≠ id) :
    (l.filter (fun x => !decide (x = id))).count id' = l.count id' := by
  apply List.count_filter; simp [h]

@[simp] theorem count_filter_self' (l : List RId) (id : RId) :
    (l.filter (fun x => !decide (x = id))).count id = 0 := by
  apply List.count_eq_zero.2; simp

theorem removeP_ne (b : Bool) (c : CId) (id id' : RId) (h : id' ≠ id) (conns : List Conn) :
    cnt b id' (removeP b c id conns).2 = cnt b id' conns := by
  induction conns with
  | nil => simp [removeP]
  | cons x xs ih => simp only [removeP]; split <;> simp [ih, count_filter_ne' _ _ _ h]

theorem removeP_le (b : Bool) (c : CId) (id id' : RId) (conns : List Conn) :
    cnt b id' (removeP b c id conns).2 ≤ cnt b id' conns := by
  by_cases h : id' = id
  · subst h
    induction conns with
    | nil => simp [removeP]
    | cons x xs ih =>
      simp only [removeP]; split
      · simp
      · simp; omega
  · rw [removeP_ne b c id id' h]; exact Nat.le_refl _

theorem removeP_false (b : Bool) (c : CId) (id id' : RId) (conns : List Conn)
    (h : (removeP b c id conns).1 = false) :
    cnt b id' (removeP b c id conns).2 = cnt b id' conns := by
  by_cases hi : id' = id
  · subst hi
    induction conns with
    | nil => simp [removeP]
    | cons x xs ih =>
      simp only [removeP] at h ⊢
      split
      · rename_i hc
        simp only [hc, if_true, decide_eq_false_iff_not] at h
        have : (x.get b).filter (fun y => !decide (y = id')) = x.get b := by
          apply List.filter_eq_self.2; intro a ha; simp; intro e; exact h (e ▸ ha)
        simp [this]
      · rename_i hc
        simp only [hc, if_false] at h
        simp [ih h]
  · exact removeP_ne b c id id' hi conns

theorem removeP_true (b : Bool) (c : CId) (id : RId) (conns : List Conn)
    (h : (removeP b c id conns).1 = true) (hle : cnt b id conns ≤ 1) :
    cnt b id (removeP b c id conns).2 = 0 ∧ cnt b id conns = 1 := by
  induction conns with
  | nil => simp [removeP] at h
  | cons x xs ih =>
    simp only [removeP] at h ⊢
    split
    · rename_i hc
      simp only [hc, if_true, decide_eq_true_eq] at h
      have h1 : 1 ≤ (x.get b).count id := List.count_pos_iff.2 h
      simp only [cnt_cons] at hle
      simp; omega
    · rename_i hc
      simp only [hc, if_false] at h
      simp only [cnt_cons] at hle
      have := ih h (by omega)
      simp; omega

/-! ### insertIn -/

theorem insertIn_spec (c : CId) (id : RId) : ∀ (conns : List Conn) (r : Bool × List Conn),
    insertIn c id conns = some r →
    r.2.length = conns.length ∧
    (∀ id', cnt true id' r.2 = cnt true id' conns) ∧
    (∀ id', cnt false id' r.2 = cnt false id' conns + (if r.1 = true ∧ id' = id then 1 else 0)) ∧
    (r.1 = false → 0 < cnt false id conns)
  | [], r, h => by simp [insertIn] at h
  | x :: xs, r, h => by
    simp only [insertIn] at h
    split at h
    · simp only [Option.some.injEq] at h; subst h
      refine ⟨by simp, by intro id'; simp [Conn.get], ?_, ?_⟩
      · intro id'
        by_cases hm : id ∈ x.pin
        · simp [Conn.get, insertSet, hm]
        · simp only [cnt_cons, Conn.get, Bool.false_eq_true, if_false,
            count_insertSet_fresh _ _ _ hm, hm, not_false_eq_true, decide_true, true_and]
          omega
      · intro hf
        simp only [decide_eq_false_iff_not, Decidable.not_not] at hf
        have : 0 < x.pin.count id := List.count_pos_iff.2 hf
        simp [Conn.get]; omega
    · simp only [Option.map_eq_some_iff] at h
      obtain ⟨r', hr', rfl⟩ := h
      obtain ⟨h1, h2, h3, h4⟩ := insertIn_spec c id xs r' hr'
      refine ⟨by simp [h1], by intro id'; simp [h2 id'], ?_, ?_⟩
      · intro id'; simp only [cnt_cons, h3 id']; omega
      · intro hf; have := h4 hf; simp; omega

end C45
