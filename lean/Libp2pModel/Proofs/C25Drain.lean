import Libp2pModel.Proofs.C25Step
namespace C25

/-- the loop of `drain`, with the dead branch removed -/
theorem drain_unfold (st : St) (buf : List Nat) :
    drain st buf =
      match decode st buf with
      | (st', r, .none _) => ([], st', r, none)
      | (st', r, .err e) => ([], st', r, some e)
      | (st', r, .some f) => (f :: (drain st' r).1, (drain st' r).2) := by
  rw [drain]
  rcases hd : decode st buf with ⟨st', r, res⟩
  cases res with
  | none k => simp
  | err e => simp
  | some f =>
    have := decode_some_measure st buf st' r f hd
    simp [this]

theorem drain_poisoned (buf : List Nat) : drain .poisoned buf = ([], .poisoned, buf, some .poisoned) := by
  rw [drain_unfold]; simp [decode]

/-- an error leaves the codec poisoned -/
theorem drain_err_state (st : St) (buf : List Nat) :
    ∀ e, (drain st buf).2.2.2 = some e → (drain st buf).2.1 = .poisoned := by
  fun_induction drain st buf with
  | case1 st buf r k hr => intro e h; simp at h
  | case2 st buf r e hr =>
    intro e' _
    exact decode_err_state st buf r.1 r.2.1 e (by rw [← hr])
  | case3 st buf r f hr hm t ih => intro e h; exact ih e h
  | case4 st buf r f hr hm => intro e h; simp at h

/-- **Appending input** to a drained buffer: drain first, then continue from the saved state on
residue ++ new input; frames concatenate and the first error wins. -/
theorem drain_append (x : List Nat) (st : St) (buf : List Nat) :
    drain st (buf ++ x) =
      ((drain st buf).1 ++ (drain (drain st buf).2.1 ((drain st buf).2.2.1 ++ x)).1,
       (drain (drain st buf).2.1 ((drain st buf).2.2.1 ++ x)).2.1,
       (drain (drain st buf).2.1 ((drain st buf).2.2.1 ++ x)).2.2.1,
       (drain st buf).2.2.2.or (drain (drain st buf).2.1 ((drain st buf).2.2.1 ++ x)).2.2.2) := by
  fun_induction drain st buf with
  | case1 st buf r k hr =>
    have hd : decode st buf = (r.1, r.2.1, .none k) := by rw [← hr]
    have hres := decode_none_resume st buf x r.1 r.2.1 k hd
    simp only [List.nil_append, Option.none_or]
    rw [drain_unfold st (buf ++ x), drain_unfold r.1 (r.2.1 ++ x), hres]
  | case2 st buf r e hr =>
    have hd : decode st buf = (r.1, r.2.1, .err e) := by rw [← hr]
    have hp := decode_err_state st buf r.1 r.2.1 e hd
    have ha := decode_err_append st buf x r.1 r.2.1 e hd
    rw [drain_unfold st (buf ++ x), ha, hp, drain_poisoned]
    simp
  | case3 st buf r f hr hm t ih =>
    have hd : decode st buf = (r.1, r.2.1, .some f) := by rw [← hr]
    have ha := decode_some_append st buf x r.1 r.2.1 f hd
    rw [drain_unfold st (buf ++ x), ha]
    simp only [ih, List.cons_append]
    simp [t]
  | case4 st buf r f hr hm =>
    have hd : decode st buf = (r.1, r.2.1, .some f) := by rw [← hr]
    exact absurd (decode_some_measure st buf r.1 r.2.1 f hd) hm

/-- draining twice is draining once -/
theorem drain_idem (st : St) (buf : List Nat) :
    (drain st buf).2.2.2 = none →
    drain (drain st buf).2.1 (drain st buf).2.2.1 = ([], (drain st buf).2.1, (drain st buf).2.2.1, none) := by
  fun_induction drain st buf with
  | case1 st buf r k hr =>
    intro _
    have hd : decode st buf = (r.1, r.2.1, .none k) := by rw [← hr]
    obtain ⟨k', hk⟩ := decode_none_fix st buf r.1 r.2.1 k hd
    simp only
    rw [drain_unfold, hk]
  | case2 st buf r e hr => intro h; simp at h
  | case3 st buf r f hr hm t ih => intro h; exact ih h
  | case4 st buf r f hr hm =>
    have hd : decode st buf = (r.1, r.2.1, .some f) := by rw [← hr]
    exact absurd (decode_some_measure st buf r.1 r.2.1 f hd) hm

theorem feedMany_poisoned : ∀ (cs : List (List Nat)) (buf : List Nat),
    feedMany .poisoned buf cs =
      ([], .poisoned, buf ++ cs.flatten, if cs.isEmpty then none else some .poisoned) := by
  intro cs
  induction cs with
  | nil => intro buf; simp [feedMany]
  | cons c cs ih =>
    intro buf
    simp only [feedMany, drain_poisoned, ih]
    simp

/-- **Split independence**, errors included: from a quiescent decoder (in particular a fresh one),
feeding the input in ANY chunking yields the same frames, final codec state, residue and first
error as one pass over the concatenation. -/
theorem feedMany_eq_drain : ∀ (cs : List (List Nat)) (st : St) (buf : List Nat),
    drain st buf = ([], st, buf, none) →
    feedMany st buf cs = drain st (buf ++ cs.flatten) := by
  intro cs
  induction cs with
  | nil => intro st buf hq; simp [feedMany, hq]
  | cons c cs ih =>
    intro st buf hq
    simp only [feedMany, List.flatten_cons]
    rw [← List.append_assoc, drain_append cs.flatten st (buf ++ c)]
    cases he : (drain st (buf ++ c)).2.2.2 with
    | none =>
      have hq' := drain_idem st (buf ++ c) he
      rw [ih _ _ hq']
    | some e =>
      have hp := drain_err_state st (buf ++ c) e he
      rw [hp, feedMany_poisoned, drain_poisoned]
      simp

theorem drain_begin_nil : drain .begin [] = ([], .begin, [], none) := by
  rw [drain_unfold]; simp [decode, fromBegin, uvi64, uviGo]

theorem feedMany_fresh (cs : List (List Nat)) : feedMany .begin [] cs = drain .begin cs.flatten := by
  simpa using feedMany_eq_drain cs .begin [] drain_begin_nil

end C25
