import Libp2pModel.Proofs.C39_Inv
/-!
# C39 — how `next` changes peer states; the result; the finished-closed clause
-/
namespace C39

/-- relation between the state of peer `q` before and after the loop of `next` -/
def StRel (cfg : Cfg) (now : Nat) (res : LoopRes) (q : Nat) (st st' : PState) : Prop :=
  st' = st ∨ (∃ to, st = .waiting to ∧ to ≤ now ∧ st' = .unresponsive) ∨
    (st = .notContacted ∧ st' = .waiting (now + cfg.peerTimeout) ∧ res = .ret (.waiting (some q)))

theorem all2_find_fwd {cfg : Cfg} {now : Nat} {res : LoopRes} {cl cl' : List (Nat × PState)}
    (h : All2 (Rel cfg now res) cl cl') (q : Nat) (st' : PState) (hf : find cl' q = some st') :
    ∃ st, find cl q = some st ∧ StRel cfg now res q st st' := by
  induction h with
  | nil => simp [find] at hf
  | @cons a b l l' hr _ ih =>
    obtain ⟨ka, sa⟩ := a
    obtain ⟨kb, sb⟩ := b
    obtain ⟨hk, hrel⟩ := hr
    simp only at hk hrel
    subst hk
    by_cases hq : ka = q
    · subst hq
      simp only [find, if_true, Option.some.injEq] at hf ⊢
      subst hf
      exact ⟨sa, rfl, hrel⟩
    · simp only [find, hq, if_false] at hf ⊢
      exact ih hf

theorem all2_find_bwd {cfg : Cfg} {now : Nat} {res : LoopRes} {cl cl' : List (Nat × PState)}
    (h : All2 (Rel cfg now res) cl cl') (q : Nat) (st : PState) (hf : find cl q = some st) :
    ∃ st', find cl' q = some st' ∧ StRel cfg now res q st st' := by
  induction h with
  | nil => simp [find] at hf
  | @cons a b l l' hr _ ih =>
    obtain ⟨ka, sa⟩ := a
    obtain ⟨kb, sb⟩ := b
    obtain ⟨hk, hrel⟩ := hr
    simp only at hk hrel
    subst hk
    by_cases hq : ka = q
    · subst hq
      simp only [find, if_true, Option.some.injEq] at hf ⊢
      subst hf
      exact ⟨sb, rfl, hrel⟩
    · simp only [find, hq, if_false] at hf ⊢
      exact ih hf

/-- the issued peer was `NotContacted` and is now `Waiting` -/
theorem nextLoop_issue_mem (cfg : Cfg) (now : Nat) (atCap : Bool) (cl : List (Nat × PState)) (nw : Nat)
    (cnt : Option Nat) (p : Nat) (h : (nextLoop cfg now atCap cl nw cnt).2.2 = .ret (.waiting (some p))) :
    (p, PState.notContacted) ∈ cl ∧
      (p, PState.waiting (now + cfg.peerTimeout)) ∈ (nextLoop cfg now atCap cl nw cnt).1 := by
  fun_induction nextLoop cfg now atCap cl nw cnt <;> simp_all +zetaDelta

/-! ## observers in terms of `find` -/

theorem mem_waitingList {s : Iter} (hs : Sorted s.closest) (q : Nat) :
    q ∈ waitingList s ↔ ∃ st, find s.closest q = some st ∧ isWaiting st = true := by
  simp only [waitingList, List.mem_map, List.mem_filter]
  constructor
  · rintro ⟨e, ⟨he, hw⟩, rfl⟩
    exact ⟨e.2, find_of_mem hs he, hw⟩
  · rintro ⟨st, hf, hw⟩
    exact ⟨(q, st), ⟨find_some_mem hf, hw⟩, rfl⟩

theorem length_waitingList (s : Iter) : (waitingList s).length = countW s.closest := by
  simp [waitingList, countW]

def succList (cl : List (Nat × PState)) : List Nat := (cl.filter (fun e => e.2 = .succeeded)).map (·.1)

theorem result_eq (s : Iter) : result s = (succList s.closest).take s.cfg.numResults := rfl

theorem mem_succList {cl : List (Nat × PState)} (hs : Sorted cl) (q : Nat) :
    q ∈ succList cl ↔ find cl q = some .succeeded := by
  simp only [succList, List.mem_map, List.mem_filter]
  constructor
  · rintro ⟨e, ⟨he, hw⟩, rfl⟩
    have := find_of_mem hs he
    simp at hw
    rw [hw] at this
    exact this
  · intro hf
    exact ⟨(q, .succeeded), ⟨find_some_mem hf, by simp⟩, rfl⟩

theorem succList_sublist (cl : List (Nat × PState)) : (succList cl).Sublist (keys cl) :=
  (List.filter_sublist).map _

theorem sortedAsc_iff (l : List Nat) : sortedAsc l = true ↔ l.Pairwise (· < ·) := by
  induction l with
  | nil => simp [sortedAsc]
  | cons a t ih =>
    cases t with
    | nil => simp [sortedAsc]
    | cons b t' =>
      simp only [sortedAsc, Bool.and_eq_true, decide_eq_true_eq, ih]
      constructor
      · rintro ⟨hab, hp⟩
        rw [List.pairwise_cons] at hp ⊢
        refine ⟨?_, List.pairwise_cons.2 hp⟩
        intro x hx
        rcases List.mem_cons.1 hx with rfl | hx
        · exact hab
        · exact Nat.lt_trans hab (hp.1 x hx)
      · intro hp
        rw [List.pairwise_cons] at hp
        exact ⟨hp.1 b List.mem_cons_self, hp.2⟩

/-- **result**: strictly increasing distance, at most `num_results`, only `Succeeded` peers -/
theorem result_props {s : Iter} (hs : Sorted s.closest) :
    (result s).Pairwise (· < ·) ∧ (result s).length ≤ s.cfg.numResults ∧
    ∀ q ∈ result s, find s.closest q = some .succeeded := by
  rw [result_eq]
  refine ⟨?_, List.length_take_le _ _, ?_⟩
  · exact (hs.sublist (succList_sublist _)).sublist (List.take_sublist _ _)
  · intro q hq
    exact (mem_succList hs q).1 (List.mem_of_mem_take hq)

theorem take_append_cons {α : Type} (A B : List α) (p : α) :
    (A ++ p :: B).take (A.length + 1) = A ++ [p] := by
  induction A with
  | nil => simp
  | cons a t ih => simp [ih]

/-- **finished-closed**, on the model: if `next` finishes an unfinished iterator, then every peer
closer than the farthest returned peer — every peer at all, if fewer than `num_results` are
returned — is neither `NotContacted` nor `Waiting` -/
theorem finished_closed {s : Iter} (h : Inv s) (hf : s.state ≠ .finished) (now : Nat)
    (hout : (next s now).2 = .finished) (q : Nat) (st' : PState)
    (hq : find (next s now).1.closest q = some st')
    (hrel : (result (next s now).1).length < s.cfg.numResults ∨
      ∃ f, (result (next s now).1).getLast? = some f ∧ q < f) :
    st' ≠ .notContacted ∧ isWaiting st' = false := by
  obtain ⟨h1, h2, h3, _⟩ := next_fields hf now
  have hk := nextLoop_keys s.cfg now (atCapacity s) s.closest s.numWaiting (some 0)
  have hn := nextLoop_nw s.cfg now (atCapacity s) s.closest s.numWaiting (some 0) 0 (by simpa using h.nw_eq)
  have hsorted : Sorted (next s now).1.closest := by unfold Sorted; rw [h1, hk]; exact h.sorted
  have hmem := find_some_mem hq
  -- which branch finished?
  cases hr : (nextLoop s.cfg now (atCapacity s) s.closest s.numWaiting (some 0)).2.2 with
  | ret o =>
    exfalso
    simp only [next, hf, if_false, hr] at hout
    rcases nextLoop_ret _ _ _ _ _ _ o hr with ⟨ho, _⟩ | ⟨p, ho, _⟩ <;> simp [ho] at hout
  | panic => exact absurd hr hn.1
  | finish =>
    obtain ⟨c, pre, p, t, hc, hl, hd, hcount⟩ := nextLoop_finish _ _ _ _ _ _ hr
    simp at hc; subst hc
    have hcount := hcount h.cfg_ok.nr_pos
    rw [h1, hl] at hmem hsorted
    -- the result is the successes of `pre` followed by `p`
    have hres : result (next s now).1 = succList pre ++ [p] := by
      rw [result_eq, h1, hl, h3]
      have : succList (pre ++ (p, PState.succeeded) :: t) = succList pre ++ p :: succList t := by
        simp [succList, List.filter_append, List.filter_cons]
      rw [this]
      have hlen : s.cfg.numResults = (succList pre).length + 1 := by
        simp [succList]; omega
      rw [hlen, take_append_cons]
    rcases hrel with hlt | ⟨f, hf', hqf⟩
    · rw [hres] at hlt; simp [succList] at hlt; omega
    · rw [hres] at hf'
      simp at hf'; subst hf'
      rcases List.mem_append.1 hmem with hin | hin
      · exact hd _ hin
      · exfalso
        unfold Sorted keys at hsorted
        rw [List.map_append, List.pairwise_append] at hsorted
        rcases List.mem_cons.1 hin with heq | hin
        · cases heq; omega
        · have := (List.pairwise_cons.1 hsorted.2.1).1 q (List.mem_map.2 ⟨(q, st'), hin, rfl⟩)
          simp at this; omega
  | done =>
    have hnc := nextLoop_done _ _ _ _ _ _ hr
    simp only [next, hf, if_false, hr] at hout
    split at hout
    · simp at hout
    · rename_i hz
      have hz' : (nextLoop s.cfg now (atCapacity s) s.closest s.numWaiting (some 0)).2.1 = 0 := by omega
      rw [h1] at hmem
      refine ⟨hnc _ hmem, ?_⟩
      have hw0 : countW (nextLoop s.cfg now (atCapacity s) s.closest s.numWaiting (some 0)).1 = 0 := by
        have := hn.2; omega
      cases hw : isWaiting st' with
      | false => rfl
      | true =>
        exfalso
        have : (q, st') ∈ (nextLoop s.cfg now (atCapacity s) s.closest s.numWaiting (some 0)).1.filter
            (fun e => isWaiting e.2) := List.mem_filter.2 ⟨hmem, hw⟩
        unfold countW at hw0
        rw [List.length_eq_zero_iff] at hw0
        rw [hw0] at this
        simp at this

end C39
