import Libp2pModel.Proofs.C54
/-!
# C54 — exactly what the LRU capacity eviction inside `add_address_inner` can drop
-/
set_option linter.unusedSimpArgs false
set_option linter.unusedVariables false

namespace Lru
variable {κ ν : Type} [DecidableEq κ]

theorem del_append (k : κ) (l m : List (κ × ν)) : del k (l ++ m) = del k l ++ del k m := by
  induction l with
  | nil => rfl
  | cons hd t ih =>
    obtain ⟨k0, v⟩ := hd
    by_cases e : k0 = k <;> simp [del, e, ih]

theorem del_del (k : κ) (l : List (κ × ν)) : del k (del k l) = del k l :=
  del_of_find_none (find_del_self k l)

/-- promoting twice = promoting once with the last value -/
theorem Cache.upsertBack_upsertBack (c : Cache κ ν) (k : κ) (v w : ν) :
    (c.upsertBack k v).upsertBack k w = c.upsertBack k w := by
  unfold Cache.upsertBack
  simp [del_append, del_del, del]

end Lru

namespace C54
open Lru

/-- closed form of the repaired `add_address_inner` on a state satisfying the invariant -/
theorem addInner_closed {s : State} (h : Inv s) (p : Peer) (a : Addr) (isPerm : Bool) :
    let r0 : Rec := (s.records.peek p).getD (Rec.new s.cfg.recCap)
    let ra := r0.addAddress a isPerm
    addInner true s p a isPerm =
      ({ s with records := (s.records.upsertBack p ra.1).evictIfOver,
                pending := if ra.2 then s.pending ++ [Event.added p a isPerm] else s.pending }, ra.2) := by
  have hev : s.records.evictIfOver = s.records := Cache.evictIfOver_of_le _ (by have := h.len; have := h.cap; omega)
  have he : s.records.entryOrInsertWith p (Rec.new s.cfg.recCap) =
      (s.records.upsertBack p ((s.records.peek p).getD (Rec.new s.cfg.recCap)),
        (s.records.peek p).getD (Rec.new s.cfg.recCap)) := by
    unfold Cache.entryOrInsertWith
    rw [hev]
    cases s.records.peek p <;> rfl
  simp only
  unfold addInner
  simp only [he, ↓reduceIte, Cache.upsertBack_upsertBack]

/-- **what eviction drops, exactly**: when `add_address_inner(p, a, ·)` changes the stored state of
another pair `(q, b)`, that pair is gone, and either (record eviction) `q = p`, `a` was not stored,
`p`'s record was full and `b` was its least-recently-used address, or (peer eviction) `p` was not
stored, the store was full and `q` was its least-recently-used peer. -/
theorem addInner_evicts {s : State} (h : Inv s) (p : Peer) (a : Addr) (isPerm : Bool)
    (q : Peer) (b : Addr) (hne : (q, b) ≠ (p, a))
    (hch : flag (addInner true s p a isPerm).1 q b ≠ flag s q b) :
    flag (addInner true s p a isPerm).1 q b = none ∧
    ((q = p ∧ flag s p a = none ∧
        ∃ r, s.records.peek p = some r ∧ r.addrs.len = s.cfg.recCap ∧ r.addrs.lruKey = some b) ∨
     (q ≠ p ∧ s.records.peek p = none ∧ s.records.len = s.cfg.peerCap ∧ s.records.lruKey = some q)) := by
  have hcl := addInner_closed h p a isPerm
  obtain ⟨hwf, hcap, hlen, hrecs, hpc, hrc⟩ := h
  simp only at hcl
  rw [hcl] at hch ⊢
  generalize hr0 : (s.records.peek p).getD (Rec.new s.cfg.recCap) = r0 at hch ⊢
  have hr0ok : RecOk s.cfg r0 := by
    rw [← hr0]
    cases hp : s.records.peek p with
    | none => exact recOk_new _
    | some r => exact Cache.allV_of_peek _ hrecs hp
  have hflag0 : ∀ c, flag s p c = r0.addrs.peek c := by
    intro c
    rw [← hr0]; unfold flag
    cases hp : s.records.peek p with
    | none => simp [Rec.new]
    | some r => simp
  obtain ⟨hra1, hra2, hra3, hra4, hra5⟩ := addAddress_spec hr0ok hrc a isPerm
  have hwf1 : (s.records.upsertBack p (r0.addAddress a isPerm).1).WF := Cache.wf_upsertBack _ hwf _ _
  have hflag0' : ∀ c, ((s.records.peek p).bind fun r => r.addrs.peek c) = r0.addrs.peek c := hflag0
  simp only [flag] at hch ⊢
  rw [Cache.peek_evictIfOver _ hwf1, Cache.peek_upsertBack] at hch ⊢
  have hnot_p : ¬ ((s.records.upsertBack p (r0.addAddress a isPerm).1).len >
      (s.records.upsertBack p (r0.addAddress a isPerm).1).cap ∧
      (s.records.upsertBack p (r0.addAddress a isPerm).1).lruKey = some p) := by
    intro ⟨hgt, hk⟩
    have := Cache.lruKey_upsertBack_self _ _ _ hk
    simp only [Cache.cap_upsertBack] at hgt
    omega
  by_cases hq : q = p
  · subst hq
    have hb : b ≠ a := fun e => hne (by rw [e])
    simp only [hnot_p, ↓reduceIte, Option.bind_some, hflag0'] at hch ⊢
    obtain ⟨e1, e2, e3, e4⟩ := hra5 b hb hch
    refine ⟨e1, Or.inl ⟨by first | trivial | rfl, e2, ?_⟩⟩
    cases hp : s.records.peek q with
    | none =>
      rw [hp] at hr0
      rw [← hr0] at e3
      simp [Rec.new] at e3
      omega
    | some r =>
      rw [hp] at hr0
      simp only [Option.getD_some] at hr0
      subst hr0
      exact ⟨r, rfl, e3, e4⟩
  · simp only [hq, ↓reduceIte] at hch ⊢
    by_cases hev : (s.records.upsertBack p (r0.addAddress a isPerm).1).len >
        (s.records.upsertBack p (r0.addAddress a isPerm).1).cap ∧
        (s.records.upsertBack p (r0.addAddress a isPerm).1).lruKey = some q
    · simp only [hev, and_self, ↓reduceIte, Option.bind_none, true_and]
      right
      simp only [Cache.cap_upsertBack] at hev
      have hpn : s.records.peek p = none := by
        apply Classical.byContradiction
        intro hpp
        have := Cache.len_upsertBack_of_mem s.records (r0.addAddress a isPerm).1 hpp
        omega
      have hl := Cache.len_upsertBack_of_not_mem s.records (r0.addAddress a isPerm).1 hpn
      have hne0 : s.records.len ≠ 0 := by omega
      rw [Cache.lruKey_upsertBack_of_not_mem _ _ _ hpn hne0] at hev
      exact ⟨hq, hpn, by omega, hev.2⟩
    · simp only [hev, ↓reduceIte] at hch
      exact absurd rfl hch

end C54
