import Libp2pModel.Proofs.C37MonB
/-!
# C37 — monitor proof, part C: the `apply_pending` phase of a call, bookkeeping effects, final checks
-/
namespace C37

/-- `apply_pending` on the listed buckets, in order (what `entry`, `bucket` and `iter` do first) -/
def applyList (t : Table) : List Nat → Table
  | [] => t
  | i :: L => applyList ((t.setBucket i ((t.bucket i).applyPending t.now (2 * t.ops)).1).record
      ((t.bucket i).applyPending t.now (2 * t.ops)).2) L

theorem access_eq_applyList {t : Table} {key i : Nat} (h : bucketIndex (t.localKey ^^^ key) = some i) :
    t.access key = some (i, applyList t [i]) := by
  unfold Table.access
  simp only [h, applyList, Table.record]
  cases ((t.bucket i).applyPending t.now (2 * t.ops)).2 <;> rfl

theorem iterFrom_eq_applyList : ∀ (n : Nat) (t : Table) (i : Nat), t.iterFrom i n = applyList t (List.range' i n)
  | 0, _, _ => rfl
  | n + 1, t, i => by
    rw [iterFrom_succ, iterFrom_eq_applyList n, List.range'_succ]
    rfl

theorem optToList_findSome {α β} (o : Option α) (f : α → Option β) (h : ∀ a, o = some a → f a = none) :
    o.toList.findSome? f = none := by
  cases o with
  | none => rfl
  | some a => simp [h a rfl]

/-- the facts carried through the `apply_pending` phase of one call -/
structure Phase (m : Mon) (t0 t : Table) (asg : List (Nat × Bool × Nat)) : Prop where
  now : t.now = t0.now
  ops : t.ops = t0.ops
  localKey : t.localKey = t0.localKey
  len : t.buckets.length = 256
  inv : ∀ i, i < 256 → BInv t0.localKey i (2 * t0.ops + 1) (t.bucket i)
  asg : AsgT asg t
  pend : ∀ i, i < 256 → (t.bucket i).pending = none ∨ (t.bucket i).pending = (t0.bucket i).pending
  cap : ∀ i, i < 256 → (t.bucket i).capacity = m.bsize
  tmo : ∀ i, i < 256 → (t.bucket i).timeout = m.timeout

theorem Phase.init {m : Mon} {t0 : Table} (hR : MonR m t0) (h0 : TInv t0) : Phase m t0 t0 m.assigned :=
  ⟨rfl, rfl, rfl, h0.len, fun i hi => (h0.buckets i hi).mono (by omega), hR.asg, fun _ _ => Or.inr rfl,
    hR.cap, hR.tmo⟩

/-- **the apply phase**: the monitor accepts every applied record produced while `apply_pending`
runs over the buckets `L`, and its bookkeeping follows the table -/
theorem apply_phase {m : Mon} {t0 : Table} (hR : MonR m t0) (h0 : TInv t0) :
    ∀ (L : List Nat) (t : Table) (asg : List (Nat × Bool × Nat)), L.Nodup → (∀ i ∈ L, i < 256) →
      (∀ i ∈ L, t.bucket i = t0.bucket i) → Phase m t0 t asg →
      ∃ aps : List Applied, (applyList t L).applied = t.applied ++ aps ∧
        (aps.map obsAp).findSome? (pendingRule m) = none ∧
        Phase m t0 (applyList t L) ((aps.map obsAp).foldl (applyAp m.prev m.step) asg) ∧
        (∀ i, i ∉ L → (applyList t L).bucket i = t.bucket i) ∧
        (∀ i ∈ L, (applyList t L).bucket i = ((t0.bucket i).applyPending t0.now (2 * t0.ops)).1) := by
  intro L
  induction L with
  | nil =>
    intro t asg _ _ _ hP
    exact ⟨[], by simp [applyList], rfl, hP, fun _ _ => rfl, fun i hi => by cases hi⟩
  | cons i L ih =>
    intro t asg hnd hlt hsame hP
    have hi : i < 256 := hlt i (by simp)
    have hiL : i ∉ L := (List.nodup_cons.1 hnd).1
    have hbi : t.bucket i = t0.bucket i := hsame i (by simp)
    have hres : (t.bucket i).applyPending t.now (2 * t.ops) =
        (t0.bucket i).applyPending t0.now (2 * t0.ops) := by rw [hbi, hP.now, hP.ops]
    obtain ⟨hrule, hasg1, hpend1⟩ := apply_event hR h0 hi asg t hbi hP.inv hP.asg hP.len
    simp only [applyList, hres]
    have hbk : ∀ k, ((t.setBucket i ((t0.bucket i).applyPending t0.now (2 * t0.ops)).1).record
        ((t0.bucket i).applyPending t0.now (2 * t0.ops)).2).bucket k =
        if k = i then ((t0.bucket i).applyPending t0.now (2 * t0.ops)).1 else t.bucket k := by
      intro k
      rw [record_bucket, bucket_setBucket t i k _ (by rw [hP.len]; exact hi)]
    have hP1 : Phase m t0 ((t.setBucket i ((t0.bucket i).applyPending t0.now (2 * t0.ops)).1).record
        ((t0.bucket i).applyPending t0.now (2 * t0.ops)).2)
        (match ((t0.bucket i).applyPending t0.now (2 * t0.ops)).2 with
          | some a => applyAp m.prev m.step asg (obsAp a)
          | none => asg) := by
      refine ⟨by rw [record_now]; exact hP.now, by rw [record_ops]; exact hP.ops,
        by rw [record_local]; exact hP.localKey, by rw [record_len]; simp [Table.setBucket, hP.len],
        ?_, hasg1, ?_, ?_, ?_⟩
      · intro k hk
        rw [hbk k]
        by_cases hki : k = i
        · subst hki
          simp only [if_true]
          exact applyPending_inv (h0.buckets k hk) t0.now (Nat.le_refl _)
        · simp only [hki, if_false]; exact hP.inv k hk
      · intro k hk
        rw [hbk k]
        by_cases hki : k = i
        · subst hki; simp only [if_true]; exact hpend1
        · simp only [hki, if_false]; exact hP.pend k hk
      · intro k hk
        rw [hbk k]
        by_cases hki : k = i
        · subst hki; simp only [if_true]; rw [applyPending_cap, ← hbi]; exact hP.cap k hk
        · simp only [hki, if_false]; exact hP.cap k hk
      · intro k hk
        rw [hbk k]
        by_cases hki : k = i
        · subst hki; simp only [if_true]; rw [applyPending_tmo, ← hbi]; exact hP.tmo k hk
        · simp only [hki, if_false]; exact hP.tmo k hk
    obtain ⟨aps, ha1, ha2, ha3, ha4, ha5⟩ := ih _ _ (List.nodup_cons.1 hnd).2
      (fun k hk => hlt k (by simp [hk]))
      (fun k hk => by
        rw [hbk k]
        have : ¬ k = i := fun e => hiL (e ▸ hk)
        simp only [this, if_false]
        exact hsame k (by simp [hk])) hP1
    refine ⟨((t0.bucket i).applyPending t0.now (2 * t0.ops)).2.toList ++ aps, ?_, ?_, ?_, ?_, ?_⟩
    · rw [ha1]
      cases ((t0.bucket i).applyPending t0.now (2 * t0.ops)).2 <;> simp [Table.record, Table.setBucket]
    · rw [List.map_append, List.findSome?_append, ha2]
      have : (((t0.bucket i).applyPending t0.now (2 * t0.ops)).2.toList.map obsAp).findSome? (pendingRule m) = none := by
        cases hap : ((t0.bucket i).applyPending t0.now (2 * t0.ops)).2 with
        | none => rfl
        | some a => simp [hrule a hap]
      rw [this]; rfl
    · have : ((((t0.bucket i).applyPending t0.now (2 * t0.ops)).2.toList ++ aps).map obsAp).foldl
          (applyAp m.prev m.step) asg =
          (aps.map obsAp).foldl (applyAp m.prev m.step)
            (match ((t0.bucket i).applyPending t0.now (2 * t0.ops)).2 with
              | some a => applyAp m.prev m.step asg (obsAp a)
              | none => asg) := by
        rw [List.map_append, List.foldl_append]
        cases ((t0.bucket i).applyPending t0.now (2 * t0.ops)).2 <;> rfl
      rw [this]; exact ha3
    · intro k hk
      have hki : ¬ k = i := fun e => hk (by simp [e])
      have hkL : k ∉ L := fun e => hk (by simp [e])
      rw [ha4 k hkL, hbk k]
      simp only [hki, if_false]
    · intro k hk
      rcases List.mem_cons.1 hk with rfl | hkL
      · rw [ha4 k hiL, hbk k]; simp only [if_true]
      · exact ha5 k hkL

/-! ## the op's own effect on the bookkeeping -/

/-- pending entries of `b2` are pending entries of `b1` (same key, same due instant) -/
def PendOK (b1 b2 : Bucket) : Prop :=
  ∀ p, b2.pending = some p → ∃ p', b1.pending = some p' ∧ p'.node.key = p.node.key ∧ p'.replace = p.replace

/-- the table `t'` is `t1` with bucket `i` replaced by `b2` -/
structure Replaced (t1 t' : Table) (i : Nat) (b2 : Bucket) : Prop where
  bucket : ∀ j, t'.bucket j = if j = i then b2 else t1.bucket j

theorem creT_of_phase {m : Mon} {t0 t : Table} {asg : List (Nat × Bool × Nat)} (hR : MonR m t0)
    (hP : Phase m t0 t asg) : CreT m.created m.timeout t := by
  intro i hi p hp
  rcases hP.pend i hi with h | h
  · rw [h] at hp; cases hp
  · rw [h] at hp; exact hR.cre i hi p hp

theorem other_bucket_key_ne {l k i j : Nat} {b : Bucket} {B : Nat} (hidx : bucketIndex (l ^^^ k) = some i)
    (hb : BInv l j B b) (hji : j ≠ i) {n : Node} (hn : n ∈ b.nodes) : n.key ≠ k := by
  intro e
  have := hb.index n hn
  rw [e, hidx] at this
  exact hji (Option.some.inj this).symm

theorem other_bucket_pending_ne {l k i j : Nat} {b : Bucket} {B : Nat} (hidx : bucketIndex (l ^^^ k) = some i)
    (hb : BInv l j B b) (hji : j ≠ i) {p : PendingNode} (hp : b.pending = some p) : p.node.key ≠ k := by
  intro e
  have := hb.pendingIndex p hp
  rw [e, hidx] at this
  exact hji (Option.some.inj this).symm

/-- effect "assign `k`": `setA asg k (c, stamp)` -/
theorem effect_set {l k i T stamp : Nat} {c : Bool} {t1 t' : Table} {b2 : Bucket} {B : Nat}
    {asg : List (Nat × Bool × Nat)} {cr : List (Nat × Nat)} (hi : i < 256)
    (hidx : bucketIndex (l ^^^ k) = some i) (hinv : ∀ j, j < 256 → BInv l j B (t1.bucket j))
    (hasg : AsgT asg t1) (hcre : CreT cr T t1) (hrep : Replaced t1 t' i b2)
    (hnodes : ∀ n ∈ b2.nodes, (n.key = k ∧ (n.gst == .connected) = c ∧ n.stamp = stamp) ∨
      (n ∈ (t1.bucket i).nodes ∧ n.key ≠ k))
    (hpend : PendOK (t1.bucket i) b2) : AsgT (setA asg k (c, stamp)) t' ∧ CreT cr T t' := by
  constructor
  · intro j hj n hn
    rw [hrep.bucket j] at hn
    rw [lookupA_setA]
    by_cases hji : j = i
    · subst hji
      simp only [if_true] at hn
      rcases hnodes n hn with ⟨h1, h2, h3⟩ | ⟨h1, h2⟩
      · simp [h1, h2, h3]
      · simp only [h2, if_false]; exact hasg j hj n h1
    · simp only [hji, if_false] at hn
      have := other_bucket_key_ne hidx (hinv j hj) hji hn
      simp only [this, if_false]; exact hasg j hj n hn
  · intro j hj p hp
    rw [hrep.bucket j] at hp
    by_cases hji : j = i
    · subst hji
      simp only [if_true] at hp
      obtain ⟨p', hp', hk, hr⟩ := hpend p hp
      obtain ⟨c0, h1, h2⟩ := hcre j hj p' hp'
      exact ⟨c0, by rw [← hk]; exact h1, by rw [← hr]; exact h2⟩
    · simp only [hji, if_false] at hp
      exact hcre j hj p hp

/-- effect "forget `k`": `eraseA asg k` -/
theorem effect_erase {l k i T : Nat} {t1 t' : Table} {b2 : Bucket} {B : Nat}
    {asg : List (Nat × Bool × Nat)} {cr : List (Nat × Nat)} (hi : i < 256)
    (hidx : bucketIndex (l ^^^ k) = some i) (hinv : ∀ j, j < 256 → BInv l j B (t1.bucket j))
    (hasg : AsgT asg t1) (hcre : CreT cr T t1) (hrep : Replaced t1 t' i b2)
    (hnodes : ∀ n ∈ b2.nodes, n ∈ (t1.bucket i).nodes ∧ n.key ≠ k)
    (hpend : PendOK (t1.bucket i) b2) : AsgT (eraseA asg k) t' ∧ CreT cr T t' := by
  constructor
  · intro j hj n hn
    rw [hrep.bucket j] at hn
    rw [lookupA_eraseA]
    by_cases hji : j = i
    · subst hji
      simp only [if_true] at hn
      obtain ⟨h1, h2⟩ := hnodes n hn
      simp only [h2, if_false]; exact hasg j hj n h1
    · simp only [hji, if_false] at hn
      have := other_bucket_key_ne hidx (hinv j hj) hji hn
      simp only [this, if_false]; exact hasg j hj n hn
  · intro j hj p hp
    rw [hrep.bucket j] at hp
    by_cases hji : j = i
    · subst hji
      simp only [if_true] at hp
      obtain ⟨p', hp', hk, hr⟩ := hpend p hp
      obtain ⟨c0, h1, h2⟩ := hcre j hj p' hp'
      exact ⟨c0, by rw [← hk]; exact h1, by rw [← hr]; exact h2⟩
    · simp only [hji, if_false] at hp
      exact hcre j hj p hp

/-- no bookkeeping effect: the nodes of bucket `i` are old nodes, pending entries are old ones -/
theorem effect_none {i T : Nat} {t1 t' : Table} {b2 : Bucket}
    {asg : List (Nat × Bool × Nat)} {cr : List (Nat × Nat)} (hi : i < 256)
    (hasg : AsgT asg t1) (hcre : CreT cr T t1) (hrep : Replaced t1 t' i b2)
    (hnodes : ∀ n ∈ b2.nodes, n ∈ (t1.bucket i).nodes)
    (hpend : PendOK (t1.bucket i) b2) : AsgT asg t' ∧ CreT cr T t' := by
  constructor
  · intro j hj n hn
    rw [hrep.bucket j] at hn
    by_cases hji : j = i
    · subst hji
      simp only [if_true] at hn
      exact hasg j hj n (hnodes n hn)
    · simp only [hji, if_false] at hn
      exact hasg j hj n hn
  · intro j hj p hp
    rw [hrep.bucket j] at hp
    by_cases hji : j = i
    · subst hji
      simp only [if_true] at hp
      obtain ⟨p', hp', hk, hr⟩ := hpend p hp
      obtain ⟨c0, h1, h2⟩ := hcre j hj p' hp'
      exact ⟨c0, by rw [← hk]; exact h1, by rw [← hr]; exact h2⟩
    · simp only [hji, if_false] at hp
      exact hcre j hj p hp

/-- effect "`k` became pending now": `setA created k now` -/
theorem effect_created {l k i T now : Nat} {t1 t' : Table} {b2 : Bucket} {B : Nat}
    {asg : List (Nat × Bool × Nat)} {cr : List (Nat × Nat)} (hi : i < 256)
    (hidx : bucketIndex (l ^^^ k) = some i) (hinv : ∀ j, j < 256 → BInv l j B (t1.bucket j))
    (hasg : AsgT asg t1) (hcre : CreT cr T t1) (hrep : Replaced t1 t' i b2)
    (hnodes : b2.nodes = (t1.bucket i).nodes)
    (hpend : ∀ p, b2.pending = some p → p.node.key = k ∧ p.replace = now + T) :
    AsgT asg t' ∧ CreT (setA cr k now) T t' := by
  constructor
  · intro j hj n hn
    rw [hrep.bucket j] at hn
    by_cases hji : j = i
    · subst hji
      simp only [if_true] at hn
      exact hasg j hj n (hnodes ▸ hn)
    · simp only [hji, if_false] at hn
      exact hasg j hj n hn
  · intro j hj p hp
    rw [hrep.bucket j] at hp
    rw [lookupA_setA]
    by_cases hji : j = i
    · subst hji
      simp only [if_true] at hp
      obtain ⟨h1, h2⟩ := hpend p hp
      exact ⟨now, by simp [h1], h2.symm⟩
    · simp only [hji, if_false] at hp
      have := other_bucket_pending_ne hidx (hinv j hj) hji hp
      simp only [this, if_false]
      exact hcre j hj p hp

end C37
