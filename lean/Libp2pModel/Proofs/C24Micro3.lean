import Libp2pModel.Proofs.C24Micro2
/-! refinement, part 3: Data frames, the two read loops -/
namespace C26
open C25 (Sid Role Frame)

theorem buffer_micro {s0 : State} {rid : Sid} {d : List Nat} {rest : List InItem}
    (h : s0.inq = .frame (.data rid d) :: rest) (hi : Inv ({ s0 with inq := rest } : State))
    (hbn : s0.blocking = none) (hb : s0.cfg.block = true) :
    Micro s0 (buffer { s0 with inq := rest } rid.mirror d).1 := by
  have hif := inFrames_cons h
  unfold buffer
  split
  · rename_i hn
    refine .dataDrop rid d rfl rfl hif rfl rfl ?_ (fun _ => rfl)
    intro e he
    have : entOf s0 rid.mirror = none := by unfold entOf; rw [show s0.get rid.mirror = _ from hn]; rfl
    rw [this] at he; cases he
  · rename_i x hx
    have hx0 : s0.get rid.mirror = some x := hx
    have hid : x.id = rid.mirror := (getSub_mem hx).2
    split
    · rename_i hro
      refine .dataDrop rid d rfl rfl hif rfl rfl ?_ (fun _ => rfl)
      intro e he
      simp only [entOf, hx0, Option.map_some, Option.some.injEq] at he
      rw [← he]
      simpa using hro
    · rename_i hro
      have hro' : x.st.recvOpen = true := by simpa using hro
      have hg := Inv_get hi hx
      have hok := hg.1
      have hbn' : ({ s0 with inq := rest } : State).blocking = none := hbn
      rw [hbn'] at hok
      have hle := SubOk_not_overfull hok hro'
      split
      · rename_i hgt
        have : x.buf.length > s0.cfg.maxBuf := hgt
        have : x.buf.length ≤ s0.cfg.maxBuf := hle
        omega
      · simp only
        have he0 : entOf s0 rid.mirror = some ⟨true, x.rx, x.acc⟩ := by
          simp [entOf, hx0, hro']
        have acc : ∀ s' : State, s'.cfg = s0.cfg → s'.nextId = s0.nextId → s'.inq = rest → s'.pendQ = s0.pendQ →
            s'.emitted = s0.emitted →
            s'.subs = insertSub s0.subs { x with buf := x.buf ++ [d], rx := x.rx ++ [d] } → Micro s0 s' := by
          intro s' a b c e f g
          have hent : ∀ j, entOf s' j = entOf (({ s0 with inq := rest } : State).put
              { x with buf := x.buf ++ [d], rx := x.rx ++ [d] }) j := by
            intro j; unfold entOf State.get State.put; rw [g]
          refine .dataAccept rid d ⟨true, x.rx, x.acc⟩ a b (by rw [hif]; unfold inFrames; rw [c]) e f he0 rfl ?_ ?_
          · rw [hent, entOf_put]; simp [hid, hro']
          · intro j hj
            rw [hent, entOf_put]
            have : ¬ (x.id = j) := by rw [hid]; exact fun e => hj e.symm
            simp only [this, ↓reduceIte]
            rfl
        split
        · split
          · exact acc _ rfl rfl rfl rfl rfl rfl
          · rename_i hnb
            exact absurd hb (by simpa using hnb)
        · exact acc _ rfl rfl rfl rfl rfl rfl

/-- the frame for the polled substream itself is handed to the reader directly -/
theorem deliver_micro {s0 : State} {rid : Sid} {d : List Nat} {rest : List InItem} {id : Sid}
    (h : s0.inq = .frame (.data rid d) :: rest) (hm : rid.mirror = id)
    (hro : ∀ x, s0.get id = some x → x.st.recvOpen = true) :
    Micro s0 (match ({ s0 with inq := rest } : State).get id with
      | some x => ({ s0 with inq := rest } : State).put { x with rx := x.rx ++ [d], dl := x.dl ++ [d] }
      | none => ({ s0 with inq := rest } : State)) := by
  have hif := inFrames_cons h
  subst hm
  split
  · rename_i x hx
    have hx0 : s0.get rid.mirror = some x := hx
    have hid : x.id = rid.mirror := (getSub_mem hx).2
    have hr := hro x hx0
    refine .dataAccept rid d ⟨true, x.rx, x.acc⟩ rfl rfl hif rfl rfl (by simp [entOf, hx0, hr]) rfl ?_ ?_
    · rw [entOf_put]; simp [hid, hr]
    · intro j hj
      rw [entOf_put]
      have : ¬ (x.id = j) := by rw [hid]; exact fun e => hj e.symm
      simp only [this, ↓reduceIte]
      rfl
  · rename_i hn
    refine .dataDrop rid d rfl rfl hif rfl rfl ?_ (fun _ => rfl)
    intro e he
    have : entOf s0 rid.mirror = none := by unfold entOf; rw [show s0.get rid.mirror = _ from hn]; rfl
    rw [this] at he; cases he

theorem nextStreamLoop_steps : ∀ (fuel : Nat) (s : State) (k : Nat), Inv s → s.cfg.block = true →
    Steps s (nextStreamLoop fuel s k).1 := by
  intro fuel
  induction fuel with
  | zero => intro s k _ _; exact .refl _
  | succ fuel ih =>
    intro s k hi hb
    simp only [nextStreamLoop]
    split
    · exact .refl _
    · have hr := Inv_readFrame hi none
      have hs := readFrame_steps s none
      rcases hrf : readFrame s none with ⟨s1, r⟩
      rw [hrf] at hr hs
      simp only at hr hs
      obtain ⟨h1, h2, h3, h4⟩ := hr
      cases r with
      | pending => exact hs.2 (by simp)
      | ready e =>
        cases e with
        | error k' => exact hs.2 (by simp)
        | ok f =>
          obtain ⟨s0, rest, hst, hq, he⟩ := hs.1 f rfl
          subst he
          have hbn : s0.blocking = none := by
            have : ({ s0 with inq := rest } : State).blocking = s.blocking := h3
            rw [show ({ s0 with inq := rest } : State).blocking = s0.blocking from rfl] at this
            rw [this]; exact h4 f rfl
          have hb0 : s0.cfg.block = true := by rw [hst.cfg]; exact hb
          have hb1 : ({ s0 with inq := rest } : State).cfg.block = true := hb0
          cases f with
          | opn rid =>
            simp only
            have hm := onOpen_micro (rid := rid) hq
            have ho := Inv_onOpen h1 rid
            rcases hoo : onOpen { s0 with inq := rest } rid with ⟨s2, r2⟩
            rw [hoo] at hm ho
            cases r2 with
            | error e => exact hst.trans (.single hm)
            | ok o =>
              cases o with
              | some id => exact hst.trans (.single hm)
              | none => exact (hst.trans (.single hm)).trans (ih s2 k ho.1 (by rw [ho.2.1]; exact hb1))
          | data rid d =>
            simp only
            have hm := buffer_micro (rid := rid) (d := d) hq h1 hbn hb0
            have hbf := Inv_buffer h1 hbn rid.mirror d
            rcases hbb : buffer { s0 with inq := rest } rid.mirror d with ⟨s2, r2⟩
            rw [hbb] at hm hbf
            cases r2 with
            | error e => exact hst.trans (.single hm)
            | ok u => exact (hst.trans (.single hm)).trans (ih s2 (k + 1) hbf.1 (by rw [hbf.2.1]; exact hb1))
          | close rid =>
            have hm := onClose_micro (rid := rid) hq
            have hc := Inv_onClose h1 rid.mirror
            exact (hst.trans (.single hm)).trans (ih _ k hc.1 (by rw [hc.2.1]; exact hb1))
          | reset rid =>
            have hm := onReset_micro (rid := rid) hq
            have hc := Inv_onReset h1 rid.mirror
            exact (hst.trans (.single hm)).trans (ih _ k hc.1 (by rw [hc.2.1]; exact hb1))

theorem readStreamLoop_steps : ∀ (fuel : Nat) (s : State) (id : Sid) (k : Nat), Inv s → s.cfg.block = true →
    Steps s (readStreamLoop fuel s id k).1 := by
  intro fuel
  induction fuel with
  | zero => intro s id k _ _; exact .refl _
  | succ fuel ih =>
    intro s id k hi hb
    simp only [readStreamLoop]
    split
    · exact .refl _
    · split
      · exact .refl _
      · rename_i hcr
        have hr := Inv_readFrame hi (some id)
        have hs := readFrame_steps s (some id)
        have hsub := readFrame_subs s (some id)
        rcases hrf : readFrame s (some id) with ⟨s1, r⟩
        rw [hrf] at hr hs hsub
        simp only at hr hs hsub
        obtain ⟨h1, h2, h3, h4⟩ := hr
        cases r with
        | pending => exact hs.2 (by simp)
        | ready e =>
          cases e with
          | error k' => exact hs.2 (by simp)
          | ok f =>
            obtain ⟨s0, rest, hst, hq, he⟩ := hs.1 f rfl
            subst he
            have hbn : s0.blocking = none := by
              have : ({ s0 with inq := rest } : State).blocking = s.blocking := h3
              rw [show ({ s0 with inq := rest } : State).blocking = s0.blocking from rfl] at this
              rw [this]; exact h4 f rfl
            have hb0 : s0.cfg.block = true := by rw [hst.cfg]; exact hb
            have hb1 : ({ s0 with inq := rest } : State).cfg.block = true := hb0
            cases f with
            | data rid d =>
              simp only
              split
              · rename_i hm
                refine hst.trans (.single (deliver_micro hq hm ?_))
                intro x hx
                -- the polled substream was open for reading when the loop looked, and the table is unchanged
                have hsub' : s0.subs = s.subs ∨ s0.subs = [] := hsub
                rcases hsub' with hs1 | hs1
                · have : s.get id = some x := by unfold State.get at hx ⊢; rw [← hs1]; exact hx
                  have hcr' : canRead s id = true := by simpa using hcr
                  simpa [canRead, this] using hcr'
                · unfold State.get at hx; rw [hs1] at hx; simp [getSub] at hx
              · have hm := buffer_micro (rid := rid) (d := d) hq h1 hbn hb0
                have hbf := Inv_buffer h1 hbn rid.mirror d
                rcases hbb : buffer { s0 with inq := rest } rid.mirror d with ⟨s2, r2⟩
                rw [hbb] at hm hbf
                cases r2 with
                | error e => exact hst.trans (.single hm)
                | ok u => exact (hst.trans (.single hm)).trans (ih s2 id (k + 1) hbf.1 (by rw [hbf.2.1]; exact hb1))
            | opn rid =>
              simp only
              have hm := onOpen_micro (rid := rid) hq
              have ho := Inv_onOpen h1 rid
              rcases hoo : onOpen { s0 with inq := rest } rid with ⟨s2, r2⟩
              rw [hoo] at hm ho
              cases r2 with
              | error e => exact hst.trans (.single hm)
              | ok o =>
                cases o with
                | some nid =>
                  refine ((hst.trans (.single hm)).trans (silent_of_fields (s' := { s2 with openQ := s2.openQ ++ [nid] })
                    rfl rfl rfl rfl rfl rfl)).trans (ih _ id k (Inv_congr ho.1 rfl rfl rfl rfl) (by
                      show s2.cfg.block = true; rw [ho.2.1]; exact hb1))
                | none => exact (hst.trans (.single hm)).trans (ih s2 id k ho.1 (by rw [ho.2.1]; exact hb1))
            | close rid =>
              simp only
              have hm := onClose_micro (rid := rid) hq
              have hc := Inv_onClose h1 rid.mirror
              split
              · exact hst.trans (.single hm)
              · exact (hst.trans (.single hm)).trans (ih _ id k hc.1 (by rw [hc.2.1]; exact hb1))
            | reset rid =>
              simp only
              have hm := onReset_micro (rid := rid) hq
              have hc := Inv_onReset h1 rid.mirror
              split
              · exact hst.trans (.single hm)
              · exact (hst.trans (.single hm)).trans (ih _ id k hc.1 (by rw [hc.2.1]; exact hb1))

end C26
