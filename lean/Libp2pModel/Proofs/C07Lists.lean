import Libp2pModel.Proofs.C07Inv
/-!
# C07 — bookkeeping lemmas about `findConn` / `upd` / `eraseConn` / `runAll` under `flatMap` and `count`
-/
namespace C07

theorem findConn_cons (a : Conn) (r : List Conn) (c : Nat) :
    findConn (a :: r) c = if a.id = c then some a else findConn r c := by
  unfold findConn
  by_cases h : a.id = c
  · simp [List.find?, h]
  · have h' : (a.id == c) = false := by simpa using h
    simp [List.find?, h, h']

theorem upd_cons (a : Conn) (r : List Conn) (c : Nat) (f : Conn → Conn) :
    upd (a :: r) c f = if a.id = c then f a :: r else a :: upd r c f := by
  rw [upd]; by_cases h : a.id = c <;> simp [h]

theorem eraseConn_cons (a : Conn) (r : List Conn) (c : Nat) :
    eraseConn (a :: r) c = if a.id = c then r else a :: eraseConn r c := by
  rw [eraseConn]; by_cases h : a.id = c <;> simp [h]

theorem upd_none {cs : List Conn} {c : Nat} (f : Conn → Conn) (h : findConn cs c = none) :
    upd cs c f = cs := by
  induction cs with
  | nil => rfl
  | cons a r ih =>
    rw [findConn_cons] at h
    rw [upd_cons]
    by_cases ha : a.id = c
    · simp [ha] at h
    · simp only [ha, ↓reduceIte] at h ⊢; rw [ih h]

theorem eraseConn_none {cs : List Conn} {c : Nat} (h : findConn cs c = none) : eraseConn cs c = cs := by
  induction cs with
  | nil => rfl
  | cons a r ih =>
    rw [findConn_cons] at h
    rw [eraseConn_cons]
    by_cases ha : a.id = c
    · simp [ha] at h
    · simp only [ha, ↓reduceIte] at h ⊢; rw [ih h]

/-- updating the found entry: the old entry's contribution is replaced by the new one's -/
theorem count_upd (g : Conn → List Nat) (x : Nat) {cs : List Conn} {c : Nat} {k0 : Conn} (f : Conn → Conn)
    (h : findConn cs c = some k0) :
    ((upd cs c f).flatMap g).count x + (g k0).count x = (cs.flatMap g).count x + (g (f k0)).count x := by
  induction cs with
  | nil => simp [findConn] at h
  | cons a r ih =>
    rw [findConn_cons] at h
    rw [upd_cons]
    by_cases ha : a.id = c
    · simp only [ha, ↓reduceIte, Option.some.injEq] at h ⊢
      subst h
      simp only [List.flatMap_cons, List.count_append]; omega
    · simp only [ha, ↓reduceIte] at h ⊢
      have := ih h
      simp only [List.flatMap_cons, List.count_append]; omega

theorem flatMap_upd_same (g : Conn → List Nat) {cs : List Conn} {c : Nat} (f : Conn → Conn)
    (hf : ∀ k, g (f k) = g k) : (upd cs c f).flatMap g = cs.flatMap g := by
  induction cs with
  | nil => rfl
  | cons a r ih =>
    rw [upd_cons]
    by_cases ha : a.id = c <;> simp [ha, List.flatMap_cons, hf, ih]

theorem flatMap_map_same (g : Conn → List Nat) {cs : List Conn} (f : Conn → Conn)
    (hf : ∀ k ∈ cs, g (f k) = g k) : (cs.map f).flatMap g = cs.flatMap g := by
  induction cs with
  | nil => rfl
  | cons a r ih =>
    simp only [List.map_cons, List.flatMap_cons]
    rw [hf a (by simp), ih (fun k hk => hf k (List.mem_cons_of_mem _ hk))]

theorem count_erase (g : Conn → List Nat) (x : Nat) (cs : List Conn) (c : Nat) :
    ((eraseConn cs c).flatMap g).count x + ((findConn cs c).toList.flatMap g).count x
      = (cs.flatMap g).count x := by
  induction cs with
  | nil => simp [eraseConn, findConn]
  | cons a r ih =>
    rw [findConn_cons, eraseConn_cons]
    by_cases ha : a.id = c
    · simp only [ha, ↓reduceIte, Option.toList_some, List.flatMap_cons, List.flatMap_nil,
        List.append_nil, List.count_append]; omega
    · simp only [ha, ↓reduceIte, List.flatMap_cons, List.count_append]; omega

theorem runAll_fst (cs : List Conn) : (runAll cs).1 = cs.map (fun k => k.runTask.1) := by
  induction cs with
  | nil => rfl
  | cons a r ih =>
    have e1 : (runAll (a :: r)).1 = a.runTask.1 :: (runAll r).1 := by rw [runAll]
    rw [e1, ih]; rfl

theorem findConn_map {cs : List Conn} (f : Conn → Conn) (hf : ∀ k, (f k).id = k.id) (c : Nat) :
    findConn (cs.map f) c = (findConn cs c).map f := by
  induction cs with
  | nil => rfl
  | cons a r ih =>
    rw [List.map_cons, findConn_cons, findConn_cons, hf]
    by_cases ha : a.id = c <;> simp [ha, ih]

theorem findConn_upd {cs : List Conn} (f : Conn → Conn) (hf : ∀ k, (f k).id = k.id) (c id : Nat) :
    findConn (upd cs c f) id = if id = c then (findConn cs id).map f else findConn cs id := by
  induction cs with
  | nil => simp [upd, findConn]
  | cons a r ih =>
    rw [upd_cons]
    by_cases ha : a.id = c
    · simp only [ha, ↓reduceIte]
      rw [findConn_cons, findConn_cons, hf, ha]
      by_cases hc : c = id
      · subst hc; simp
      · have : ¬ id = c := fun h => hc h.symm
        simp [hc, this]
    · simp only [ha, ↓reduceIte]
      rw [findConn_cons, findConn_cons, ih]
      by_cases hi : a.id = id
      · have : ¬ id = c := fun h => ha (hi ▸ h)
        simp [hi, this]
      · simp [hi]

theorem findConn_erase_ne {cs : List Conn} {c id : Nat} (h : id ≠ c) :
    findConn (eraseConn cs c) id = findConn cs id := by
  induction cs with
  | nil => rfl
  | cons a r ih =>
    rw [eraseConn_cons]
    by_cases ha : a.id = c
    · simp only [ha, ↓reduceIte]
      rw [findConn_cons]
      have : ¬ a.id = id := fun h' => h (h' ▸ ha)
      simp [this]
    · simp only [ha, ↓reduceIte]
      rw [findConn_cons, findConn_cons, ih]

theorem findConn_append (cs : List Conn) (k : Conn) (id : Nat) :
    findConn (cs ++ [k]) id = match findConn cs id with
      | some x => some x
      | none => if k.id = id then some k else none := by
  induction cs with
  | nil => simp [findConn]
  | cons a r ih =>
    rw [List.cons_append, findConn_cons, findConn_cons]
    by_cases ha : a.id = id <;> simp [ha, ih]

/-- connection ids, as a `flatMap` so that the lemmas above apply -/
def cids (cs : List Conn) : List Nat := cs.flatMap (fun k => [k.id])

theorem mem_cids {cs : List Conn} {id : Nat} : id ∈ cids cs ↔ ∃ k ∈ cs, k.id = id := by
  simp [cids, List.mem_flatMap, eq_comm]

theorem findConn_none_iff {cs : List Conn} {id : Nat} : findConn cs id = none ↔ id ∉ cids cs := by
  induction cs with
  | nil => simp [findConn, cids]
  | cons a r ih =>
    rw [findConn_cons]
    by_cases ha : a.id = id
    · simp [ha, cids]
    · have : ¬ id = a.id := fun h => ha h.symm
      simp only [ha, ↓reduceIte, ih]
      simp [cids, this]

end C07
