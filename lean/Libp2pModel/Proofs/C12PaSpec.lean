import Libp2pModel.Proofs.C12Pa
/-! # C12 — the Spec's boolean `paChanged` decides `¬ SameAddrs` (link Spec ↔ theorem) -/
namespace C12

theorem addrsOf_nil_of_not_key (o : PA) (q : Peer) (h : q ∉ keys o) : addrsOf o q = [] := by
  simp [addrsOf, (lookup_none_iff o q).2 h]

theorem paChanged_iff (o o' : PA) (hn : (keys o).Nodup) (hn' : (keys o').Nodup) :
    Spec.paChanged (abs o) (abs o') = true ↔ ¬ SameAddrs o o' := by
  simp only [Spec.paChanged, List.any_eq_true, Bool.not_eq_true', List.mem_append]
  constructor
  · rintro ⟨p, _, hs⟩ hsame
    have : Spec.sameSet (Spec.addrs (abs o) p) (Spec.addrs (abs o') p) = true := by
      rw [sameSet_iff, spec_addrs_abs o hn, spec_addrs_abs o' hn']
      intro x; simp only [List.mem_reverse]; exact (hsame p x).symm
    rw [this] at hs; exact Bool.noConfusion hs
  · intro hns
    apply Classical.byContradiction
    intro hne
    apply hns
    intro q x
    by_cases hk : q ∈ keys o ∨ q ∈ keys o'
    · have hq : q ∈ (abs o).map (·.1) ∨ q ∈ (abs o').map (·.1) := by
        rw [keys_abs, keys_abs]; simpa using hk
      have hs : Spec.sameSet (Spec.addrs (abs o) q) (Spec.addrs (abs o') q) = true := by
        cases h : Spec.sameSet (Spec.addrs (abs o) q) (Spec.addrs (abs o') q)
        · exact absurd ⟨q, hq, h⟩ hne
        · rfl
      rw [sameSet_iff, spec_addrs_abs o hn, spec_addrs_abs o' hn'] at hs
      have := hs x
      simp only [List.mem_reverse] at this
      exact this.symm
    · have h1 : q ∉ keys o := fun h => hk (Or.inl h)
      have h2 : q ∉ keys o' := fun h => hk (Or.inr h)
      rw [addrsOf_nil_of_not_key o q h1, addrsOf_nil_of_not_key o' q h2]

/-- the flag the Spec monitor demands for a `PeerAddresses` event is the flag the (repaired) model returns -/
theorem paStep_flag_spec (c : Caps) (ha : 1 ≤ c.addr) (hp : 1 ≤ c.peers) (o : PA) (hi : PaInv c o) (ev : Ev) :
    (paStep c o ev).2 = Spec.paChanged (abs o) (Spec.pa c (abs o) ev) := by
  rw [← paStep_abs c o hi ev]
  have h1 := paStep_changed_iff c ha hp o hi ev
  have h2 := paChanged_iff o (paStep c o ev).1 hi.nodup (paStep_inv c ha o hi ev).nodup
  cases hf : (paStep c o ev).2 <;> cases hg : Spec.paChanged (abs o) (abs (paStep c o ev).1)
  · rfl
  · exact absurd (h1.2 (h2.1 hg)) (by simp [hf])
  · exact absurd (h2.2 (h1.1 hf)) (by simp [hg])
  · rfl

end C12
