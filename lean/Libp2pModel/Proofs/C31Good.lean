import Libp2pModel.Proofs.C31Walk
/-!
# C31 — the decoder is a `Framed.Good` decoder on ALL byte strings; it never panics
-/
namespace C31

/-! ## stability under appended input (for every buffer, also malformed ones) -/

theorem validate_append (L : Limits) (b x : List Nat) (n : Nat) (rem : List Nat)
    (huv : uvDecode 0 b = .ok n rem) (hn : n ≤ rem.length) : validate L (b ++ x) = validate L b := by
  have huv' := uv_stable b 0 n rem x huv
  unfold validate consumePrefix
  rw [huv, huv']
  simp only [List.length_append]
  rw [if_neg (by omega), if_neg (by omega)]
  simp only [List.take_append_of_le_length hn]

theorem codecDecode_append (max : Nat) (b x : List Nat) (fs : List Tok) (rest : List Nat)
    (h : codecDecode max b = .ok fs rest) : codecDecode max (b ++ x) = .ok fs (rest ++ x) := by
  unfold codecDecode at h
  cases huv : uvDecode 0 b with
  | insufficient => rw [huv] at h; cases h
  | overflow => rw [huv] at h; cases h
  | notMinimal => rw [huv] at h; cases h
  | ok n rem =>
    rw [huv] at h
    simp only at h
    have hlen := uv_length b 0 n rem huv
    have huv' := uv_stable b 0 n rem x huv
    split at h
    · cases h
    · rename_i hmax
      split at h
      · cases h
      · rename_i hfull
        have hn : n ≤ rem.length := by omega
        unfold codecDecode
        rw [huv']
        simp only
        rw [if_neg hmax]
        rw [if_neg (by simp only [List.length_append]; omega)]
        rw [List.take_append_of_le_length hn, List.drop_append_of_le_length hn]
        cases hp : parse (List.take n rem).length (List.take n rem) with
        | err e => rw [hp] at h; cases h
        | ok fs' =>
          rw [hp] at h
          simp only at h ⊢
          injection h with h1 h2
          subst h1 h2
          rfl

/-- what a successful step tells about the buffer -/
theorem decodeStep_ok_uv (L : Limits) (b : List Nat) (fs : List Tok) (rest : List Nat)
    (h : decodeStep L b = .ok fs rest) :
    ∃ n rem, uvDecode 0 b = .ok n rem ∧ n ≤ rem.length ∧ rest = rem.drop n ∧
      codecDecode L.max b = .ok fs rest := by
  have hc : codecDecode L.max b = .ok fs rest := by
    unfold decodeStep at h
    cases hv : validate L b with
    | err e => rw [hv] at h; cases h
    | incomplete => rw [hv] at h; exact h
    | ok => rw [hv] at h; exact h
  have hc' := hc
  unfold codecDecode at hc
  cases huv : uvDecode 0 b with
  | insufficient => rw [huv] at hc; cases hc
  | overflow => rw [huv] at hc; cases hc
  | notMinimal => rw [huv] at hc; cases hc
  | ok n rem =>
    rw [huv] at hc
    simp only at hc
    have hlen := uv_length b 0 n rem huv
    split at hc
    · cases hc
    · split at hc
      · cases hc
      · rename_i hfull
        refine ⟨n, rem, rfl, by omega, ?_, hc'⟩
        cases hp : parse (List.take n rem).length (List.take n rem) with
        | err e => rw [hp] at hc; cases hc
        | ok fs' =>
          rw [hp] at hc
          simp only at hc
          injection hc with h1 h2
          exact h2.symm

/-- **stability**: the verdict on a decoded first frame does not depend on what follows it -/
theorem decodeStep_stable (L : Limits) (b x : List Nat) (fs : List Tok) (rest : List Nat)
    (h : decodeStep L b = .ok fs rest) : decodeStep L (b ++ x) = .ok fs (rest ++ x) := by
  obtain ⟨n, rem, huv, hn, _, hc⟩ := decodeStep_ok_uv L b fs rest h
  have hv := validate_append L b x n rem huv hn
  have hc' := codecDecode_append L.max b x fs rest hc
  unfold decodeStep at h ⊢
  rw [hv]
  cases hvb : validate L b with
  | err e => rw [hvb] at h; cases h
  | incomplete => simp only; exact hc'
  | ok => simp only; exact hc'

theorem decodeStep_progress (L : Limits) (b : List Nat) (fs : List Tok) (rest : List Nat)
    (h : decodeStep L b = .ok fs rest) : rest.length < b.length := by
  obtain ⟨n, rem, huv, hn, hrest, _⟩ := decodeStep_ok_uv L b fs rest h
  have := uv_length b 0 n rem huv
  subst hrest
  simp only [List.length_drop]
  omega

/-- the decoder as a `Framed.Dec` (errors and "need more" both yield no frame) -/
def decOk (L : Limits) : Framed.Dec (List Tok) := fun buf =>
  match decodeStep L buf with
  | .ok fs rest => some (fs, rest)
  | _ => none

theorem decOk_good (L : Limits) : Framed.Good (decOk L) where
  progress := by
    intro b f r h
    unfold decOk at h
    cases hd : decodeStep L b with
    | needMore => rw [hd] at h; cases h
    | err e => rw [hd] at h; cases h
    | ok fs rest =>
      rw [hd] at h
      simp only [Option.some.injEq, Prod.mk.injEq] at h
      obtain ⟨rfl, rfl⟩ := h
      exact decodeStep_progress L b fs rest hd
  stable := by
    intro b f r x h
    unfold decOk at h ⊢
    cases hd : decodeStep L b with
    | needMore => rw [hd] at h; cases h
    | err e => rw [hd] at h; cases h
    | ok fs rest =>
      rw [hd] at h
      simp only [Option.some.injEq, Prod.mk.injEq] at h
      obtain ⟨rfl, rfl⟩ := h
      rw [decodeStep_stable L b x fs rest hd]

/-! ## no panic -/

theorem pbAux_length (fuel : Nat) : ∀ (buf : List Nat) (v : Nat) (r : List Nat),
    pbVarintAux fuel buf = some (v, r) → r.length < buf.length := by
  induction fuel with
  | zero => intro buf v r h; simp [pbVarintAux] at h
  | succ k ih =>
    intro buf v r h
    cases buf with
    | nil => simp [pbVarintAux] at h
    | cons b rest =>
      unfold pbVarintAux at h
      split at h
      · split at h
        · cases h
        · injection h with h; injection h with h1 h2; subst h2; simp
      · cases hr : pbVarintAux k rest with
        | none => rw [hr] at h; cases h
        | some p =>
          obtain ⟨v', r'⟩ := p
          rw [hr] at h
          simp only [Option.some.injEq, Prod.mk.injEq] at h
          obtain ⟨_, rfl⟩ := h
          have := ih rest v' r' hr
          simp; omega

theorem decodeKey_length (buf : List Nat) (t : Nat) (w : WT) (r : List Nat)
    (h : decodeKey buf = some (t, w, r)) : r.length < buf.length := by
  unfold decodeKey at h
  cases hp : pbVarint buf with
  | none => rw [hp] at h; cases h
  | some p =>
    obtain ⟨key, rest⟩ := p
    rw [hp] at h
    simp only at h
    have hl := pbAux_length 10 buf key rest hp
    split at h
    · cases h
    · cases hw : wtOf (key % 8) with
      | none => rw [hw] at h; cases h
      | some wt =>
        rw [hw] at h
        simp only at h
        split at h
        · cases h
        · simp only [Option.some.injEq, Prod.mk.injEq] at h
          obtain ⟨_, _, rfl⟩ := h
          exact hl

theorem adv_length (n : Nat) (buf r : List Nat) (h : adv n buf = some r) : r.length ≤ buf.length := by
  unfold adv at h
  split at h
  · cases h
  · injection h with h; subst h; simp

theorem skip_length (fuel : Nat) :
    (∀ depth wt tag buf r, skipField fuel depth wt tag buf = some r → r.length ≤ buf.length) ∧
    (∀ depth tag buf r, skipGroup fuel depth tag buf = some r → r.length ≤ buf.length) := by
  induction fuel with
  | zero =>
    constructor
    · intro depth wt tag buf r h; simp [skipField] at h
    · intro depth tag buf r h; simp [skipGroup] at h
  | succ k ih =>
    constructor
    · intro depth wt tag buf r h
      unfold skipField at h
      split at h
      · cases h
      · cases wt with
        | varint =>
          simp only at h
          cases hp : pbVarint buf with
          | none => rw [hp] at h; cases h
          | some p =>
            obtain ⟨v, r'⟩ := p
            rw [hp] at h
            simp only [Option.map_some, Option.some.injEq] at h
            subst h
            have := pbAux_length 10 buf v r' hp
            omega
        | i32 => exact adv_length 4 buf r h
        | i64 => exact adv_length 8 buf r h
        | len =>
          simp only at h
          cases hp : pbVarint buf with
          | none => rw [hp] at h; cases h
          | some p =>
            obtain ⟨l, r'⟩ := p
            rw [hp] at h
            simp only at h
            have h1 := pbAux_length 10 buf l r' hp
            have h2 := adv_length l r' r h
            omega
        | sgroup => exact ih.2 depth tag buf r h
        | egroup => cases h
    · intro depth tag buf r h
      unfold skipGroup at h
      cases hk : decodeKey buf with
      | none => rw [hk] at h; cases h
      | some p =>
        obtain ⟨itag, iwt, r1⟩ := p
        rw [hk] at h
        simp only at h
        have hl := decodeKey_length buf itag iwt r1 hk
        split at h
        · split at h
          · cases h
          · injection h with h; subst h; omega
        · cases hs : skipField k (depth - 1) iwt itag r1 with
          | none => rw [hs] at h; cases h
          | some r2 =>
            rw [hs] at h
            simp only at h
            have h1 := ih.1 (depth - 1) iwt itag r1 r2 hs
            have h2 := ih.2 depth tag r2 r h
            omega

theorem consume_length (wt : WT) (tag : Nat) (buf r : List Nat) (h : consumeMessage wt tag buf = some r) :
    r.length ≤ buf.length := (skip_length _).1 100 wt tag buf r h

/-- the limit walk never panics: the subtraction `field_start.len() - buf.len()` cannot underflow and
the loop terminates (every field consumes at least its key) -/
theorem walk_no_panic (L : Limits) (fuel : Nat) : ∀ (buf : List Nat) (pc cs : Nat), buf.length ≤ fuel →
    walk L fuel buf pc cs ≠ .err .panic := by
  induction fuel with
  | zero =>
    intro buf pc cs hlen
    have : buf = [] := by cases buf with | nil => rfl | cons _ _ => simp at hlen
    subst this
    simp [walk]
  | succ k ih =>
    intro buf pc cs hlen
    unfold walk
    split
    · simp
    · cases hk : decodeKey buf with
      | none => simp
      | some p =>
        obtain ⟨tag, wt, r⟩ := p
        simp only
        have h1 := decodeKey_length buf tag wt r hk
        cases hc : consumeMessage wt tag r with
        | none => simp
        | some r' =>
          simp only
          have h2 := consume_length wt tag r r' hc
          rw [if_neg (by omega)]
          have hk' : r'.length ≤ k := by omega
          split
          · split
            · simp
            · have := ih r' (pc + 1) cs hk'
              cases hw : walk L k r' (pc + 1) cs with
              | err e => rw [hw] at this; simp; intro he; subst he; exact this rfl
              | ok fs => simp
          · split
            · split
              · simp
              · have := ih r' pc (cs + (buf.length - r'.length)) hk'
                cases hw : walk L k r' pc (cs + (buf.length - r'.length)) with
                | err e => rw [hw] at this; simp; intro he; subst he; exact this rfl
                | ok fs => simp
            · have := ih r' pc cs hk'
              cases hw : walk L k r' pc cs with
              | err e => rw [hw] at this; simp; intro he; subst he; exact this rfl
              | ok fs => simp

theorem parse_no_panic (fuel : Nat) : ∀ (buf : List Nat), buf.length ≤ fuel → parse fuel buf ≠ .err .panic := by
  induction fuel with
  | zero =>
    intro buf hlen
    have : buf = [] := by cases buf with | nil => rfl | cons _ _ => simp at hlen
    subst this
    simp [parse]
  | succ k ih =>
    intro buf hlen
    unfold parse
    split
    · simp
    · cases hk : decodeKey buf with
      | none => simp
      | some p =>
        obtain ⟨tag, wt, r⟩ := p
        simp only
        have h1 := decodeKey_length buf tag wt r hk
        split
        · simp
        · cases hc : consumeMessage wt tag r with
          | none => simp
          | some r' =>
            simp only
            have h2 := consume_length wt tag r r' hc
            have := ih r' (by omega)
            cases hw : parse k r' with
            | err e => rw [hw] at this; simp; intro he; subst he; exact this rfl
            | ok fs => simp

end C31
