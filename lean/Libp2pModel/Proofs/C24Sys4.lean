import Libp2pModel.Proofs.C24Sys3
/-! preservation, part 3: `openAccept`, `openRefuse` and the emitting events at endpoint `X` -/
namespace C24
open C26
open C25 (Sid Role Frame)

theorem full_openAccept {X X' Y : State} (h : Full X Y) (rid : Sid) (hn : X'.nextId = X.nextId)
    (hi : inFrames X = .opn rid :: inFrames X') (hp : X'.pendQ = X.pendQ) (he : X'.emitted = X.emitted)
    (h0 : entOf X rid.mirror = none) (h1 : entOf X' rid.mirror = some ⟨true, [], []⟩)
    (h2 : ∀ j, j ≠ rid.mirror → entOf X' j = entOf X j) : Full X' Y := by
  have hch := chanXY_of_emitted (Y := Y) he
  have hch2 := chan_pop (Y := Y) hi
  have hhead : Frame.opn rid ∈ chan Y X := by rw [hch2]; exact List.mem_cons_self
  have hrole : rid.role = .dialer := h.yx.k0 rid hhead
  have hml : rid.mirror.role = .listener := mirror_role_dialer hrole
  have k6h := h.xy.k6 rid hhead
  have t := dir_tail_pop h.yx hn hi
  have hk3 := h.yx.k3
  rw [hch2] at hk3
  constructor
  · -- X' as emitter
    refine { k0 := ?_, k1 := ?_, k2 := ?_, k3 := ?_, k4 := ?_, k5 := ?_, k6 := ?_, k7 := ?_, k8 := ?_, k9 := ?_, k10 := ?_ }
    · intro id hid; rw [hch] at hid; exact h.xy.k0 id hid
    · intro f hf hr; rw [hch, hp] at hf; rw [hn]; exact h.xy.k1 f hf hr
    · intro id e he' hr; rw [hn]; exact h.xy.k2 id e he' hr
    · rw [hch]; exact h.xy.k3
    · intro id hid e he'
      rw [hch] at hid ⊢
      by_cases hir : id = rid.mirror
      · have := h.xy.k0 id hid
        rw [hir, hml] at this; cases this
      · rw [h2 id hir] at he'; exact h.xy.k4 id hid e he'
    · intro i ex ey hx hy
      rw [hch]
      by_cases hir : i = rid.mirror
      · subst hir
        rw [h1] at hx
        simp only [Option.some.injEq] at hx; subst hx
        rw [mirror_mirror] at hy
        have hrx := k6h.2 ey hy
        have hd : dataOf rid.mirror (chan X Y) = [] :=
          dataOf_nil_of _ _ (fun f hf => k6h.1 f (List.mem_append.2 (.inl hf)))
        rw [hrx, hd]
        exact ⟨fun _ => rfl, List.prefix_refl _⟩
      · rw [h2 i hir] at hx; exact h.xy.k5 i ex ey hx hy
    · intro id hid
      have hid' : Frame.opn id ∈ chan Y X := by rw [hch2]; exact List.mem_cons_of_mem _ hid
      have := h.xy.k6 id hid'
      rw [hch, hp]; exact this
    · intro id hid; rw [hch] at hid; exact h.xy.k7 id hid
    · intro f hf hr; rw [hch, hp] at hf; exact h.xy.k8 f hf hr
    · intro f hf; rw [hp] at hf; exact h.xy.k9 f hf
    · intro id e he' hr
      by_cases hir : id = rid.mirror
      · rw [hir, hml] at hr; cases hr
      · rw [h2 id hir] at he'; rw [hn]; exact h.xy.k10 id e he' hr
  · -- X' as receiver
    refine dir_of_tail t ?_ ?_ ?_ ?_
    · intro id e he' hr
      by_cases hir : id = rid.mirror
      · rw [hir, mirror_num]
        exact h.yx.k1 (.opn rid) (List.mem_append.2 (.inl hhead)) hrole
      · rw [h2 id hir] at he'; exact h.yx.k2 id e he' hr
    · intro i ex ey hx hy
      by_cases hir : i = rid
      · subst hir
        rw [h1] at hy
        simp only [Option.some.injEq] at hy; subst hy
        have := h.yx.k4 i hhead ex hx
        rw [hch2] at this
        have e1 : ex.acc = dataOf i (chan Y X') := this
        exact ⟨fun _ => by simpa using e1, List.nil_prefix⟩
      · have hne : i.mirror ≠ rid.mirror := fun e' => hir (mirror_inj e')
        rw [h2 _ hne] at hy
        have old := h.yx.k5 i ex ey hx hy
        rw [hch2] at old
        exact old
    · intro id hid
      rw [hch] at hid
      have := h.yx.k6 id hid
      refine ⟨fun g hg => this.1 g (t.sub g hg), fun e' he' => ?_⟩
      by_cases hir : id = rid.mirror
      · subst hir; rw [h1] at he'
        simp only [Option.some.injEq] at he'; subst he'; rfl
      · rw [h2 id hir] at he'; exact this.2 e' he'
    · intro id hid
      have hne : id.mirror ≠ rid.mirror := by
        intro e'
        have : id = rid := mirror_inj e'
        subst this
        exact hk3.1 id hid rfl
      rw [h2 _ hne]
      exact h.yx.k7 id (by rw [hch2]; exact List.mem_cons_of_mem _ hid)

theorem full_openRefuse {X X' Y : State} (h : Full X Y) (rid : Sid) (hn : X'.nextId = X.nextId)
    (hi : inFrames X = .opn rid :: inFrames X') (hp : X'.pendQ = X.pendQ ++ [.reset rid.mirror])
    (he : X'.emitted = X.emitted) (hent : ∀ id, entOf X' id = entOf X id) : Full X' Y := by
  have hch := chanXY_of_emitted (Y := Y) he
  have hch2 := chan_pop (Y := Y) hi
  have hhead : Frame.opn rid ∈ chan Y X := by rw [hch2]; exact List.mem_cons_self
  have hrole : rid.role = .dialer := h.yx.k0 rid hhead
  have hml : rid.mirror.role = .listener := mirror_role_dialer hrole
  have t := dir_tail_pop h.yx hn hi
  have hk3 := h.yx.k3
  rw [hch2] at hk3
  have hall : ∀ f, f ∈ chan X' Y ++ X'.pendQ → f ∈ chan X Y ++ X.pendQ ∨ f = .reset rid.mirror := by
    intro f hf
    rw [hch, hp, ← List.append_assoc] at hf
    rcases List.mem_append.1 hf with h1 | h1
    · exact .inl h1
    · exact .inr (by simpa using h1)
  constructor
  · refine { k0 := ?_, k1 := ?_, k2 := ?_, k3 := ?_, k4 := ?_, k5 := ?_, k6 := ?_, k7 := ?_, k8 := ?_, k9 := ?_, k10 := ?_ }
    · intro id hid; rw [hch] at hid; exact h.xy.k0 id hid
    · intro f hf hr
      rcases hall f hf with h1 | h1
      · rw [hn]; exact h.xy.k1 f h1 hr
      · subst h1; simp only [Frame.id] at hr; rw [hml] at hr; cases hr
    · intro id e he' hr; rw [hn]; exact h.xy.k2 id e he' hr
    · rw [hch]; exact h.xy.k3
    · intro id hid e he'; rw [hch] at hid ⊢; rw [hent] at he'; exact h.xy.k4 id hid e he'
    · intro i ex ey hx hy; rw [hent] at hx; rw [hch]; exact h.xy.k5 i ex ey hx hy
    · intro id hid
      have hid' : Frame.opn id ∈ chan Y X := by rw [hch2]; exact List.mem_cons_of_mem _ hid
      have := h.xy.k6 id hid'
      refine ⟨fun f hf => ?_, this.2⟩
      rcases hall f hf with h1 | h1
      · exact this.1 f h1
      · subst h1
        simp only [Frame.id]
        intro e'
        have : rid = id := mirror_inj e'
        subst this
        exact hk3.1 rid hid rfl
    · intro id hid; rw [hch] at hid; exact h.xy.k7 id hid
    · intro f hf hr
      rcases hall f hf with h1 | h1
      · exact h.xy.k8 f h1 hr
      · subst h1
        simp only [Frame.id, mirror_num]
        exact h.yx.k1 (.opn rid) (List.mem_append.2 (.inl hhead)) hrole
    · intro f hf
      rw [hp] at hf
      rcases List.mem_append.1 hf with h1 | h1
      · exact h.xy.k9 f h1
      · exact ⟨rid.mirror, by simpa using h1⟩
    · intro id e he' hr; rw [hent] at he'; rw [hn]; exact h.xy.k10 id e he' hr
  · refine dir_of_tail t ?_ ?_ ?_ ?_
    · intro id e he'; rw [hent] at he'; exact h.yx.k2 id e he'
    · intro i ex ey hx hy
      rw [hent] at hy
      have old := h.yx.k5 i ex ey hx hy
      rw [hch2] at old
      exact old
    · intro id hid
      rw [hch] at hid
      have := h.yx.k6 id hid
      exact ⟨fun g hg => this.1 g (t.sub g hg), fun e' he' => this.2 e' (by rw [← hent]; exact he')⟩
    · intro id hid
      rw [hent]
      exact h.yx.k7 id (by rw [hch2]; exact List.mem_cons_of_mem _ hid)

/-- `DirInv Y X` survives a change of the receiver `X` that takes nothing from its queue, does not
lower its counter, keeps the readable state and `rx` of every entry and creates no entry -/
theorem dir_receiver_keep {X X' Y : State} (h : DirInv Y X) (hn : X.nextId ≤ X'.nextId)
    (hi : inFrames X' = inFrames X)
    (hopn : ∀ id, Frame.opn id ∈ chan X' Y → Frame.opn id ∈ chan X Y)
    (hrx : ∀ j e', entOf X' j = some e' → ∃ e, entOf X j = some e ∧ e'.rx = e.rx ∧ e'.ro = e.ro) :
    DirInv Y X' := by
  have hch2 : chan Y X' = chan Y X := by unfold chan; rw [hi]
  refine { k0 := ?_, k1 := ?_, k2 := ?_, k3 := ?_, k4 := ?_, k5 := ?_, k6 := ?_, k7 := ?_, k8 := ?_, k9 := h.k9, k10 := h.k10 }
  · intro id hid; rw [hch2] at hid; exact h.k0 id hid
  · intro f hf hr; rw [hch2] at hf; exact h.k1 f hf hr
  · intro id e' he' hr
    obtain ⟨e, a, _⟩ := hrx id e' he'
    exact h.k2 id e a hr
  · rw [hch2]; exact h.k3
  · intro id hid e he'; rw [hch2] at hid ⊢; exact h.k4 id hid e he'
  · intro i ex ey' hx hy
    obtain ⟨ey, a, b, c⟩ := hrx _ ey' hy
    rw [hch2, b, c]; exact h.k5 i ex ey hx a
  · intro id hid
    have := h.k6 id (hopn id hid)
    rw [hch2]
    refine ⟨this.1, fun e' he' => ?_⟩
    obtain ⟨e, a, b, _⟩ := hrx id e' he'
    rw [b]; exact this.2 e a
  · intro id hid
    rw [hch2] at hid
    have old := h.k7 id hid
    cases hx : entOf X' id.mirror with
    | none => rfl
    | some e' =>
      obtain ⟨e, a, _⟩ := hrx _ e' hx
      rw [old] at a; cases a
  · intro f hf hr; rw [hch2] at hf; exact Nat.lt_of_lt_of_le (h.k8 f hf hr) hn

/-- `DirInv X Y` when `X` emits one frame `g` that is not an `Open` -/
theorem dir_emit_nonopen {X X' Y : State} (h : Full X Y) (g : Frame) (hg : ∀ id, g ≠ .opn id)
    (hn : X'.nextId = X.nextId) (hi : inFrames X' = inFrames X) (he : X'.emitted = X.emitted ++ [g])
    (hp : ∀ f, f ∈ X'.pendQ → f ∈ X.pendQ)
    (hg1 : g.id.role = .dialer → g.id.num < X.nextId) (hg8 : g.id.role = .listener → g.id.num < Y.nextId)
    (hg6 : ∀ id, Frame.opn id ∈ chan Y X → g.id ≠ id.mirror)
    (hacc : ∀ j ex', entOf X' j = some ex' → ∃ ex, entOf X j = some ex ∧ ex'.acc = ex.acc ++ dataOf j [g]) :
    DirInv X' Y := by
  have hch : chan X' Y = chan X Y ++ [g] := by unfold chan; rw [he, List.append_assoc]
  have hch2 : chan Y X' = chan Y X := by unfold chan; rw [hi]
  have hall : ∀ f, f ∈ chan X' Y ++ X'.pendQ → f ∈ chan X Y ++ X.pendQ ∨ f = g := by
    intro f hf
    rw [hch] at hf
    rcases List.mem_append.1 hf with h1 | h1
    · rcases List.mem_append.1 h1 with h2 | h2
      · exact .inl (List.mem_append.2 (.inl h2))
      · exact .inr (by simpa using h2)
    · exact .inl (List.mem_append.2 (.inr (hp f h1)))
  have hopn : ∀ id, Frame.opn id ∈ chan X' Y → Frame.opn id ∈ chan X Y := by
    intro id hid
    rw [hch] at hid
    rcases List.mem_append.1 hid with h1 | h1
    · exact h1
    · simp only [List.mem_singleton] at h1; exact absurd h1.symm (hg id)
  refine { k0 := ?_, k1 := ?_, k2 := ?_, k3 := ?_, k4 := ?_, k5 := ?_, k6 := ?_, k7 := ?_, k8 := ?_, k9 := ?_, k10 := ?_ }
  · intro id hid; exact h.xy.k0 id (hopn id hid)
  · intro f hf hr
    rw [hn]
    rcases hall f hf with h1 | h1
    · exact h.xy.k1 f h1 hr
    · subst h1; exact hg1 hr
  · intro id e he' hr; rw [hn]; exact h.xy.k2 id e he' hr
  · rw [hch]; exact OrdOK_snoc _ g h.xy.k3 (fun id e' => absurd e' (hg id))
  · intro id hid e' he'
    obtain ⟨ex, a, b⟩ := hacc id e' he'
    rw [b, hch, dataOf_append, h.xy.k4 id (hopn id hid) ex a]
  · intro i ex' ey hx hy
    obtain ⟨ex, a, b⟩ := hacc i ex' hx
    have old := h.xy.k5 i ex ey a hy
    refine ⟨fun hr => ?_, ?_⟩
    · rw [b, hch, dataOf_append, old.1 hr, List.append_assoc]
    · rw [b]; exact old.2.trans (List.prefix_append _ _)
  · intro id hid
    rw [hch2] at hid
    have := h.xy.k6 id hid
    refine ⟨fun f hf => ?_, this.2⟩
    rcases hall f hf with h1 | h1
    · exact this.1 f h1
    · subst h1; exact hg6 id hid
  · intro id hid; exact h.xy.k7 id (hopn id hid)
  · intro f hf hr
    rcases hall f hf with h1 | h1
    · exact h.xy.k8 f h1 hr
    · subst h1; exact hg8 hr
  · intro f hf; exact h.xy.k9 f (hp f hf)
  · intro id e' he' hr
    obtain ⟨ex, a, _⟩ := hacc id e' he'
    rw [hn]; exact h.xy.k10 id ex a hr

end C24
