import Libp2pModel.Common.Machine
import Libp2pModel.Proofs.C51_Sim
/-!
# C51 — `poll` one iteration at a time

`pollStep s e` is one iteration of the loop in `Registrations::poll`: `FuturesUnordered` yields the
completed expiry timer `e = (deadline, id)` (which thereby leaves `next_expiry`) and the loop body
(`pollOne`) runs for `id`. `PollRun` is an arbitrary maximal sequence of such iterations at the
current instant — at every step ANY due timer may be the next one yielded.  The main result is that
every such run ends in the state computed by the bulk `advance`, with the same events up to order.
-/
namespace C51

theorem pollOne_regs (s : St) (id : Nat) :
    (pollOne s id).1.regs = s.regs.filter (fun e => !decide (e.1 = id)) := by
  unfold pollOne
  cases hl : lookup id s.regs with
  | none =>
    exact (List.filter_eq_self.2 (fun e he => by simpa using lookup_none_not_mem hl e he)).symm
  | some r => rfl

theorem pollOne_frame (s : St) (id : Nat) :
    (pollOne s id).1.byPeer = s.byPeer.filter (fun e => !decide (e.2 = id)) ∧
    (pollOne s id).1.cookies = s.cookies.filterMap (purgeEntry fun i => !decide (i = id)) ∧
    (pollOne s id).1.timers = s.timers ∧ (pollOne s id).1.now = s.now ∧
    (pollOne s id).1.nextId = s.nextId ∧ (pollOne s id).1.nextCookie = s.nextCookie := by
  unfold pollOne
  cases lookup id s.regs <;> exact ⟨rfl, rfl, rfl, rfl, rfl, rfl⟩

theorem pollOne_event (s : St) (id : Nat) :
    (pollOne s id).2 = (lookup id s.regs).map fun r => (id, r) := by
  unfold pollOne
  cases lookup id s.regs <;> rfl

/-- one loop iteration of `poll`: the yielded timer leaves `next_expiry`, the body runs for its id -/
def pollStep (s : St) (e : Nat × Nat) : St × Option (Nat × Reg) :=
  ({ (pollOne s e.2).1 with timers := s.timers.erase e }, (pollOne s e.2).2)

theorem St.ext' {a b : St} (h1 : a.byPeer = b.byPeer) (h2 : a.regs = b.regs) (h3 : a.cookies = b.cookies)
    (h4 : a.timers = b.timers) (h5 : a.now = b.now) (h6 : a.nextId = b.nextId)
    (h7 : a.nextCookie = b.nextCookie) : a = b := by
  cases a; cases b; simp only at h1 h2 h3 h4 h5 h6 h7; subst h1 h2 h3 h4 h5 h6 h7; rfl

theorem mem_dueIds {s : St} {t i : Nat} : i ∈ dueIds s t ↔ ∃ x ∈ s.timers, x.1 ≤ t ∧ x.2 = i := by
  unfold dueIds
  simp only [List.mem_map, List.mem_filter, decide_eq_true_eq]
  constructor
  · rintro ⟨x, ⟨hx, hd⟩, rfl⟩; exact ⟨x, hx, hd, rfl⟩
  · rintro ⟨x, hx, hd, rfl⟩; exact ⟨x, ⟨hx, hd⟩, rfl⟩

theorem filter_erase_of_false {α} [BEq α] [LawfulBEq α] (p : α → Bool) (e : α) (hp : p e = false) :
    ∀ l : List α, (l.erase e).filter p = l.filter p
  | [] => rfl
  | a :: t => by
    by_cases hae : a = e
    · subst hae; simp [List.erase_cons_head, List.filter, hp]
    · have : (a == e) = false := by simpa using hae
      rw [List.erase_cons_tail (by simpa using hae)]
      simp only [List.filter]
      rw [filter_erase_of_false p e hp t]

theorem filter_erase_length {α} [BEq α] [LawfulBEq α] (p : α → Bool) (e : α) (hp : p e = true) :
    ∀ l : List α, e ∈ l → ((l.erase e).filter p).length + 1 = (l.filter p).length
  | [], h => by simp at h
  | a :: t, h => by
    by_cases hae : a = e
    · subst hae; simp [List.erase_cons_head, List.filter, hp]
    · rw [List.erase_cons_tail (by simpa using hae)]
      have hm : e ∈ t := by
        rcases List.mem_cons.1 h with h | h
        · exact absurd h.symm hae
        · exact h
      have ih := filter_erase_length p e hp t hm
      cases hpa : p a <;> simp only [List.filter, hpa, List.length_cons] <;> omega

/-- `retain` twice = `retain` with the conjunction -/
theorem purge_purge (p q : Nat → Bool) (cs : List (Cookie × List Nat)) :
    (cs.filterMap (purgeEntry p)).filterMap (purgeEntry q) = cs.filterMap (purgeEntry fun i => q i && p i) := by
  rw [List.filterMap_filterMap]
  congr 1
  funext e
  unfold purgeEntry
  simp only
  cases hf : List.filter p e.2 with
  | nil =>
    have : List.filter (fun i => q i && p i) e.2 = [] := by
      rw [← List.filter_filter, hf]; rfl
    simp [this]
  | cons a t =>
    have : List.filter (fun i => q i && p i) e.2 = List.filter q (a :: t) := by
      rw [← List.filter_filter, hf]
    simp only [List.isEmpty_cons, Bool.false_eq_true, if_false, Option.bind_some, this]

/-- events of the bulk form at the current instant -/
def advEvents (s : St) : List (Nat × Reg) :=
  s.regs.filter (fun x => (dueIds s s.now).contains x.1)

theorem advance_zero_snd (s : St) : (advance s 0).2 = .expired (advEvents s) := rfl

theorem advance_tick (s : St) (d : Nat) :
    advance s d = advance { s with now := s.now + d } 0 := rfl

/-- with distinct keys, the entries under one key are what `lookup` finds -/
theorem filter_key_eq {β} (k : Nat) :
    ∀ l : List (Nat × β), (l.map (·.1)).Nodup →
      l.filter (fun x => decide (x.1 = k)) = ((lookup k l).map fun r => (k, r)).toList
  | [], _ => rfl
  | (a, b) :: t, hn => by
    simp only [List.map, List.nodup_cons] at hn
    by_cases hak : a = k
    · subst hak
      have : t.filter (fun x => decide (x.1 = a)) = [] := by
        apply List.filter_eq_nil_iff.2
        intro x hx
        have : x.1 ≠ a := fun h => hn.1 (List.mem_map.2 ⟨x, hx, h⟩)
        simpa using this
      simp [List.filter, lookup, this]
    · simp only [List.filter, hak, decide_false, lookup, if_false]
      exact filter_key_eq k t hn.2

/-- **One iteration commutes with the bulk form**: after any due timer `e` has been processed, the
bulk form reaches the same state, and its events plus the iteration's event are the bulk events. -/
theorem advance_pollStep (s : St) (e : Nat × Nat) (he : e ∈ s.timers) (hdue : e.1 ≤ s.now)
    (hnd : (s.regs.map (·.1)).Nodup) :
    (advance (pollStep s e).1 0).1 = (advance s 0).1 ∧
    ((pollStep s e).2.toList ++ advEvents (pollStep s e).1).Perm (advEvents s) := by
  obtain ⟨hbp, hck, _, hnow, hnid, hnck⟩ := pollOne_frame s e.2
  have hregs := pollOne_regs s e.2
  have hev := pollOne_event s e.2
  -- the due ids before = this id + the due ids after
  have hmem : ∀ i, (dueIds s s.now).contains i = (decide (i = e.2) || (dueIds (pollStep s e).1 s.now).contains i) := by
    intro i
    rw [Bool.eq_iff_iff]
    simp only [List.contains_iff_mem, Bool.or_eq_true, decide_eq_true_eq, mem_dueIds]
    constructor
    · rintro ⟨x, hx, hd, rfl⟩
      by_cases hxe : x = e
      · left; rw [hxe]
      · right; exact ⟨x, (List.mem_erase_of_ne hxe).2 hx, hd, rfl⟩
    · rintro (rfl | ⟨x, hx, hd, rfl⟩)
      · exact ⟨e, he, hdue, rfl⟩
      · exact ⟨x, List.mem_of_mem_erase hx, hd, rfl⟩
  have hnow1 : (pollStep s e).1.now = s.now := hnow
  constructor
  · apply St.ext'
    · show List.filter _ (pollOne s e.2).1.byPeer = List.filter _ s.byPeer
      rw [hbp, List.filter_filter]
      apply List.filter_congr
      intro x _
      rw [Nat.add_zero, Nat.add_zero, hnow1, hmem x.2]
      simp [Bool.and_comm]
    · show List.filter _ (pollOne s e.2).1.regs = List.filter _ s.regs
      rw [hregs, List.filter_filter]
      apply List.filter_congr
      intro x _
      rw [Nat.add_zero, Nat.add_zero, hnow1, hmem x.1]
      simp [Bool.and_comm]
    · show (if (dueIds (pollStep s e).1 ((pollStep s e).1.now + 0)).isEmpty then (pollOne s e.2).1.cookies
            else (pollOne s e.2).1.cookies.filterMap _) = _
      rw [Nat.add_zero, hnow1, hck]
      have hne : (dueIds s (s.now + 0)).isEmpty = false := by
        rw [Nat.add_zero]
        cases hd : dueIds s s.now with
        | nil =>
          have := (mem_dueIds (s := s) (t := s.now) (i := e.2)).2 ⟨e, he, hdue, rfl⟩
          rw [hd] at this; simp at this
        | cons _ _ => rfl
      show _ = (if (dueIds s (s.now + 0)).isEmpty then s.cookies else _)
      rw [hne]
      simp only [Bool.false_eq_true, if_false, Nat.add_zero]
      cases hd1 : dueIds (pollStep s e).1 s.now with
      | nil =>
        simp only [List.isEmpty_nil, if_true]
        congr 1
        funext x
        congr 1
        funext i
        rw [hmem i, hd1]; simp
      | cons a t =>
        simp only [List.isEmpty_cons, Bool.false_eq_true, if_false]
        rw [purge_purge]
        congr 1
        funext x
        congr 1
        funext i
        rw [hmem i, hd1]; simp [Bool.and_comm]
    · show List.filter _ (s.timers.erase e) = List.filter _ s.timers
      rw [Nat.add_zero, hnow1, Nat.add_zero]
      exact filter_erase_of_false _ e (by simpa using hdue) _
    · show (pollOne s e.2).1.now + 0 = s.now + 0
      rw [hnow]
    · exact hnid
    · exact hnck
  · -- events
    unfold advEvents
    rw [hnow1]
    show ((pollOne s e.2).2.toList ++ List.filter _ (pollOne s e.2).1.regs).Perm _
    rw [hev, hregs, List.filter_filter]
    have hsplit := List.filter_append_perm (fun x : Nat × Reg => decide (x.1 = e.2))
      (s.regs.filter (fun x => (dueIds s s.now).contains x.1))
    refine List.Perm.trans ?_ hsplit
    rw [List.filter_filter, List.filter_filter]
    have h1 : List.filter (fun a => decide (a.1 = e.2) && (dueIds s s.now).contains a.1) s.regs
        = ((lookup e.2 s.regs).map fun r => (e.2, r)).toList := by
      rw [← filter_key_eq e.2 s.regs hnd]
      apply List.filter_congr
      intro x _
      rw [hmem x.1]
      by_cases hx : x.1 = e.2 <;> simp [hx]
    have h2 : List.filter (fun a => (!decide (a.1 = e.2)) && (dueIds s s.now).contains a.1) s.regs
        = List.filter (fun a => (dueIds (pollStep s e).1 s.now).contains a.1 && !decide (a.1 = e.2)) s.regs := by
      apply List.filter_congr
      intro x _
      rw [hmem x.1]
      by_cases hx : x.1 = e.2 <;> simp [hx]
    rw [h1, h2]

/-- An arbitrary maximal run of `poll` iterations at the current instant: while some timer is due,
ANY due timer `e` may be the one `FuturesUnordered` yields next. `PollRun s n evs s'`: `n` iterations
from `s` emitted the events `evs` (in emission order) and ended in `s'`, where nothing is due. -/
inductive PollRun : St → Nat → List (Nat × Reg) → St → Prop
  | done {s : St} : (∀ e ∈ s.timers, ¬ e.1 ≤ s.now) → PollRun s 0 [] s
  | step {s : St} {e : Nat × Nat} {n : Nat} {evs : List (Nat × Reg)} {s' : St} :
      e ∈ s.timers → e.1 ≤ s.now → PollRun (pollStep s e).1 n evs s' →
      PollRun s (n + 1) ((pollStep s e).2.toList ++ evs) s'

/-- number of due timers: the termination measure -/
def dueCount (s : St) : Nat := (s.timers.filter (fun e => decide (e.1 ≤ s.now))).length

theorem pollStep_now (s : St) (e : Nat × Nat) : (pollStep s e).1.now = s.now :=
  (pollOne_frame s e.2).2.2.2.1

theorem pollStep_regs_nodup (s : St) (e : Nat × Nat) (hnd : (s.regs.map (·.1)).Nodup) :
    ((pollStep s e).1.regs.map (·.1)).Nodup := by
  show ((pollOne s e.2).1.regs.map (·.1)).Nodup
  rw [pollOne_regs]; exact nodup_map_filter _ _ hnd

/-- every iteration consumes exactly one due timer -/
theorem dueCount_pollStep (s : St) (e : Nat × Nat) (he : e ∈ s.timers) (hdue : e.1 ≤ s.now) :
    dueCount (pollStep s e).1 + 1 = dueCount s := by
  unfold dueCount
  rw [pollStep_now]
  exact filter_erase_length _ e (by simpa using hdue) _ he

theorem advance_nothing_due (s : St) (h : ∀ e ∈ s.timers, ¬ e.1 ≤ s.now) :
    (advance s 0).1 = s ∧ advEvents s = [] := by
  have hd : dueIds s s.now = [] := by
    unfold dueIds
    rw [List.filter_eq_nil_iff.2 (fun e he => by simpa using h e he)]; rfl
  constructor
  · apply St.ext' <;> simp only [advance, Nat.add_zero, hd]
    · simp
    · simp
    · simp
    · apply List.filter_eq_self.2
      intro e he
      have := h e he
      simp only [decide_eq_true_eq]; omega
  · unfold advEvents; rw [hd]; simp

/-- **Confluence.** Every maximal run of `poll` iterations — whatever the order in which the due
timers are yielded — ends in the state computed by the bulk form, has emitted a permutation of the
bulk form's events, and took exactly as many iterations as there were due timers. -/
theorem pollRun_eq_advance {s : St} {n : Nat} {evs : List (Nat × Reg)} {sf : St} (hrun : PollRun s n evs sf) :
    (s.regs.map (·.1)).Nodup → sf = (advance s 0).1 ∧ evs.Perm (advEvents s) ∧ n = dueCount s := by
  induction hrun with
  | @done s0 h =>
    intro _
    have := advance_nothing_due s0 h
    refine ⟨this.1.symm, by rw [this.2], ?_⟩
    unfold dueCount
    rw [List.filter_eq_nil_iff.2 (fun e he => by simpa using h e he)]; rfl
  | @step s0 e0 n0 evs0 s0' he hdue _ ih =>
    intro hnd
    obtain ⟨h1, h2, h3⟩ := ih (pollStep_regs_nodup s0 e0 hnd)
    have hc := advance_pollStep s0 e0 he hdue hnd
    refine ⟨by rw [h1, hc.1], ?_, by rw [h3]; exact dueCount_pollStep s0 e0 he hdue⟩
    exact List.Perm.trans (List.Perm.append_left _ h2) hc.2

/-- **Termination.** From every state a maximal run exists (and by `pollRun_eq_advance` all of them
have length `dueCount`). -/
theorem pollRun_exists : ∀ (m : Nat) (s : St), dueCount s = m → ∃ n evs sf, PollRun s n evs sf := by
  intro m
  induction m with
  | zero =>
    intro s h
    refine ⟨0, [], s, PollRun.done ?_⟩
    intro e he hd
    unfold dueCount at h
    have : e ∈ s.timers.filter (fun e => decide (e.1 ≤ s.now)) := List.mem_filter.2 ⟨he, by simpa using hd⟩
    rw [List.length_eq_zero_iff.1 h] at this
    simp at this
  | succ m ih =>
    intro s h
    unfold dueCount at h
    cases hf : s.timers.filter (fun e => decide (e.1 ≤ s.now)) with
    | nil => rw [hf] at h; simp at h
    | cons e t =>
      have hmem : e ∈ s.timers.filter (fun e => decide (e.1 ≤ s.now)) := by rw [hf]; simp
      have he := (List.mem_filter.1 hmem).1
      have hd : e.1 ≤ s.now := by simpa using (List.mem_filter.1 hmem).2
      have hc := dueCount_pollStep s e he hd
      have : dueCount (pollStep s e).1 = m := by unfold dueCount at hc ⊢; omega
      obtain ⟨n, evs, sf, hr⟩ := ih _ this
      exact ⟨n + 1, _, sf, PollRun.step he hd hr⟩

/-! ## fine-grained semantics: `poll` iterations interleaved with the other operations -/

/-- Operations at the granularity of the code: the clock moves (`tick`), and a *single* iteration of
`poll`'s loop runs for a due timer `e` chosen arbitrarily (`poll e`); between two iterations any
other request may be served. -/
inductive FOp
  | reg (peer ns : Nat) (ttl : Option Nat)
  | unreg (peer ns : Nat)
  | disc (q : Option Nat) (cookie : Option Cookie) (limit : Option Nat) (chosen : List Nat)
  | tick (d : Nat)
  | poll (e : Nat × Nat)
deriving Repr, DecidableEq

/-- `poll e` is enabled only for a pending timer whose deadline has passed (a `Delay` never completes
early); a disabled `poll` does nothing. -/
def fstep (c : Cfg) (s : St) : FOp → St × Out
  | .reg peer ns ttl => step c s (.reg peer ns ttl)
  | .unreg peer ns => step c s (.unreg peer ns)
  | .disc q cookie limit chosen => step c s (.disc q cookie limit chosen)
  | .tick d => ({ s with now := s.now + d }, .expired [])
  | .poll e =>
    if e ∈ s.timers ∧ e.1 ≤ s.now then ((pollStep s e).1, .expired (pollStep s e).2.toList) else (s, .bad)

/-- what holds in every state reachable with arbitrary interleaving -/
structure FInv (s : St) : Prop where
  tlt : ∀ t ∈ s.timers, t.2 < s.nextId
  tnd : (s.timers.map (·.2)).Nodup
  cur : ∀ k id, (k, id) ∈ s.byPeer → id < s.nextId ∧ ∃ dl, (dl, id) ∈ s.timers
  rlt : ∀ x ∈ s.regs, x.1 < s.nextId
  rnd : (s.regs.map (·.1)).Nodup

theorem finv_init : FInv St.init := by constructor <;> simp [St.init]

theorem remove_frame (s : St) (peer ns : Nat) :
    (remove s peer ns).timers = s.timers ∧ (remove s peer ns).now = s.now ∧
    (remove s peer ns).nextId = s.nextId ∧ (remove s peer ns).cookies = s.cookies ∧
    (remove s peer ns).nextCookie = s.nextCookie := by
  unfold remove; cases lookup (peer, ns) s.byPeer <;> exact ⟨rfl, rfl, rfl, rfl, rfl⟩

theorem remove_byPeer' (s : St) (peer ns : Nat) :
    (remove s peer ns).byPeer = s.byPeer.filter (fun e => !decide (e.1 = (peer, ns))) := by
  unfold remove
  cases hl : lookup (peer, ns) s.byPeer with
  | none =>
    exact (List.filter_eq_self.2 (fun e he => by simpa using lookup_none_not_mem hl e he)).symm
  | some id => rfl

/-- the two outcomes of a REGISTER -/
theorem reg_cases (c : Cfg) (s : St) (peer ns : Nat) (ttlOpt : Option Nat) :
    (∃ e, step c s (.reg peer ns ttlOpt) = (s, .regErr e)) ∨
    (∃ s', step c s (.reg peer ns ttlOpt) = (s', .regOk (ttlOpt.getD DEFAULT_TTL)) ∧
      s'.byPeer = bimapInsert (s.byPeer.filter (fun e => !decide (e.1 = (peer, ns)))) (peer, ns) s.nextId ∧
      s'.timers = s.timers ++ [(s.now + ttlOpt.getD DEFAULT_TTL, s.nextId)] ∧
      s'.nextId = s.nextId + 1 ∧ s'.now = s.now ∧
      s'.regs = mapInsert (remove s peer ns).regs s.nextId ⟨peer, ns, ttlOpt.getD DEFAULT_TTL⟩) := by
  simp only [step, stepV, add_fixed]
  by_cases hv : ttlOpt.getD DEFAULT_TTL > c.maxTtl ∨ ttlOpt.getD DEFAULT_TTL < c.minTtl
  · left; exact ⟨.invalidTtl, by simp only [hv, if_true]⟩
  · by_cases hrej : (lookup (peer, ns) s.byPeer).isNone ∧ (countPeer s.byPeer peer ≥ c.perPeer ∨ s.byPeer.length ≥ c.total)
    · left; exact ⟨.unavailable, by simp only [hv, hrej, and_self, if_true, if_false]⟩
    · right
      obtain ⟨h1, h2, h3, _, _⟩ := remove_frame s peer ns
      refine ⟨{ (remove s peer ns) with
            byPeer := bimapInsert (remove s peer ns).byPeer (peer, ns) s.nextId,
            regs := mapInsert (remove s peer ns).regs s.nextId ⟨peer, ns, ttlOpt.getD DEFAULT_TTL⟩,
            timers := (remove s peer ns).timers ++ [((remove s peer ns).now + ttlOpt.getD DEFAULT_TTL, s.nextId)],
            nextId := s.nextId + 1 }, by simp only [hv, hrej, if_false], ?_, ?_, rfl, ?_, rfl⟩
      · dsimp only; rw [remove_byPeer']
      · dsimp only; rw [h1, h2]
      · dsimp only; exact h2

theorem mem_bimapInsert {bp : List (Key × Nat)} {k k' : Key} {id id' : Nat} :
    (k', id') ∈ bimapInsert bp k id ↔ ((k', id') ∈ bp ∧ k' ≠ k ∧ id' ≠ id) ∨ (k' = k ∧ id' = id) := by
  unfold bimapInsert
  simp only [List.mem_append, List.mem_filter, List.mem_singleton, Prod.mk.injEq, Bool.and_eq_true,
    Bool.not_eq_true', decide_eq_false_iff_not]

theorem get_frame2 (c : Cfg) (s : St) (q : Option Nat) (cookie : Option Cookie) (limit : Option Nat) (chosen : List Nat) :
    (get c s q cookie limit chosen).1.byPeer = s.byPeer ∧ (get c s q cookie limit chosen).1.regs = s.regs ∧
    (get c s q cookie limit chosen).1.timers = s.timers ∧ (get c s q cookie limit chosen).1.now = s.now ∧
    (get c s q cookie limit chosen).1.nextId = s.nextId := by
  rw [get_eq]
  split
  · exact ⟨rfl, rfl, rfl, rfl, rfl⟩
  · unfold getCore
    split
    · exact ⟨rfl, rfl, rfl, rfl, rfl⟩
    · split <;> exact ⟨rfl, rfl, rfl, rfl, rfl⟩

theorem remove_regs_sublist (s : St) (peer ns : Nat) : (remove s peer ns).regs.Sublist s.regs := by
  unfold remove
  cases lookup (peer, ns) s.byPeer with
  | none => exact List.Sublist.refl _
  | some id => exact List.filter_sublist

theorem finv_step (c : Cfg) (s : St) (o : FOp) (h : FInv s) : FInv (fstep c s o).1 := by
  obtain ⟨htlt, htnd, hcur, hrlt, hrnd⟩ := h
  cases o with
  | reg peer ns ttlOpt =>
    simp only [fstep]
    rcases reg_cases c s peer ns ttlOpt with ⟨e, he⟩ | ⟨s', he, hbp, htm, hnid, _, hrg⟩
    · rw [he]; exact ⟨htlt, htnd, hcur, hrlt, hrnd⟩
    · rw [he]; dsimp only
      have hsub : (List.filter (fun e => !decide (e.1 = s.nextId)) (remove s peer ns).regs).Sublist s.regs :=
        List.Sublist.trans List.filter_sublist (remove_regs_sublist s peer ns)
      refine ⟨?_, ?_, ?_, ?_, ?_⟩
      rotate_left 3
      · intro x hx
        rw [hrg] at hx; rw [hnid]
        unfold mapInsert at hx
        rcases List.mem_append.1 hx with hx | hx
        · have := hrlt x (hsub.subset hx); omega
        · simp only [List.mem_singleton] at hx; subst hx; dsimp only; omega
      · rw [hrg]; unfold mapInsert
        rw [List.map_append, List.nodup_append]
        refine ⟨hrnd.sublist (hsub.map _), by simp, ?_⟩
        intro a ha b hb
        simp only [List.map_cons, List.map_nil, List.mem_singleton] at hb
        obtain ⟨x, hx, rfl⟩ := List.mem_map.1 ha
        have := hrlt x (hsub.subset hx)
        subst hb; omega
      · intro t ht
        rw [htm] at ht; rw [hnid]
        rcases List.mem_append.1 ht with ht | ht
        · have := htlt t ht; omega
        · simp only [List.mem_singleton] at ht; subst ht; dsimp only; omega
      · rw [htm, List.map_append, List.nodup_append]
        refine ⟨htnd, by simp, ?_⟩
        intro a ha b hb
        simp only [List.map_cons, List.map_nil, List.mem_singleton] at hb
        obtain ⟨t, ht, rfl⟩ := List.mem_map.1 ha
        have := htlt t ht
        subst hb; omega
      · intro k id hk
        rw [hbp] at hk; rw [hnid, htm]
        rcases mem_bimapInsert.1 hk with ⟨hk, _, _⟩ | ⟨_, rfl⟩
        · have := hcur k id (List.mem_filter.1 hk).1
          obtain ⟨h1, dl, hdl⟩ := this
          exact ⟨by omega, dl, List.mem_append_left _ hdl⟩
        · exact ⟨by omega, s.now + ttlOpt.getD DEFAULT_TTL, List.mem_append_right _ (by simp)⟩
  | unreg peer ns =>
    simp only [fstep, step, stepV]
    obtain ⟨h1, _, h3, _, _⟩ := remove_frame s peer ns
    refine ⟨by rw [h1, h3]; exact htlt, by rw [h1]; exact htnd, ?_,
      fun x hx => by rw [h3]; exact hrlt x ((remove_regs_sublist s peer ns).subset hx),
      hrnd.sublist ((remove_regs_sublist s peer ns).map _)⟩
    intro k id hk
    rw [remove_byPeer'] at hk
    rw [h1, h3]
    exact hcur k id (List.mem_filter.1 hk).1
  | disc q cookie limit chosen =>
    simp only [fstep, step, stepV]
    obtain ⟨h1, h2, h3, _, h5⟩ := get_frame2 c s q cookie limit chosen
    refine ⟨by rw [h3, h5]; exact htlt, by rw [h3]; exact htnd, ?_, by rw [h2, h5]; exact hrlt, by rw [h2]; exact hrnd⟩
    intro k id hk
    rw [h1] at hk; rw [h3, h5]
    exact hcur k id hk
  | tick d => exact ⟨htlt, htnd, hcur, hrlt, hrnd⟩
  | poll e =>
    simp only [fstep]
    split
    · obtain ⟨hbp, _, _, _, hnid, _⟩ := pollOne_frame s e.2
      refine ⟨?_, ?_, ?_, ?_, ?_⟩
      rotate_left 3
      · intro x hx
        have hx : x ∈ (pollOne s e.2).1.regs := hx
        rw [pollOne_regs] at hx
        show x.1 < (pollOne s e.2).1.nextId
        rw [hnid]; exact hrlt x (List.mem_filter.1 hx).1
      · exact pollStep_regs_nodup s e hrnd
      · intro t ht
        show t.2 < (pollOne s e.2).1.nextId
        rw [hnid]; exact htlt t (List.mem_of_mem_erase ht)
      · show ((s.timers.erase e).map (·.2)).Nodup
        exact htnd.sublist ((List.erase_sublist).map _)
      · intro k id hk
        have hk : (k, id) ∈ (pollOne s e.2).1.byPeer := hk
        rw [hbp] at hk
        have hk' := List.mem_filter.1 hk
        have hne : id ≠ e.2 := by simpa using hk'.2
        obtain ⟨h1, dl, hdl⟩ := hcur k id hk'.1
        refine ⟨by show id < (pollOne s e.2).1.nextId; rw [hnid]; exact h1, dl, ?_⟩
        show (dl, id) ∈ s.timers.erase e
        exact (List.mem_erase_of_ne (by intro h; apply hne; rw [← h])).2 hdl
    · exact ⟨htlt, htnd, hcur, hrlt, hrnd⟩

theorem finv_reachable (c : Cfg) (ops : List FOp) : FInv (Machine.exec (fstep c) St.init ops) :=
  Machine.invariant_of_step (fstep c) FInv (fun s o h => finv_step c s o h) ops St.init finv_init

end C51
