import Libp2pModel.Model.C15
import Libp2pModel.Proofs.C15Dec
import Libp2pModel.Proofs.C15Frame
/-!
# C15 helper: the listener automaton on hostile byte streams — the Spec accepts the model
-/
namespace C15
open Mss

theorem frameEvent_no_panic' (f : Frame) (w : String) : frameEvent f ≠ .panic w := by
  cases f with
  | err e => simp [frameEvent]
  | data bs =>
    simp only [frameEvent]
    cases h : decodeMsg bs with
    | ok m => simp
    | err e => simp
    | panic w' => exact absurd h (decodeMsg_no_panic bs w')

theorem eofEvent_no_panic (r : Bytes) (w : String) : eofEvent r ≠ .panic w := by
  unfold eofEvent; split <;> simp

/-- what the listener can be in: never a panic, and a selected protocol is one of its own -/
def LGood (ls : List Bytes) : LSt → Prop
  | .done (.ok p) => ls.contains p = true
  | .done (.panic _) => False
  | _ => True

theorem lSend_good (ls : List Bytes) (m : Msg) (next : LSt) (h : LGood ls next) :
    LGood ls (lSend m next).1 ∧ ∀ x ∈ (lSend m next).2, sendable x = true := by
  unfold lSend
  split
  · rename_i hs; exact ⟨h, by simp [hs]⟩
  · exact ⟨by simp [LGood], by simp⟩

theorem lStep_good (ls : List Bytes) (s : LSt) (ev : RdEv) (hs : LGood ls s)
    (hev : ∀ w, ev ≠ .panic w) :
    LGood ls (lStep ls s ev).1 ∧ ∀ x ∈ (lStep ls s ev).2, sendable x = true := by
  cases s with
  | done r => simpa [lStep] using hs
  | recvHeader =>
    cases ev with
    | panic w => exact absurd rfl (hev w)
    | eof => simp [lStep, LGood]
    | err e => simp [lStep, LGood]
    | msg m =>
      cases m with
      | header => simpa [lStep] using lSend_good ls .header (.recvMessage false) (by simp [LGood])
      | _ => simp [lStep, LGood]
  | recvMessage na =>
    cases ev with
    | panic w => exact absurd rfl (hev w)
    | eof => simp [lStep, LGood]
    | err e =>
      simp only [lStep]
      split <;> simp [LGood]
    | msg m =>
      cases m with
      | ls => simpa [lStep] using lSend_good ls (.protos ls) (.recvMessage false) (by simp [LGood])
      | proto p =>
        simp only [lStep]
        split
        · rename_i hc
          exact lSend_good ls (.proto p) (.done (.ok p)) (by simpa [LGood] using hc)
        · exact lSend_good ls .na (.recvMessage true) (by simp [LGood])
      | _ => simp [lStep, LGood]

theorem runBytes_good (ls : List Bytes) : ∀ (fuel : Nat) (s : LSt) (buf : Bytes), LGood ls s →
    LGood ls (runBytes (lStep ls) lDone fuel s buf).1 ∧
      ∀ x ∈ (runBytes (lStep ls) lDone fuel s buf).2.1, sendable x = true := by
  intro fuel
  induction fuel with
  | zero => intro s buf h; simpa [runBytes] using h
  | succ f ih =>
    intro s buf h
    rw [runBytes]
    split
    · simpa using h
    · split
      · simpa using h
      · rename_i fr rest _
        obtain ⟨g1, g2⟩ := lStep_good ls s (frameEvent fr) h (frameEvent_no_panic' fr)
        obtain ⟨i1, i2⟩ := ih (lStep ls s (frameEvent fr)).1 rest g1
        refine ⟨i1, ?_⟩
        intro x hx
        simp only [List.mem_append] at hx
        rcases hx with hx | hx
        · exact g2 x hx
        · exact i2 x hx

theorem runToEof_good (ls : List Bytes) (input : Bytes) :
    LGood ls (runToEof (lStep ls) lDone .recvHeader input).1 ∧
      ∀ x ∈ (runToEof (lStep ls) lDone .recvHeader input).2.1, sendable x = true := by
  obtain ⟨g1, g2⟩ := runBytes_good ls (input.length + 1) .recvHeader input (by simp [LGood])
  unfold runToEof
  simp only
  split
  · exact ⟨g1, g2⟩
  · obtain ⟨h1, h2⟩ := lStep_good ls _ (eofEvent (runBytes (lStep ls) lDone (input.length + 1) .recvHeader input).2.2)
      g1 (eofEvent_no_panic _)
    refine ⟨h1, ?_⟩
    intro x hx
    simp only [List.mem_append] at hx
    rcases hx with hx | hx
    · exact g2 x hx
    · exact h2 x hx

/-! ### whatever the automata write is a sequence of well-formed frames -/

theorem drainAll_cons_frame (w X : Bytes) (f : Frame) (hw : 0 < w.length)
    (h : frameDec (w ++ X) = some (f, X)) :
    Framed.drainAll frameDec (w ++ X) =
      (f :: (Framed.drainAll frameDec X).1, (Framed.drainAll frameDec X).2) := by
  unfold Framed.drainAll
  have hlen : (w ++ X).length = (w.length - 1 + X.length) + 1 := by simp; omega
  rw [hlen]
  simp only [Framed.drain, h]
  rw [Framed.drain_fuel_irrel frameDec frameDec_good (w.length - 1 + X.length) X.length X
    (by omega) (Nat.le_refl _)]

theorem drainAll_wire : ∀ (ms : List Msg), (∀ m ∈ ms, sendable m = true) →
    Framed.drainAll frameDec (wireOfAll ms) = (ms.map (fun m => Frame.data (encodeMsg m)), []) := by
  intro ms
  induction ms with
  | nil => intro _; rfl
  | cons m ms ih =>
    intro h
    have hm : (encodeMsg m).length ≤ MAX_FRAME_SIZE := by
      have := h m (by simp)
      simpa [sendable] using this
    obtain ⟨pre, h1, _, h3, h4⟩ := frame_roundtrip (encodeMsg m) (wireOfAll ms) hm
    have hw : wireOfAll (m :: ms) = (pre ++ encodeMsg m) ++ wireOfAll ms := by
      simp [wireOfAll, wireOf, h1]
    rw [hw, drainAll_cons_frame (pre ++ encodeMsg m) (wireOfAll ms) _ (by simp; omega) h4,
      ih (fun x hx => h x (by simp [hx]))]
    simp

theorem wire_wellformed (ms : List Msg) (h : ∀ m ∈ ms, sendable m = true) :
    wireWellFormed (wireOfAll ms) = true := by
  unfold wireWellFormed
  rw [drainAll_wire ms h]
  simp only [List.isEmpty_nil, Bool.true_and, List.all_eq_true, List.mem_map]
  rintro f ⟨m, _, rfl⟩
  cases hd : decodeMsg (encodeMsg m) with
  | panic w => exact absurd hd (decodeMsg_no_panic _ w)
  | ok _ => simp [isPanic, hd]
  | err _ => simp [isPanic, hd]

/-! ### rejection of an oversized first frame -/

theorem listen_oversize (ls : List Bytes) (input : Bytes) (h : oversizeFirst input = true) :
    ∃ e, (runToEof (lStep ls) lDone .recvHeader input).1 = .done (.perr e) := by
  match input, h with
  | b0 :: b1 :: rest, h =>
    simp [oversizeFirst] at h
    have a : ¬ b0 < 128 := by omega
    have b : ¬ b1 < 128 := by omega
    have hd : frameDec (b0 :: b1 :: rest) = some (.err .frameTooLong, rest) := by
      simp [frameDec, a, b]
    refine ⟨.frameTooLong, ?_⟩
    unfold runToEof
    simp only [List.length_cons, runBytes, lDone, Bool.false_eq_true, ↓reduceIte, hd, frameEvent, lStep]

theorem lStep_eof_done (ls : List Bytes) (s : LSt) (r : Bytes) :
    lDone (lStep ls s (eofEvent r)).1 = true := by
  unfold eofEvent
  cases s with
  | done x => split <;> simp [lStep, lDone]
  | recvHeader => split <;> simp [lStep, lDone]
  | recvMessage b =>
    split
    · simp [lStep, lDone]
    · simp only [lStep]; split <;> simp [lDone]

theorem runToEof_done (ls : List Bytes) (input : Bytes) :
    lDone (runToEof (lStep ls) lDone .recvHeader input).1 = true := by
  unfold runToEof
  simp only
  split
  · rename_i h; exact h
  · exact lStep_eof_done ls _ _

/-- **The Spec of `listen` accepts the model**, for every list of names and every input. -/
theorem spec_listen_model (names : List Bytes) (input : Bytes) :
    specListenRes names input (listenRun names input).1 (listenRun names input).2.1 = "ok" := by
  obtain ⟨g1, g2⟩ := runToEof_good (listenerProtocols names) input
  have hdone := runToEof_done (listenerProtocols names) input
  have hwf := wire_wellformed _ g2
  unfold specListenRes listenRun
  simp only
  generalize hrun : runToEof (lStep (listenerProtocols names)) lDone LSt.recvHeader input = r at g1 g2 hwf hdone
  obtain ⟨s, sent, rest⟩ := r
  simp only at g1 g2 hwf hdone ⊢
  have hover : oversizeFirst input = true → nresErr (lResult s) = true := by
    intro ho
    obtain ⟨e, he⟩ := listen_oversize (listenerProtocols names) input ho
    rw [hrun] at he
    simp only at he
    rw [he]; rfl
  cases s with
  | recvHeader => simp [lDone] at hdone
  | recvMessage b => simp [lDone] at hdone
  | done r =>
    cases r with
    | ok p =>
      have hp : (listenerProtocols names).contains p = true := g1
      have : names.contains p = true ∧ nameOk p = true := by
        simp [listenerProtocols] at hp
        simp [hp]
      have hmem : p ∈ names := by simpa using this.1
      have hno : oversizeFirst input = false := by
        cases ho : oversizeFirst input with
        | false => rfl
        | true => have := hover ho; simp [lResult, nresErr] at this
      simp [lResult, nresPanic, nresErr, hmem, this.2, hno, hwf]
    | failed =>
      have hno : oversizeFirst input = false := by
        cases ho : oversizeFirst input with
        | false => rfl
        | true => have := hover ho; simp [lResult, nresErr] at this
      simp [lResult, nresPanic, nresErr, hno, hwf]
    | perr e => simp [lResult, nresPanic, nresErr, hwf]
    | panic w => exact absurd g1 (by simp [LGood])

end C15
