import Libp2pModel.Proofs.C26Empty
namespace C26
open C25 (Sid Role Frame)

theorem Inv_readStreamLoop : ∀ (fuel : Nat) (s : State) (id : Sid) (k : Nat), Inv s → EmptyBuf s id →
    Inv (readStreamLoop fuel s id k).1 ∧ (readStreamLoop fuel s id k).1.cfg = s.cfg := by
  intro fuel
  induction fuel with
  | zero => intro s id k hi _; exact ⟨hi, rfl⟩
  | succ fuel ih =>
    intro s id k hi he
    simp only [readStreamLoop]
    split
    · exact ⟨hi, rfl⟩
    · split
      · exact ⟨hi, rfl⟩
      · have hr := Inv_readFrame hi (some id)
        have hs := readFrame_subs s (some id)
        rcases hrf : readFrame s (some id) with ⟨s1, r⟩
        rw [hrf] at hr hs
        simp only at hr hs
        obtain ⟨h1, h2, h3, h4⟩ := hr
        have he1 : EmptyBuf s1 id := EmptyBuf_of_subs he hs
        cases r with
        | pending => exact ⟨h1, h2⟩
        | ready e =>
          cases e with
          | error k' => exact ⟨h1, h2⟩
          | ok f =>
            have hbn : s1.blocking = none := by rw [h3]; exact h4 f rfl
            cases f with
            | data rid d =>
              simp only
              split
              · -- delivered directly
                refine ⟨?_, ?_⟩
                · split
                  · rename_i x hx
                    have hg := Inv_get h1 hx
                    have hx' : s1.get x.id = some x := by rw [hg.2]; exact hx
                    refine Inv_put_present (x := { x with rx := _, dl := _ }) h1 hx' ?_
                    obtain ⟨a1, a2, a3⟩ := hg.1
                    have hb := he1 x hx
                    refine ⟨a1, ?_, a3⟩
                    simp only [hb, List.append_nil] at a2 ⊢
                    rw [a2]
                  · exact h1
                · split <;> simp [h2]
              · rename_i hne
                have hb := Inv_buffer h1 hbn rid.mirror d
                have heb := EmptyBuf_buffer he1 rid.mirror hne d
                rcases hbb : buffer s1 rid.mirror d with ⟨s2, r2⟩
                rw [hbb] at hb heb
                simp only at hb heb
                cases r2 with
                | error e => exact ⟨hb.1, by rw [hb.2.1, h2]⟩
                | ok u =>
                  have := ih s2 id (k + 1) hb.1 heb
                  exact ⟨this.1, by rw [this.2, hb.2.1, h2]⟩
            | opn rid =>
              simp only
              have ho := Inv_onOpen h1 rid
              have heo := EmptyBuf_onOpen he1 rid
              rcases hoo : onOpen s1 rid with ⟨s2, r2⟩
              rw [hoo] at ho heo
              simp only at ho heo
              cases r2 with
              | error e => exact ⟨ho.1, by rw [ho.2.1, h2]⟩
              | ok o =>
                cases o with
                | some nid =>
                  have := ih { s2 with openQ := s2.openQ ++ [nid] } id k (Inv_congr ho.1 rfl rfl rfl rfl)
                    (EmptyBuf_of_subs heo (.inl rfl))
                  exact ⟨this.1, by rw [this.2]; simp [ho.2.1, h2]⟩
                | none =>
                  have := ih s2 id k ho.1 heo
                  exact ⟨this.1, by rw [this.2, ho.2.1, h2]⟩
            | close rid =>
              simp only
              have hc := Inv_onClose h1 rid.mirror
              have hec := EmptyBuf_onClose he1 rid.mirror
              split
              · exact ⟨hc.1, by rw [hc.2.1, h2]⟩
              · have := ih _ id k hc.1 hec
                exact ⟨this.1, by rw [this.2, hc.2.1, h2]⟩
            | reset rid =>
              simp only
              have hc := Inv_onReset h1 rid.mirror
              have hec := EmptyBuf_onReset he1 rid.mirror
              split
              · exact ⟨hc.1, by rw [hc.2.1, h2]⟩
              · have := ih _ id k hc.1 hec
                exact ⟨this.1, by rw [this.2, hc.2.1, h2]⟩

end C26
