import Libp2pModel.Proofs.C26Step
namespace C26
open C25 (Sid Role Frame)

/-! the configuration never changes -/

theorem pollClose_cfg (s : State) : (pollClose s).1.cfg = s.cfg := by
  unfold pollClose; split <;> try rfl
  split <;> rfl

theorem pollNextStream_cfg {s : State} (hi : Inv s) : (pollNextStream s).1.cfg = s.cfg := by
  unfold pollNextStream
  split
  · rfl
  · split
    · rfl
    · exact (Inv_nextStreamLoop _ s 0 hi).2

theorem pollOpenStream_cfg (s : State) : (pollOpenStream s).1.cfg = s.cfg := by
  unfold pollOpenStream
  split
  · rfl
  · split
    · rfl
    · have hc := sinkReady_core s
      rcases hsr : sinkReady s with ⟨s1, b⟩
      rw [hsr] at hc
      cases b with
      | false => exact hc.1
      | true =>
        simp only
        split
        · exact hc.1
        · exact hc.1

theorem checkMaxPending_cfg (s : State) : (checkMaxPending s).1.cfg = s.cfg := by
  unfold checkMaxPending; split <;> simp [onError]

theorem dropStream_cfg (s : State) (id : Sid) : (dropStream s id).1.cfg = s.cfg := by
  unfold dropStream
  split
  · rfl
  · rfl
  · split
    · rfl
    · rename_i x hx
      by_cases h0 : (s.del id).cfg.maxSubs = 0
      · simp only [h0, ↓reduceIte]; rfl
      · simp only [h0, ↓reduceIte]
        have hc := checkMaxPending_cfg (s.del id)
        rcases hcm : checkMaxPending (s.del id) with ⟨s1, r⟩
        rw [hcm] at hc
        simp only [del_cfg] at hc
        cases hst : x.st <;> simp only <;> first | rfl | (cases r <;> exact hc)

theorem writeOpen_cfg (s : State) (x : Sub) (id : Sid) (d : List Nat) : (writeOpen s x id d).1.cfg = s.cfg := by
  unfold writeOpen
  simp only
  have hcb := sendFrame_core s (.data id (d.take (min d.length s.cfg.split)))
  rcases hsf : sendFrame s (.data id (d.take (min d.length s.cfg.split))) with ⟨s1, r⟩
  rw [hsf] at hcb
  cases r with
  | pending => exact hcb.1
  | ready e => cases e <;> exact hcb.1

theorem pollWriteStream_cfg (s : State) (id : Sid) (d : List Nat) : (pollWriteStream s id d).1.cfg = s.cfg := by
  unfold pollWriteStream
  split
  · rfl
  · split
    · rfl
    · split <;> first | rfl | exact writeOpen_cfg _ _ _ _

theorem closeOpen_cfg (s : State) (x : Sub) (id : Sid) : (closeOpen s x id).1.cfg = s.cfg := by
  unfold closeOpen
  have hcb := sendFrame_core (s.del id) (.close id)
  rcases hsf : sendFrame (s.del id) (.close id) with ⟨s1, r⟩
  rw [hsf] at hcb
  cases r with
  | pending => exact hcb.1
  | ready e => cases e <;> exact hcb.1

theorem pollCloseStream_cfg (s : State) (id : Sid) : (pollCloseStream s id).1.cfg = s.cfg := by
  unfold pollCloseStream
  split
  · rfl
  · split
    · rfl
    · split <;> first | rfl | exact closeOpen_cfg _ _ _

theorem pollFlushStream_cfg {s : State} (hi : Inv s) : (pollFlushStream s).1.cfg = s.cfg := by
  unfold pollFlushStream
  split
  · rfl
  · exact (Inv_pollFlush hi).2.1

theorem substreamRead_cfg : ∀ (fuel : Nat) (s : State) (h : Handle) (n : Nat), Inv s →
    (substreamRead fuel s h n).1.cfg = s.cfg := by
  intro fuel
  induction fuel with
  | zero => intro s h n _; rfl
  | succ fuel ih =>
    intro s h n hi
    simp only [substreamRead]
    split
    · rfl
    · have hr := Inv_pollReadStream hi h.id
      rcases hp : pollReadStream s h.id with ⟨s1, r⟩
      rw [hp] at hr
      cases r with
      | pending => exact hr.2
      | ready e =>
        cases e with
        | error k => exact hr.2
        | ok o =>
          cases o with
          | none => exact hr.2
          | some d => rw [ih s1 _ n hr.1]; exact hr.2

theorem step_cfg (m : MState) (op : Op) (hi : Inv m.s) : (step m op).1.s.cfg = m.s.cfg := by
  cases op with
  | wire items => rfl
  | wblock b => rfl
  | inbound =>
    simp only [step]
    have := pollNextStream_cfg hi
    rcases hp : pollNextStream m.s with ⟨s1, r⟩
    rw [hp] at this
    cases r with
    | pending => exact this
    | ready e => cases e <;> exact this
  | outbound =>
    simp only [step]
    have := pollOpenStream_cfg m.s
    rcases hp : pollOpenStream m.s with ⟨s1, r⟩
    rw [hp] at this
    cases r with
    | pending => exact this
    | ready e => cases e <;> exact this
  | read id n => simp only [step]; exact substreamRead_cfg _ m.s _ n hi
  | write id d => simp only [step]; exact pollWriteStream_cfg _ _ _
  | flush id => simp only [step]; exact pollFlushStream_cfg hi
  | close id =>
    simp only [step, substreamClose]
    have h := Inv_pollCloseStream hi id
    have hc := pollCloseStream_cfg m.s id
    rcases hp : pollCloseStream m.s id with ⟨s1, r⟩
    rw [hp] at h hc
    cases r with
    | pending => exact hc
    | ready e =>
      cases e with
      | error k => exact hc
      | ok u => simp only; rw [pollFlushStream_cfg h]; exact hc
  | drop id => simp only [step]; exact dropStream_cfg _ _
  | closeConn => simp only [step]; exact pollClose_cfg _

end C26
