import Libp2pModel.Model.C39_Fixed
/-!
# C39 — `FixedPeersIter`: invariant, and the monitor accepts the model
-/
namespace C39.Fixed
open C39 (Out)

def fkeys (l : List (Nat × FState)) : List Nat := l.map (·.1)
def countWait (l : List (Nat × FState)) : Nat := (l.filter (fun e => e.2 = .waiting)).length

theorem countWait_cons (p : Nat) (st : FState) (t : List (Nat × FState)) :
    countWait ((p, st) :: t) = (if st = .waiting then 1 else 0) + countWait t := by
  unfold countWait
  by_cases h : st = .waiting <;> simp [List.filter_cons, h] <;> omega

theorem pfind_isSome_iff (l : List (Nat × FState)) (q : Nat) : (pfind l q).isSome ↔ q ∈ fkeys l := by
  induction l with
  | nil => simp [pfind, fkeys]
  | cons e t ih =>
    obtain ⟨p, s0⟩ := e
    by_cases hp : p = q
    · subst hp; simp [pfind, fkeys]
    · have : ¬ q = p := fun h => hp h.symm
      simp only [pfind, hp, if_false, ih, fkeys, List.map_cons, List.mem_cons, this, false_or]

theorem pfind_append (l : List (Nat × FState)) (p : Nat) (st : FState) (q : Nat) :
    pfind (l ++ [(p, st)]) q =
      match pfind l q with
      | some x => some x
      | none => if p = q then some st else none := by
  induction l with
  | nil => simp [pfind]
  | cons e t ih => grind [pfind]

theorem pfind_pset {l : List (Nat × FState)} {p : Nat} {s0 : FState} (h : pfind l p = some s0)
    (st : FState) (q : Nat) : pfind (pset l p st) q = if q = p then some st else pfind l q := by
  induction l with
  | nil => simp [pfind] at h
  | cons e t ih => grind [pfind, pset]

theorem fkeys_pset (l : List (Nat × FState)) (p : Nat) (st : FState) : fkeys (pset l p st) = fkeys l := by
  induction l with
  | nil => rfl
  | cons e t ih =>
    obtain ⟨q, s0⟩ := e
    by_cases hp : q = p
    · subst hp; simp [pset, fkeys]
    · simp only [pset, hp, if_false, fkeys, List.map_cons] at ih ⊢
      rw [ih]

theorem countWait_append (l : List (Nat × FState)) (p : Nat) :
    countWait (l ++ [(p, .waiting)]) = countWait l + 1 := by
  simp [countWait, List.filter_append]

theorem countWait_pset {l : List (Nat × FState)} {p : Nat} (h : pfind l p = some .waiting)
    (st : FState) (hst : st ≠ .waiting) : countWait (pset l p st) + 1 = countWait l := by
  induction l with
  | nil => simp [pfind] at h
  | cons e t ih =>
    obtain ⟨q, s1⟩ := e
    by_cases hp : q = p
    · subst hp
      simp [pfind] at h; subst h
      simp only [pset, if_true, countWait_cons, hst, if_false]
      omega
    · simp only [pfind, hp, if_false] at h
      have := ih h
      simp only [pset, hp, if_false, countWait_cons]
      omega

theorem countWait_pos {l : List (Nat × FState)} {p : Nat} (h : pfind l p = some .waiting) :
    0 < countWait l := by
  have := countWait_pset h .failed (by simp); omega

/-- the skip loop: either a fresh peer (everything before it is already in the map) or the
backlog is exhausted -/
theorem pop_spec (l : List Nat) (peers : List (Nat × FState)) :
    (∃ p rest skipped, pop l peers = (some p, rest) ∧ l = skipped ++ p :: rest ∧
        pfind peers p = none ∧ ∀ x ∈ skipped, x ∈ fkeys peers) ∨
    (pop l peers = (none, []) ∧ ∀ x ∈ l, x ∈ fkeys peers) := by
  induction l with
  | nil => right; simp [pop]
  | cons a t ih =>
    cases ha : pfind peers a with
    | none =>
      left
      exact ⟨a, t, [], by simp [pop, ha], rfl, ha, by simp⟩
    | some st =>
      have hk : a ∈ fkeys peers := (pfind_isSome_iff peers a).1 (by simp [ha])
      rcases ih with ⟨p, rest, sk, h1, h2, h3, h4⟩ | ⟨h1, h2⟩
      · left
        refine ⟨p, rest, a :: sk, by simp [pop, ha, h1], by simp [h2], h3, ?_⟩
        intro x hx
        rcases List.mem_cons.1 hx with rfl | hx
        · exact hk
        · exact h4 x hx
      · right
        refine ⟨by simp [pop, ha, h1], ?_⟩
        intro x hx
        rcases List.mem_cons.1 hx with rfl | hx
        · exact hk
        · exact h2 x hx

structure Inv (s : Iter) : Prop where
  par_pos : 0 < s.parallelism
  nodup : (fkeys s.peers).Nodup
  nw : ∀ nw, s.state = .waiting nw → nw = countWait s.peers ∧ nw ≤ s.parallelism

theorem Inv.init (peers : List Nat) {par : Nat} (hp : 0 < par) : Inv (init peers par) :=
  ⟨hp, by simp [C39.Fixed.init, fkeys], by
    intro nw h; simp [C39.Fixed.init] at h; subst h; simp [C39.Fixed.init, countWait]⟩

/-- link between the monitor and the iterator -/
structure R (m : Mon) (s : Iter) : Prop where
  par : m.parallelism = s.parallelism
  issued : ∀ q, q ∈ m.issued ↔ (pfind s.peers q).isSome
  pending : ∀ q, q ∈ m.pending ↔ pfind s.peers q = some .waiting
  pending_nodup : m.pending.Nodup
  pending_len : m.pending.length = countWait s.peers
  accepted : ∀ q, q ∈ m.accepted ↔ pfind s.peers q = some .succeeded
  backlog : ∀ q ∈ m.peers, q ∈ m.issued ∨ q ∈ s.backlog
  backlog_sub : ∀ q ∈ s.backlog, q ∈ m.peers
  fin : m.fin = isFinished s

theorem R.init (peers : List Nat) (par : Nat) : R (monInit peers par) (init peers par) := by
  refine ⟨rfl, ?_, ?_, ?_, rfl, ?_, ?_, ?_, rfl⟩ <;> simp [monInit, C39.Fixed.init, pfind]

theorem filter_ne_length {l : List Nat} (hn : l.Nodup) {p : Nat} (hp : p ∈ l) :
    (l.filter (· ≠ p)).length + 1 = l.length := by
  induction l with
  | nil => simp at hp
  | cons a t ih =>
    rw [List.nodup_cons] at hn
    by_cases ha : a = p
    · subst ha
      have : t.filter (· ≠ a) = t := List.filter_eq_self.2 (by
        intro x hx
        have : x ≠ a := fun hxa => hn.1 (hxa ▸ hx)
        simpa using this)
      rw [List.filter_cons]
      simp only [ne_eq, not_true_eq_false, decide_false, Bool.false_eq_true, if_false, List.length_cons]
      rw [this]
    · have hp' : p ∈ t := by
        rcases List.mem_cons.1 hp with h | h
        · exact absurd h.symm ha
        · exact h
      have := ih hn.2 hp'
      rw [List.filter_cons]
      simp only [ne_eq, ha, not_false_eq_true, decide_true, if_true, List.length_cons] at this ⊢
      omega

theorem monStep_success_true {m : Mon} {p : Nat} (hm : m.fin = false) (hp : p ∈ m.pending) :
    monStep m (.success p) (.bool true) false =
      ({ m with pending := m.pending.filter (· ≠ p), accepted := p :: m.accepted }, none) := by
  simp [monStep, hm, hp]

theorem monStep_failure_true {m : Mon} {p : Nat} (hm : m.fin = false) (hp : p ∈ m.pending) :
    monStep m (.failure p) (.bool true) false =
      ({ m with pending := m.pending.filter (· ≠ p), accepted := m.accepted }, none) := by
  simp [monStep, hm, hp]

theorem monStep_issue {m : Mon} {p : Nat} (hm : m.fin = false) (h1 : p ∉ m.issued) (h2 : p ∈ m.peers)
    (h3 : ¬ m.pending.length ≥ m.parallelism) :
    monStep m .next (.waiting (some p)) false =
      ({ m with issued := p :: m.issued, pending := p :: m.pending }, none) := by
  have h3' : ¬ m.parallelism ≤ m.pending.length := by omega
  simp [monStep, hm, h1, h2, h3']

/-! ## `on_success` / `on_failure` -/

theorem report_cases {s : Iter} (h : Inv s) (p : Nat) (st : FState) :
    (report s p st = (s, .bool false) ∧ (isFinished s = true ∨ pfind s.peers p ≠ some .waiting)) ∨
    (∃ nw, s.state = .waiting nw ∧ pfind s.peers p = some .waiting ∧ 0 < nw ∧
      report s p st = ({ s with peers := pset s.peers p st, state := .waiting (nw - 1) }, .bool true)) := by
  unfold report
  cases hs : s.state with
  | finished => left; simp [isFinished, hs]
  | waiting nw =>
    simp only
    cases hf : pfind s.peers p with
    | none => left; simp
    | some x =>
      cases x with
      | waiting =>
        have hpos := countWait_pos hf
        have := (h.nw nw hs).1
        have hne : nw ≠ 0 := by omega
        right
        exact ⟨nw, rfl, rfl, by omega, by simp [hne]⟩
      | failed => left; simp
      | succeeded => left; simp

theorem report_accept {m : Mon} {s : Iter} (h : Inv s) (hr : R m s) {p nw : Nat} {st : FState}
    (hst : st ≠ .waiting) (hs : s.state = .waiting nw) (hf : pfind s.peers p = some .waiting) (hpos : 0 < nw)
    (acc' : List Nat)
    (hacc : ∀ q, q ∈ acc' ↔ pfind (pset s.peers p st) q = some .succeeded) :
    Inv { s with peers := pset s.peers p st, state := .waiting (nw - 1) } ∧
    R { m with pending := m.pending.filter (· ≠ p), accepted := acc' }
      { s with peers := pset s.peers p st, state := .waiting (nw - 1) } := by
  have hcw := countWait_pset hf st hst
  obtain ⟨hnw, hle⟩ := h.nw nw hs
  have hm : m.fin = false := by rw [hr.fin]; simp [isFinished, hs]
  have hpp : p ∈ m.pending := (hr.pending p).2 hf
  refine ⟨⟨h.par_pos, by show (fkeys (pset s.peers p st)).Nodup; rw [fkeys_pset]; exact h.nodup, ?_⟩, ?_⟩
  · intro nw' hh
    simp at hh; subst hh
    show nw - 1 = countWait (pset s.peers p st) ∧ nw - 1 ≤ s.parallelism
    omega
  · refine ⟨hr.par, ?_, ?_, hr.pending_nodup.sublist List.filter_sublist, ?_, hacc, hr.backlog,
      hr.backlog_sub, by simp [isFinished, hm]⟩
    · intro q
      show q ∈ m.issued ↔ (pfind (pset s.peers p st) q).isSome
      rw [pfind_pset hf, hr.issued q]
      by_cases hq : q = p
      · subst hq; simp [hf]
      · simp [hq]
    · intro q
      show q ∈ m.pending.filter (· ≠ p) ↔ pfind (pset s.peers p st) q = some .waiting
      rw [pfind_pset hf, List.mem_filter, hr.pending q]
      by_cases hq : q = p
      · subst hq; simp; exact fun hh => hst hh
      · simp [hq]
    · show (m.pending.filter (· ≠ p)).length = countWait (pset s.peers p st)
      have := filter_ne_length hr.pending_nodup hpp
      have := hr.pending_len
      omega

theorem report_ok {m : Mon} {s : Iter} (h : Inv s) (hr : R m s) (p : Nat) (succ : Bool) :
    let st := if succ then FState.succeeded else FState.failed
    let op := if succ then Op.success p else Op.failure p
    Inv (report s p st).1 ∧ (report s p st).2 ≠ .panic ∧
    (monStep m op (report s p st).2 (isFinished (report s p st).1)).2 = none ∧
    R (monStep m op (report s p st).2 (isFinished (report s p st).1)).1 (report s p st).1 := by
  intro st op
  rcases report_cases h p st with ⟨heq, hwhy⟩ | ⟨nw, hs, hf, hpos, heq⟩
  · rw [heq]
    have hdrop : (!m.fin && m.pending.contains p) = false := by
      rcases hwhy with hfin | hnp
      · rw [hr.fin, hfin]; rfl
      · have : p ∉ m.pending := fun hc => hnp ((hr.pending p).1 hc)
        simp [this]
    have hff : isFinished s = m.fin := hr.fin.symm
    refine ⟨h, by simp, ?_, ?_⟩
    · cases succ <;> simp only [op, monStep, hdrop, Bool.false_eq_true, if_false, if_true] <;> simp [hff]
    · cases succ <;> simp only [op, monStep, hdrop, Bool.false_eq_true, if_false, if_true] <;> exact hr
  · rw [heq]
    have hm : m.fin = false := by rw [hr.fin]; simp [isFinished, hs]
    have hpp' : p ∈ m.pending := (hr.pending p).2 hf
    have hfin' : isFinished { s with peers := pset s.peers p st, state := St.waiting (nw - 1) } = false := by
      simp [isFinished]
    cases succ with
    | true =>
      have hst : st = .succeeded := rfl
      obtain ⟨hi, hR⟩ := report_accept (m := m) h hr (st := .succeeded) (by simp) hs hf hpos (p :: m.accepted) (by
        intro q
        rw [pfind_pset hf, List.mem_cons, hr.accepted q]
        by_cases hq : q = p
        · subst hq; simp
        · simp [hq])
      have hop : op = Op.success p := rfl
      rw [hfin', hop, monStep_success_true hm hpp']
      exact ⟨hst ▸ hi, by simp, rfl, hst ▸ hR⟩
    | false =>
      have hst : st = .failed := rfl
      obtain ⟨hi, hR⟩ := report_accept (m := m) h hr (st := .failed) (by simp) hs hf hpos m.accepted (by
        intro q
        rw [pfind_pset hf, hr.accepted q]
        by_cases hq : q = p
        · subst hq; simp [hf]
        · simp [hq])
      have hop : op = Op.failure p := rfl
      rw [hfin', hop, monStep_failure_true hm hpp']
      exact ⟨hst ▸ hi, by simp, rfl, hst ▸ hR⟩

/-! ## one step: invariant, link, and verdict -/

theorem step_ok {m : Mon} {s : Iter} (h : Inv s) (hr : R m s) (op : Op) :
    Inv (step s op).1 ∧ (step s op).2 ≠ .panic ∧
    (monStep m op (step s op).2 (isFinished (step s op).1)).2 = none ∧
    R (monStep m op (step s op).2 (isFinished (step s op).1)).1 (step s op).1 := by
  cases op with
  | next =>
    simp only [step, C39.Fixed.next]
    cases hs : s.state with
    | finished =>
      have hm : m.fin = true := by rw [hr.fin]; simp [isFinished, hs]
      refine ⟨h, by simp, ?_, ?_⟩
      · simp [monStep, hm, isFinished, hs]
      · simp only [monStep, hm]
        exact ⟨hr.par, hr.issued, hr.pending, hr.pending_nodup, hr.pending_len, hr.accepted,
          hr.backlog, hr.backlog_sub, by simp [isFinished, hs]⟩
    | waiting nw =>
      have hm : m.fin = false := by rw [hr.fin]; simp [isFinished, hs]
      obtain ⟨hnw, hle⟩ := h.nw nw hs
      have hpl : m.pending.length = nw := by rw [hr.pending_len, hnw]
      simp only
      by_cases hcap : nw ≥ s.parallelism
      · simp only [hcap, if_true]
        refine ⟨h, by simp, ?_, ?_⟩
        · have : ¬ m.pending.length < m.parallelism := by rw [hpl, hr.par]; omega
          simp [monStep, hm, this, isFinished, hs]
        · have : ¬ m.pending.length < m.parallelism := by rw [hpl, hr.par]; omega
          simp only [monStep, hm, this]
          exact hr
      · simp only [hcap, if_false]
        rcases pop_spec s.backlog s.peers with ⟨p, rest, sk, hpop, hsplit, hfresh, hsk⟩ | ⟨hpop, hall⟩
        · -- a fresh peer is issued
          rw [hpop]
          simp only
          have hpk : p ∉ fkeys s.peers := by
            intro hc; have := (pfind_isSome_iff s.peers p).2 hc; simp [hfresh] at this
          have hinv : Inv { s with backlog := rest, peers := s.peers ++ [(p, .waiting)], state := .waiting (nw + 1) } := by
            refine ⟨h.par_pos, ?_, ?_⟩
            · show (fkeys (s.peers ++ [(p, FState.waiting)])).Nodup
              simp only [fkeys, List.map_append, List.map_cons, List.map_nil]
              rw [List.nodup_append]
              refine ⟨h.nodup, by simp, ?_⟩
              intro a ha b hb hab
              simp at hb; subst hb; subst hab; exact hpk ha
            · intro nw' hnw'
              simp at hnw'; subst hnw'
              show nw + 1 = countWait (s.peers ++ [(p, FState.waiting)]) ∧ nw + 1 ≤ s.parallelism
              rw [countWait_append]; omega
          have hnotiss : p ∉ m.issued := by
            intro hc; have := (hr.issued p).1 hc; simp [hfresh] at this
          have hpeers : p ∈ m.peers := hr.backlog_sub p (by rw [hsplit]; simp)
          have hbound : ¬ m.pending.length ≥ m.parallelism := by rw [hpl, hr.par]; exact hcap
          have hfin' : isFinished { s with backlog := rest, peers := s.peers ++ [(p, .waiting)], state := .waiting (nw + 1) } = false := by
            simp [isFinished]
          rw [hfin', monStep_issue hm hnotiss hpeers hbound]
          have hpn : p ∉ m.pending := by
            intro hc; have := (hr.pending p).1 hc; rw [hfresh] at this; simp at this
          refine ⟨hinv, by simp, rfl, ?_⟩
          refine ⟨hr.par, ?_, ?_, List.nodup_cons.2 ⟨hpn, hr.pending_nodup⟩, ?_, ?_, ?_, ?_,
            by simp [isFinished, hm]⟩
          · intro q
            show q ∈ p :: m.issued ↔ (pfind (s.peers ++ [(p, FState.waiting)]) q).isSome
            rw [pfind_append, List.mem_cons, hr.issued q]
            cases hq : pfind s.peers q with
            | some x => simp
            | none =>
              by_cases hpq : p = q
              · simp [hpq]
              · have : ¬ q = p := fun hh => hpq hh.symm
                simp [hpq, this]
          · intro q
            show q ∈ p :: m.pending ↔ pfind (s.peers ++ [(p, FState.waiting)]) q = some .waiting
            rw [pfind_append, List.mem_cons, hr.pending q]
            cases hq : pfind s.peers q with
            | some x =>
              have : q ≠ p := by intro hh; subst hh; rw [hfresh] at hq; simp at hq
              simp [this]
            | none =>
              by_cases hpq : p = q
              · simp [hpq]
              · have : ¬ q = p := fun hh => hpq hh.symm
                simp [hpq, this]
          · show (p :: m.pending).length = countWait (s.peers ++ [(p, FState.waiting)])
            rw [countWait_append, List.length_cons, hr.pending_len]
          · intro q
            show q ∈ m.accepted ↔ pfind (s.peers ++ [(p, FState.waiting)]) q = some .succeeded
            rw [pfind_append, hr.accepted q]
            cases hq : pfind s.peers q with
            | some x => simp
            | none => by_cases hpq : p = q <;> simp [hpq]
          · intro q hq
            show q ∈ p :: m.issued ∨ q ∈ rest
            rcases hr.backlog q hq with hi | hb
            · exact Or.inl (List.mem_cons_of_mem _ hi)
            · rw [hsplit] at hb
              rcases List.mem_append.1 hb with hsk' | hrest
              · exact Or.inl (List.mem_cons_of_mem _
                  ((hr.issued q).2 ((pfind_isSome_iff s.peers q).2 (hsk q hsk'))))
              · rcases List.mem_cons.1 hrest with rfl | hrest
                · exact Or.inl List.mem_cons_self
                · exact Or.inr hrest
          · intro q hq
            exact hr.backlog_sub q (by rw [hsplit]; simp [hq])
        · -- the backlog is exhausted
          rw [hpop]
          simp only
          have hallissued : m.peers.all (fun p => m.issued.contains p) = true := by
            simp only [List.all_eq_true, List.contains_iff_mem]
            intro q hq
            rcases hr.backlog q hq with hi | hb
            · exact hi
            · exact (hr.issued q).2 ((pfind_isSome_iff s.peers q).2 (hall q hb))
          have hall' : ¬ ∃ x, x ∈ m.peers ∧ ¬ x ∈ m.issued := by
            simp only [List.all_eq_true, List.contains_iff_mem] at hallissued
            rintro ⟨x, hx, hnx⟩; exact hnx (hallissued x hx)
          by_cases hz : nw = 0
          · subst hz
            simp only [if_true]
            have hpe : m.pending.isEmpty = true := by
              rw [List.isEmpty_iff, ← List.length_eq_zero_iff]; exact hpl
            refine ⟨⟨h.par_pos, h.nodup, by intro nw' hh; simp at hh⟩, by simp, ?_, ?_⟩
            · simp [monStep, hm, hpe, hall', isFinished]
            · simp only [monStep, hm, hpe, hallissued]
              refine ⟨hr.par, hr.issued, hr.pending, hr.pending_nodup, hr.pending_len, hr.accepted,
                ?_, by intro q hq; simp at hq, by simp [isFinished]⟩
              intro q hq
              left
              simp only [List.all_eq_true, List.contains_iff_mem] at hallissued
              exact hallissued q hq
          · simp only [hz, if_false]
            have hpe : m.pending.isEmpty = false := by
              cases hpd : m.pending with
              | nil => rw [hpd] at hpl; simp at hpl; omega
              | cons a t => rfl
            refine ⟨⟨h.par_pos, h.nodup, by
              intro nw' hh
              simp at hh; subst hh
              exact ⟨hnw, hle⟩⟩, by simp, ?_, ?_⟩
            · simp [monStep, hm, hpe, hall', isFinished, hs]
            · simp only [monStep, hm, hpe, hallissued]
              refine ⟨hr.par, hr.issued, hr.pending, hr.pending_nodup, hr.pending_len, hr.accepted,
                ?_, by intro q hq; simp at hq, by simp [isFinished, hs, hm]⟩
              intro q hq
              left
              simp only [List.all_eq_true, List.contains_iff_mem] at hallissued
              exact hallissued q hq
  | success p => exact report_ok h hr p true
  | failure p => exact report_ok h hr p false
  | finish =>
    simp only [step, C39.Fixed.finish]
    cases hs : s.state with
    | finished =>
      refine ⟨h, by simp, by simp [monStep, isFinished, hs], ?_⟩
      simp only [monStep]
      exact ⟨hr.par, hr.issued, hr.pending, hr.pending_nodup, hr.pending_len, hr.accepted,
        hr.backlog, hr.backlog_sub, by simp [isFinished, hs]⟩
    | waiting nw =>
      refine ⟨⟨h.par_pos, h.nodup, by intro nw' hh; simp at hh⟩, by simp, by simp [monStep, isFinished], ?_⟩
      simp only [monStep]
      exact ⟨hr.par, hr.issued, hr.pending, hr.pending_nodup, hr.pending_len, hr.accepted,
        hr.backlog, hr.backlog_sub, by simp [isFinished]⟩

end C39.Fixed
