import Libp2pModel.Proofs.C07Unique
/-!
# C07 — connection ids are never reused, dead connections stay dead, and the strong `Any` loss clause

* `Ids s`     every connection id occurs at most once over established ∪ closed ∪ reported-pending ∪ dialing
              connections and is below `nextConn` (ids come from a counter, like `ConnectionId::next()`);
* `Mono s s'` every connection that was established stays "ever established", and one that is absent,
              closing or closed (`isLiveId = false`) stays so;
* `Strong s`  the ids captured for a pending `Any` event were all established at emission, every captured
              id that `notify_any` pruned from the pending list is still dead, and every drop record lists
              no live target among ALL captured ids (`Drop.liveAll = []`).
-/
namespace C07

def State.estIds (s : State) : List Nat := cids s.conns ++ cids s.gone

def State.allIds (s : State) : List Nat :=
  cids s.conns ++ cids s.gone ++ s.pendQ.map (·.id) ++ s.dialing.map (·.id)

structure Ids (s : State) : Prop where
  uniq : ∀ id, s.allIds.count id ≤ 1
  bound : ∀ id ∈ s.allIds, id < s.nextConn

theorem Ids.of_count {s s' : State} (h : Ids s) (hn : s.nextConn ≤ s'.nextConn)
    (hc : ∀ id, s'.allIds.count id ≤ s.allIds.count id) : Ids s' := by
  refine ⟨fun id => Nat.le_trans (hc id) (h.uniq id), ?_⟩
  intro id hid
  have h1 : 0 < s'.allIds.count id := List.count_pos_iff.2 hid
  have h2 : 0 < s.allIds.count id := Nat.lt_of_lt_of_le h1 (hc id)
  exact Nat.lt_of_lt_of_le (h.bound id (List.count_pos_iff.1 h2)) hn

theorem Ids.congr {s s' : State} (h : Ids s) (ha : s'.allIds = s.allIds) (hn : s'.nextConn = s.nextConn) :
    Ids s' :=
  h.of_count (by omega) (fun id => by rw [ha]; exact Nat.le_refl _)

theorem cids_upd {cs : List Conn} (c : Nat) (f : Conn → Conn) (hf : ∀ k, (f k).id = k.id) :
    cids (upd cs c f) = cids cs :=
  flatMap_upd_same _ f (fun k => by rw [hf])

theorem cids_map {cs : List Conn} (f : Conn → Conn) (hf : ∀ k, (f k).id = k.id) :
    cids (cs.map f) = cids cs :=
  flatMap_map_same _ f (fun k _ => by rw [hf])

theorem cids_runAll (cs : List Conn) : cids (runAll cs).1 = cids cs := by
  rw [runAll_fst]; exact cids_map _ (fun k => (runTask_spec k).1)

theorem startClose_id (buf : Nat) (k : Conn) : (k.startClose buf).id = k.id := (startClose_fields buf k).2.1
theorem push_id (buf : Nat) (e : Note) (k : Conn) : (k.push buf e).id = k.id := (push_fields buf e k).2.1

theorem disc_id (buf p : Nat) (k : Conn) : (if k.peer == p then k.startClose buf else k).id = k.id := by
  split
  · exact startClose_id _ _
  · rfl

/-! ### liveness only decreases -/

theorem startClose_dead (buf : Nat) (k : Conn) : (k.startClose buf).isLive = false := by
  unfold Conn.isLive; rw [(startClose_fields buf k).2.2.1]; rfl

theorem push_isLive (buf : Nat) (e : Note) (k : Conn) : (k.push buf e).isLive = k.isLive := by
  unfold Conn.isLive Conn.push; rfl

theorem unparkOne_rxOpen (k : Conn) : k.unparkOne.rxOpen = k.rxOpen := by
  unfold Conn.unparkOne; split <;> rfl

theorem runCmds_rxOpen (q : List Cmd) : ∀ k : Conn, (runCmds k q).1.rxOpen = true → k.rxOpen = true := by
  induction q with
  | nil => intro k h; simpa [runCmds] using h
  | cons c rest ih =>
    intro k h
    cases c with
    | close => simp [runCmds] at h
    | notify e =>
      rw [runCmds_notify] at h
      have := ih _ h
      simpa [unparkOne_rxOpen] using this

theorem runTask_isLive (k : Conn) (h : k.runTask.1.isLive = true) : k.isLive = true := by
  have hc := (runTask_spec k).2.1
  have hr : k.runTask.1.rxOpen = true → k.rxOpen = true := by
    unfold Conn.runTask
    by_cases hd : k.done = true
    · simp [hd]
    · simp only [hd, Bool.false_eq_true, ↓reduceIte]
      split
      · exact runCmds_rxOpen _ _
      · split
        · intro h'; simp at h'
        · exact runCmds_rxOpen _ _
  unfold Conn.isLive at h ⊢
  rw [hc] at h
  simp only [Bool.and_eq_true] at h ⊢
  exact ⟨h.1, hr h.2⟩

structure Mono (s s' : State) : Prop where
  est : ∀ id, id ∈ s.estIds → id ∈ s'.estIds
  dead : ∀ id, id ∈ s.estIds → s.isLiveId id = false → s'.isLiveId id = false

theorem Mono.of_conns {s s' : State} (hc : s'.conns = s.conns) (hg : s'.gone = s.gone) : Mono s s' :=
  ⟨fun id h => by simpa [State.estIds, hc, hg] using h,
   fun id _ h => by simpa [State.isLiveId, hc] using h⟩

/-- liveness of every id only decreases and the id lists are unchanged -/
theorem Mono.of_liveLe {s s' : State} (hc : cids s'.conns = cids s.conns) (hg : s'.gone = s.gone)
    (hl : ∀ id, s'.isLiveId id = true → s.isLiveId id = true) : Mono s s' := by
  refine ⟨fun id h => by simpa [State.estIds, hc, hg] using h, ?_⟩
  intro id _ h
  cases h' : s'.isLiveId id with
  | false => rfl
  | true => rw [hl id h'] at h; cases h

theorem isLiveId_upd {cs : List Conn} (c : Nat) (f : Conn → Conn) (hf : ∀ k, (f k).id = k.id)
    (hl : ∀ k, (f k).isLive = true → k.isLive = true) (id : Nat)
    (h : (match findConn (upd cs c f) id with | some k => k.isLive | none => false) = true) :
    (match findConn cs id with | some k => k.isLive | none => false) = true := by
  rw [findConn_upd f hf] at h
  by_cases hc : id = c
  · simp only [hc, ↓reduceIte] at h
    subst hc
    cases hk : findConn cs id with
    | none => simp [hk] at h
    | some k => simp only [hk, Option.map_some] at h; exact hl k h
  · simpa [hc] using h

theorem isLiveId_map {cs : List Conn} (f : Conn → Conn) (hf : ∀ k, (f k).id = k.id)
    (hl : ∀ k, (f k).isLive = true → k.isLive = true) (id : Nat)
    (h : (match findConn (cs.map f) id with | some k => k.isLive | none => false) = true) :
    (match findConn cs id with | some k => k.isLive | none => false) = true := by
  rw [findConn_map f hf] at h
  cases hk : findConn cs id with
  | none => simp [hk] at h
  | some k => simp only [hk, Option.map_some] at h; exact hl k h

theorem Mono.updConn (s : State) (c : Nat) (f : Conn → Conn) (hf : ∀ k, (f k).id = k.id)
    (hl : ∀ k, (f k).isLive = true → k.isLive = true) : Mono s { s with conns := upd s.conns c f } :=
  Mono.of_liveLe (cids_upd c f hf) rfl (fun id h => isLiveId_upd c f hf hl id h)

theorem disc_isLive (buf p : Nat) (k : Conn)
    (h : (if k.peer == p then k.startClose buf else k).isLive = true) : k.isLive = true := by
  split at h
  · rw [startClose_dead] at h; cases h
  · exact h

theorem Mono.disconnect (s : State) (p : Nat) : Mono s (disconnect s p) :=
  Mono.of_liveLe (cids_map _ (disc_id s.buf p)) rfl
    (fun id h => isLiveId_map _ (disc_id s.buf p) (disc_isLive s.buf p) id h)

/-! ### field lemmas for the composite transformers -/

theorem dropAll_fields (l : List Note) : ∀ s : State,
    (dropAll s l).conns = s.conns ∧ (dropAll s l).gone = s.gone ∧ (dropAll s l).pendQ = s.pendQ ∧
    (dropAll s l).dialing = s.dialing ∧ (dropAll s l).nextConn = s.nextConn ∧
    (dropAll s l).pending = s.pending := by
  induction l with
  | nil => intro s; simp [dropAll]
  | cons e r ih => intro s; rw [dropAll]; have := ih (s.dropNote e e.tgt); simpa [State.dropNote] using this

theorem advanceLocal_fields (s : State) :
    (advanceLocal s).conns = (runAll s.conns).1 ∧ (advanceLocal s).gone = s.gone ∧
    (advanceLocal s).pendQ = s.pendQ ++
      (s.dialing.filter Dial.ready).map (fun d => (⟨d.id, d.peer, !d.aborted⟩ : PendMsg)) ∧
    (advanceLocal s).dialing = s.dialing.filter (fun d => !d.ready) ∧
    (advanceLocal s).nextConn = s.nextConn ∧ (advanceLocal s).pending = s.pending := by
  unfold C07.advanceLocal
  rcases hr : runAll s.conns with ⟨cs, lg, dr⟩
  simp only
  exact dropAll_fields dr _

theorem pushCmds_fields (cmds : List ECmd) : ∀ s : State,
    (pushCmds s cmds).conns = s.conns ∧ (pushCmds s cmds).gone = s.gone ∧ (pushCmds s cmds).pendQ = s.pendQ ∧
    (pushCmds s cmds).dialing = s.dialing ∧ (pushCmds s cmds).nextConn = s.nextConn ∧
    (pushCmds s cmds).pending = s.pending ∧ (pushCmds s cmds).dropped = s.dropped := by
  induction cmds with
  | nil => intro s; simp [pushCmds]
  | cons c r ih =>
    intro s
    cases c <;> (rw [pushCmds]; exact ih _)

/-! ### `Ids` preservation -/

theorem Ids.updConn {s : State} (h : Ids s) (c : Nat) (f : Conn → Conn) (hf : ∀ k, (f k).id = k.id) :
    Ids { s with conns := upd s.conns c f } :=
  h.congr (by simp [State.allIds, cids_upd c f hf]) rfl

theorem dial_ids (l : List Dial) (f : Dial → Dial) (hf : ∀ d, (f d).id = d.id) :
    (l.map f).map (·.id) = l.map (·.id) := by
  rw [List.map_map]
  apply List.map_congr_left
  intro d _
  exact hf d

theorem Ids.disconnect {s : State} (h : Ids s) (p : Nat) : Ids (disconnect s p) := by
  refine h.congr ?_ rfl
  simp only [State.allIds, C07.disconnect, cids_map _ (disc_id s.buf p)]
  rw [dial_ids]
  intro d; split <;> rfl

/-- a new pending connection gets the next id of the counter -/
theorem Ids.alloc {s : State} (h : Ids s) (p : Nat) (inb res : Bool) : Ids (s.alloc p inb res) := by
  have ha : (s.alloc p inb res).allIds = s.allIds ++ [s.nextConn] := by simp [State.allIds, State.alloc]
  refine ⟨?_, ?_⟩
  · intro id
    rw [ha, List.count_append, List.count_singleton]
    by_cases hid : s.nextConn = id
    · subst hid
      have : s.allIds.count s.nextConn = 0 :=
        List.count_eq_zero.2 (fun hm => Nat.lt_irrefl _ (h.bound _ hm))
      simp [this]
    · have h1 : (s.nextConn == id) = false := by simpa using hid
      simp [h1, h.uniq id]
  · intro id hid
    rw [ha] at hid
    rcases List.mem_append.1 hid with hid | hid
    · have := h.bound id hid; show id < s.nextConn + 1; omega
    · simp at hid; show id < s.nextConn + 1; omega

theorem count_partition (l : List Dial) (q : Dial → Bool) (id : Nat) :
    ((l.filter q).map (·.id)).count id + ((l.filter (fun d => !q d)).map (·.id)).count id
      = (l.map (·.id)).count id := by
  induction l with
  | nil => simp
  | cons d r ih =>
    cases hq : q d <;> simp [List.filter_cons, hq, List.count_cons] <;> omega

theorem Ids.advanceLocal {s : State} (h : Ids s) : Ids (advanceLocal s) := by
  obtain ⟨a, b, c, d, e, _⟩ := advanceLocal_fields s
  refine h.of_count (by omega) ?_
  intro id
  have hp := count_partition s.dialing Dial.ready id
  simp only [State.allIds, a, b, c, d, cids_runAll, List.map_append, List.map_map, List.count_append]
  have : ((s.dialing.filter Dial.ready).map
      ((fun x : PendMsg => x.id) ∘ fun d => (⟨d.id, d.peer, !d.aborted⟩ : PendMsg)))
      = (s.dialing.filter Dial.ready).map (·.id) := by
    apply List.map_congr_left; intro d _; rfl
  rw [this]; omega

theorem Ids.reportClosed {s : State} (h : Ids s) (c : Nat) (bad : Bool) : Ids (reportClosed s c bad).1 := by
  refine h.of_count (Nat.le_refl _) ?_
  intro id
  have := count_erase (fun k => [k.id]) id s.conns c
  simp only [State.allIds, C07.reportClosed, cids, List.flatMap_append, List.count_append] at this ⊢
  omega

theorem count_filter_ne (l : List PendMsg) (a id : Nat) :
    ((l.filter (fun x : PendMsg => x.id != a)).map (·.id)).count id
      = if id = a then 0 else (l.map (·.id)).count id := by
  induction l with
  | nil => simp
  | cons m r ih =>
    by_cases hm : m.id = a
    · have : (m.id != a) = false := by simp [hm]
      simp only [List.filter_cons, this, Bool.false_eq_true, ↓reduceIte, ih, List.map_cons, List.count_cons]
      by_cases hid : id = a
      · simp [hid]
      · have : (m.id == id) = false := by simp [hm]; exact fun h => hid h.symm
        simp [hid, this]
    · have : (m.id != a) = true := by simp [hm]
      simp only [List.filter_cons, this, ↓reduceIte, List.map_cons, List.count_cons, ih]
      by_cases hid : id = a
      · simp [hid, hm]
      · simp [hid]

theorem pickMsg_mem (m0 : PendMsg) (r : List PendMsg) (pick : Option Nat) :
    pickMsg (m0 :: r) m0 pick ∈ m0 :: r := by
  unfold pickMsg
  cases pick with
  | none => simp
  | some c =>
    simp only
    cases hf : (m0 :: r).find? (fun x : PendMsg => x.id == c) with
    | none => simp
    | some x => simpa using List.mem_of_find?_eq_some hf

theorem Ids.reportPending {s : State} (h : Ids s) (m : PendMsg) (hm : m ∈ s.pendQ) (bad : Bool) :
    Ids (reportPending s m bad).1 := by
  have hpos : 0 < (s.pendQ.map (·.id)).count m.id :=
    List.count_pos_iff.2 (List.mem_map.2 ⟨m, hm, rfl⟩)
  refine h.of_count (by unfold C07.reportPending; split <;> exact Nat.le_refl _) ?_
  intro id
  have hu := h.uniq id
  have hf := count_filter_ne s.pendQ m.id id
  unfold C07.reportPending
  split
  · simp only [State.allIds, cids, List.flatMap_append, List.flatMap_cons, List.flatMap_nil, List.append_nil,
      List.count_append, List.count_singleton] at hu ⊢
    by_cases hid : id = m.id
    · rw [if_pos hid] at hf
      rw [hid] at hu hf ⊢
      simp only [beq_self_eq_true, ↓reduceIte]; omega
    · rw [if_neg hid] at hf
      have hb : (m.id == id) = false := by simp; exact fun h => hid h.symm
      rw [hb]; simp only [Bool.false_eq_true, ↓reduceIte]; omega
  · simp only [State.allIds, cids, List.count_append] at hu ⊢
    by_cases hid : id = m.id
    · rw [if_pos hid] at hf; omega
    · rw [if_neg hid] at hf; omega

/-! ### `Mono` for the pool reports -/

theorem Mono.advanceLocal (s : State) : Mono s (advanceLocal s) := by
  obtain ⟨a, b, _⟩ := advanceLocal_fields s
  refine Mono.of_liveLe (by rw [a]; exact cids_runAll _) b ?_
  intro id h
  unfold State.isLiveId at h ⊢
  rw [a, runAll_fst] at h
  exact isLiveId_map _ (fun k => (runTask_spec k).1) runTask_isLive id h

theorem Mono.reportClosed {s : State} (h : Ids s) (c : Nat) (bad : Bool) : Mono s (reportClosed s c bad).1 := by
  have hcnt := fun id => count_erase (fun k => [k.id]) id s.conns c
  refine ⟨?_, ?_⟩
  · intro id hid
    have h1 : 0 < s.estIds.count id := List.count_pos_iff.2 hid
    apply List.count_pos_iff.1
    have := hcnt id
    simp only [State.estIds, C07.reportClosed, cids, List.flatMap_append, List.count_append] at h1 this ⊢
    omega
  · intro id _ hd
    show (match findConn (eraseConn s.conns c) id with | some k => k.isLive | none => false) = false
    by_cases hid : id = c
    · subst hid
      have : findConn (eraseConn s.conns id) id = none := by
        cases hk : findConn s.conns id with
        | none => rw [eraseConn_none hk]; exact hk
        | some k0 =>
          rw [findConn_none_iff]
          intro hm
          have h1 : 0 < (cids (eraseConn s.conns id)).count id := List.count_pos_iff.2 hm
          have h2 := hcnt id
          have h3 := h.uniq id
          have hk0 := (findConn_mem hk).2
          simp only [State.allIds, cids, hk, Option.toList_some, List.flatMap_cons, List.flatMap_nil,
            List.append_nil, List.count_append, List.count_singleton, hk0, beq_self_eq_true,
            ↓reduceIte] at h1 h2 h3
          omega
      rw [this]
    · rw [findConn_erase_ne hid]; exact hd

theorem Mono.reportPending {s : State} (h : Ids s) (m : PendMsg) (hm : m ∈ s.pendQ) (bad : Bool) :
    Mono s (reportPending s m bad).1 := by
  unfold C07.reportPending
  split
  · refine ⟨?_, ?_⟩
    · intro id hid
      simp only [State.estIds, cids, List.flatMap_append, List.mem_append] at hid ⊢
      rcases hid with hid | hid
      · exact Or.inl (Or.inl hid)
      · exact Or.inr hid
    · intro id hid hd
      show (match findConn (s.conns ++ [({ id := m.id, peer := m.peer, estAt := s.clock } : Conn)]) id with
        | some k => k.isLive | none => false) = false
      rw [findConn_append]
      cases hk : findConn s.conns id with
      | some k => simpa [State.isLiveId, hk] using hd
      | none =>
        simp only
        have hne : ¬ m.id = id := by
          intro he
          have h0 : id ∉ cids s.conns := findConn_none_iff.1 hk
          have h1 : id ∈ cids s.gone := by
            simp only [State.estIds, List.mem_append] at hid
            rcases hid with hid | hid
            · exact absurd hid h0
            · exact hid
          have h2 : 0 < (cids s.gone).count id := List.count_pos_iff.2 h1
          have h3 : 0 < (s.pendQ.map (·.id)).count id :=
            List.count_pos_iff.2 (List.mem_map.2 ⟨m, hm, he⟩)
          have h4 := h.uniq id
          simp only [State.allIds, List.count_append] at h4
          omega
        simp [hne]
  · exact Mono.of_conns rfl rfl

/-! ### `Strong` -/

structure Strong (s : State) : Prop where
  cap : ∀ p ids0, s.pending = some p → p.e.tgt = .any ids0 → ∀ id ∈ ids0, id ∈ s.estIds
  pruned : ∀ p ids0 cur, s.pending = some p → p.e.tgt = .any ids0 → p.cur = .any cur →
    ∀ id ∈ ids0, id ∉ cur → s.isLiveId id = false
  dropsAll : ∀ d ∈ s.dropped, d.liveAll = []

theorem Strong.of_mono {s s' : State} (h : Strong s) (m : Mono s s') (hp : s'.pending = s.pending)
    (hd : s'.dropped = s.dropped) : Strong s' := by
  refine ⟨?_, ?_, by rw [hd]; exact h.dropsAll⟩
  · intro p ids0 hp' ht id hid
    rw [hp] at hp'
    exact m.est id (h.cap p ids0 hp' ht id hid)
  · intro p ids0 cur hp' ht hc id hid hn
    rw [hp] at hp'
    exact m.dead id (h.cap p ids0 hp' ht id hid) (h.pruned p ids0 cur hp' ht hc id hid hn)

theorem Strong.of_none {s s' : State} (h : Strong s) (hp : s'.pending = none) (hd : s'.dropped = s.dropped) :
    Strong s' :=
  ⟨fun p _ hp' => (by rw [hp] at hp'; cases hp'), fun p _ _ hp' => (by rw [hp] at hp'; cases hp'),
   (by rw [hd]; exact h.dropsAll)⟩

theorem Strong.dropHead {s : State} {p : Pending} (h : Strong s) (cur : Target)
    (hl : ({ s with pending := none } : State).liveIds p.e.tgt = []) :
    Strong (({ s with pending := none } : State).dropNote p.e cur) := by
  refine ⟨fun q _ hq => (by simp [State.dropNote] at hq), fun q _ _ hq => (by simp [State.dropNote] at hq), ?_⟩
  intro d hd
  simp only [State.dropNote, List.mem_append, List.mem_singleton] at hd
  rcases hd with hd | hd
  · exact h.dropsAll d hd
  · subst hd; exact hl

theorem Strong.deliverPending {s : State} {p : Pending} (hi : Inv s) (h : Strong s) (hp : s.pending = some p) :
    Strong (deliverPending { s with pending := none } p).1 := by
  have hpo := hi.pend p hp
  unfold C07.deliverPending
  cases hcur : p.cur with
  | one c =>
    simp only [pendOK, hcur] at hpo
    simp only
    have hdrop : ({ s with pending := none } : State).status c ≠ some .ok →
        ({ s with pending := none } : State).status c ≠ some .pending →
        ({ s with pending := none } : State).liveIds p.e.tgt = [] := by
      intro h1 h2
      rw [hpo]
      simp only [State.liveIds, List.filter_eq_nil_iff, List.mem_singleton]
      intro a ha; subst ha
      intro hl
      rcases live_status hl with h3 | h3
      · exact h1 h3
      · exact h2 h3
    cases hst : ({ s with pending := none } : State).status c with
    | none => exact h.dropHead _ (hdrop (by simp [hst]) (by simp [hst]))
    | some r =>
      cases r with
      | ok => exact h.of_none rfl rfl
      | pending =>
        refine ⟨?_, ?_, h.dropsAll⟩
        · intro q ids0 hq ht
          simp only [Option.some.injEq] at hq; subst hq
          rw [hpo] at ht; cases ht
        · intro q ids0 cur hq ht
          simp only [Option.some.injEq] at hq; subst hq
          rw [hpo] at ht; cases ht
      | err => exact h.dropHead _ (hdrop (by simp [hst]) (by simp [hst]))
  | any ids =>
    simp only [pendOK, hcur] at hpo
    obtain ⟨ids0, htgt, hsub⟩ := hpo
    simp only
    split
    · exact h.of_none rfl rfl
    · rename_i hready
      have hdeadOf : ∀ id ∈ ids0,
          id ∉ ids.filter (fun id => ({ s with pending := none } : State).status id == some .pending) →
          ({ s with pending := none } : State).isLiveId id = false := by
        intro id hid hnp
        by_cases hin : id ∈ ids
        · cases hl : ({ s with pending := none } : State).isLiveId id with
          | false => rfl
          | true =>
            exfalso
            rcases live_status hl with h1 | h1
            · have : id ∈ ids.filter (fun id => ({ s with pending := none } : State).status id == some .ok) :=
                List.mem_filter.2 ⟨hin, by simp [h1]⟩
              rw [hready] at this; cases this
            · exact hnp (List.mem_filter.2 ⟨hin, by simp [h1]⟩)
        · exact h.pruned p ids0 ids hp htgt hcur id hid hin
      split
      · rename_i hpend
        refine h.dropHead _ ?_
        rw [htgt]
        simp only [State.liveIds, List.filter_eq_nil_iff]
        intro a ha hl
        have := hdeadOf a ha (by
          simp only [List.isEmpty_iff] at hpend
          rw [hpend]; simp)
        rw [this] at hl; cases hl
      · refine ⟨?_, ?_, h.dropsAll⟩
        · intro q ids1 hq ht id hid
          simp only [Option.some.injEq] at hq; subst hq
          exact h.cap p ids1 hp ht id hid
        · intro q ids1 cur hq ht hc id hid hn
          simp only [Option.some.injEq] at hq; subst hq
          simp only [Target.any.injEq] at hc
          subst hc
          rw [htgt] at ht
          simp only [Target.any.injEq] at ht
          subst ht
          exact hdeadOf id hid hn

theorem Strong.handleBeh {s : State} {cmd : BCmd} {rest : List BCmd} (h : Strong s) (hp : s.pending = none) :
    Strong (handleBeh { s with behQ := rest } cmd) := by
  cases cmd with
  | one c n =>
    refine ⟨?_, ?_, h.dropsAll⟩
    · intro q ids0 hq ht
      simp only [C07.handleBeh, Option.some.injEq] at hq; subst hq; cases ht
    · intro q ids0 cur hq ht
      simp only [C07.handleBeh, Option.some.injEq] at hq; subst hq; cases ht
  | any p n ch =>
    refine ⟨?_, ?_, h.dropsAll⟩
    · intro q ids0 hq ht id hid
      simp only [C07.handleBeh, Option.some.injEq] at hq; subst hq
      simp only [Target.any.injEq] at ht; subst ht
      simp only [List.mem_map, List.mem_filter] at hid
      obtain ⟨k, ⟨hk, _⟩, rfl⟩ := hid
      exact List.mem_append_left _ (mem_cids.2 ⟨k, hk, rfl⟩)
    · intro q ids0 cur hq ht hc id hid hn
      simp only [C07.handleBeh, Option.some.injEq] at hq; subst hq
      simp only [Target.any.injEq] at ht hc; subst ht; subst hc
      exact absurd hid hn
  | closeOne c => exact h.of_none hp rfl
  | closeAll p => exact h.of_none hp rfl
  | gen => exact h.of_none hp rfl

end C07
