import Libp2pModel.Proofs.C24Own
namespace C26
open C25 (Sid Role Frame)

/-- everything the endpoint has emitted so far, in order: written to the connection, then still in
the sink's buffer -/
def State.emitted (s : State) : List Frame := s.wire ++ s.sinkBuf

theorem sinkReady_emitted (s : State) : (sinkReady s).1.emitted = s.emitted := by
  unfold sinkReady State.emitted
  split
  · split <;> simp
  · rfl

/-- `poll_send_frame`: on success exactly this frame is appended to the emitted sequence, otherwise
nothing is -/
theorem sendFrame_emitted (s : State) (f : Frame) :
    ((sendFrame s f).2 = .ready (.ok ()) → (sendFrame s f).1.emitted = s.emitted ++ [f]) ∧
    ((sendFrame s f).2 ≠ .ready (.ok ()) → (sendFrame s f).1.emitted = s.emitted) := by
  unfold sendFrame
  have h := sinkReady_emitted s
  rcases hsr : sinkReady s with ⟨s1, b⟩
  rw [hsr] at h
  simp only at h
  cases b with
  | false => exact ⟨by simp, fun _ => h⟩
  | true =>
    simp only
    split
    · exact ⟨by simp, fun _ => by simp only [onError, State.emitted] at h ⊢; exact h⟩
    · refine ⟨fun _ => ?_, by simp⟩
      simp only [State.emitted] at h ⊢
      rw [← List.append_assoc, h]

theorem sendPendingGo_emitted : ∀ (l : List Frame) (s : State),
    ∃ added, (sendPendingGo s l).1.emitted = s.emitted ++ added ∧ added <+: l := by
  intro l
  induction l with
  | nil => intro s; exact ⟨[], by simp [sendPendingGo, State.emitted], List.prefix_refl _⟩
  | cons f rest ih =>
    intro s
    simp only [sendPendingGo]
    have h := sendFrame_emitted { s with pendQ := rest } f
    rcases hsf : sendFrame { s with pendQ := rest } f with ⟨s', r⟩
    rw [hsf] at h
    simp only at h
    have he : ({ s with pendQ := rest } : State).emitted = s.emitted := rfl
    cases r with
    | pending =>
      refine ⟨[], ?_, List.nil_prefix⟩
      have := h.2 (by simp)
      simp only [State.emitted] at this ⊢
      simpa using this
    | ready e =>
      cases e with
      | error k =>
        refine ⟨[], ?_, List.nil_prefix⟩
        have := h.2 (by simp)
        simpa [he] using this
      | ok u =>
        obtain ⟨added, h1, h2⟩ := ih s'
        have := h.1 rfl
        refine ⟨f :: added, ?_, ?_⟩
        · rw [h1, this, he]; simp
        · exact List.cons_prefix_cons.2 ⟨rfl, h2⟩

/-- **Writes**: an accepted write of `n` bytes emits exactly one Data frame on this substream
carrying the first `n = min(len, split_send_size)` bytes, behind everything emitted before. -/
theorem writeOpen_emits (s : State) (x : Sub) (id : Sid) (data : List Nat) (n : Nat)
    (h : (writeOpen s x id data).2 = .ready (.ok n)) :
    n = min data.length s.cfg.split ∧
    (writeOpen s x id data).1.emitted = s.emitted ++ [.data id (data.take n)] := by
  unfold writeOpen at h ⊢
  simp only at h ⊢
  have he := sendFrame_emitted s (.data id (data.take (min data.length s.cfg.split)))
  rcases hsf : sendFrame s (.data id (data.take (min data.length s.cfg.split))) with ⟨s1, r⟩
  rw [hsf] at h he
  cases r with
  | pending => simp at h
  | ready e =>
    cases e with
    | error k => simp at h
    | ok u =>
      simp only [P.ready.injEq, Except.ok.injEq] at h
      subst h
      exact ⟨rfl, he.1 rfl⟩

/-- a refused or pending write emits nothing -/
theorem writeOpen_silent (s : State) (x : Sub) (id : Sid) (data : List Nat)
    (h : ∀ n, (writeOpen s x id data).2 ≠ .ready (.ok n)) :
    (writeOpen s x id data).1.emitted = s.emitted := by
  unfold writeOpen at h ⊢
  simp only at h ⊢
  have he := sendFrame_emitted s (.data id (data.take (min data.length s.cfg.split)))
  rcases hsf : sendFrame s (.data id (data.take (min data.length s.cfg.split))) with ⟨s1, r⟩
  rw [hsf] at h he
  cases r with
  | pending => exact he.2 (by simp)
  | ready e =>
    cases e with
    | error k => exact he.2 (by simp)
    | ok u => exact absurd rfl (h _)

/-- **Half-close**: a successful `poll_close_stream` on a writable substream emits exactly one
`Close` frame for it. -/
theorem closeOpen_emits (s : State) (x : Sub) (id : Sid) (h : (closeOpen s x id).2 = .ready (.ok ())) :
    (closeOpen s x id).1.emitted = s.emitted ++ [.close id] := by
  unfold closeOpen at h ⊢
  have he := sendFrame_emitted (s.del id) (.close id)
  rcases hsf : sendFrame (s.del id) (.close id) with ⟨s1, r⟩
  rw [hsf] at h he
  cases r with
  | pending => simp at h
  | ready e =>
    cases e with
    | error k => simp at h
    | ok u => exact he.1 rfl

/-- `poll_flush`: on success everything emitted is on the connection, in the same order -/
theorem pollFlush_flushes (s : State) (h : (pollFlush s).2 = .ready (.ok ())) (hopen : s.status = .opn) :
    (pollFlush s).1.sinkBuf = [] ∧ ∃ added, (pollFlush s).1.wire = s.emitted ++ added ∧ added <+: s.pendQ := by
  unfold pollFlush at h ⊢
  simp only [hopen] at h ⊢
  obtain ⟨added, h1, h2⟩ := sendPendingGo_emitted s.pendQ s
  unfold sendPending at h ⊢
  rcases hsp : sendPendingGo s s.pendQ with ⟨s1, r⟩
  rw [hsp] at h h1
  simp only at h1
  cases r with
  | pending => simp at h
  | ready e =>
    cases e with
    | error k => simp at h
    | ok u =>
      simp only at h ⊢
      split
      · rename_i hb; simp [hb] at h
      · exact ⟨rfl, added, by simpa [State.emitted] using h1, h2⟩

end C26
