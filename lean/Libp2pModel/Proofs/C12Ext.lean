import Libp2pModel.Model.C12
import Libp2pModel.Common.Machine
/-! # C12 — proofs for `ExternalAddresses` and `ListenAddresses` -/
namespace C12

/-- invariant of `ExternalAddresses.addresses`: no duplicates, at most `cap` entries -/
def ExtInv (cap : Nat) (l : List Maddr) : Prop := l.Nodup ∧ l.length ≤ cap

theorem ne_beq_iff (x a : Maddr) : (x != a) = true ↔ x ≠ a := by simp

theorem extStep_eq_spec (cap : Nat) (l : List Maddr) (ev : Ev) (hi : ExtInv cap l) :
    (extStep cap l ev).1 = Spec.ext cap l ev := by
  obtain ⟨hnd, hlen⟩ := hi
  cases ev <;> simp only [extStep, Spec.ext]
  case extConfirmed a =>
    unfold extConfirmed
    by_cases hm : a ∈ l
    · simp only [hm, ↓reduceIte]
      rw [hnd.erase_eq_filter a]
      rw [List.take_of_length_le]
      have : (l.filter (· != a)).length < l.length := by
        rw [← hnd.erase_eq_filter a, List.length_erase_of_mem hm]
        cases l with
        | nil => simp at hm
        | cons _ _ => simp
      simp; omega
    · simp only [hm, ↓reduceIte]
      have hf : l.filter (· != a) = l := by
        rw [List.filter_eq_self]; intro x hx; simp; rintro rfl; exact hm hx
      rw [hf]
      by_cases hc : (a :: l).length > cap
      · simp only [hc, ↓reduceIte]
        rw [List.dropLast_eq_take]
        congr 1
        simp at hc ⊢; omega
      · simp only [hc, ↓reduceIte]
        rw [List.take_of_length_le]; omega
  case extExpired a =>
    unfold extExpired
    by_cases hm : a ∈ l
    · simp only [hm, ↓reduceIte]; exact hnd.erase_eq_filter a
    · simp only [hm, ↓reduceIte]
      symm; rw [List.filter_eq_self]; intro x hx; simp; rintro rfl; exact hm hx

theorem spec_ext_inv (cap : Nat) (l : List Maddr) (ev : Ev) (hi : ExtInv cap l) :
    ExtInv cap (Spec.ext cap l ev) := by
  obtain ⟨hnd, hlen⟩ := hi
  cases ev <;> simp only [Spec.ext] <;> try exact ⟨hnd, hlen⟩
  case extConfirmed a =>
    constructor
    · apply List.Nodup.sublist (List.take_sublist _ _)
      rw [List.nodup_cons]
      exact ⟨by simp, hnd.sublist List.filter_sublist⟩
    · simp [List.length_take]; omega
  case extExpired a =>
    exact ⟨hnd.sublist List.filter_sublist, Nat.le_trans (List.length_filter_le _ _) hlen⟩

theorem extStep_inv (cap : Nat) (l : List Maddr) (ev : Ev) (hi : ExtInv cap l) :
    ExtInv cap (extStep cap l ev).1 := by
  rw [extStep_eq_spec cap l ev hi]; exact spec_ext_inv cap l ev hi


theorem sameSet_iff (a b : List Maddr) : Spec.sameSet a b = true ↔ ∀ x, x ∈ a ↔ x ∈ b := by
  simp only [Spec.sameSet, Bool.and_eq_true, List.all_eq_true, List.contains_iff_mem]
  constructor
  · rintro ⟨h1, h2⟩ x; exact ⟨h1 x, h2 x⟩
  · intro h; exact ⟨fun x hx => (h x).1 hx, fun x hx => (h x).2 hx⟩

/-- `ExternalAddresses::on_swarm_event` returns `true` exactly when the set of addresses changes -/
theorem extStep_changed_iff (cap : Nat) (hcap : 1 ≤ cap) (l : List Maddr) (ev : Ev) (hi : ExtInv cap l) :
    (extStep cap l ev).2 = true ↔ ¬ (∀ x, x ∈ (extStep cap l ev).1 ↔ x ∈ l) := by
  obtain ⟨hnd, hlen⟩ := hi
  cases ev
  all_goals (try (simp [extStep]; done))
  case extConfirmed a =>
    simp only [extStep]
    unfold extConfirmed
    by_cases hm : a ∈ l
    · simp only [hm, ↓reduceIte]
      simp only [Bool.false_eq_true, false_iff, Classical.not_not]
      intro x
      by_cases hx : x = a
      · subst hx; simp [hm]
      · simp [hx, List.mem_erase_of_ne hx]
    · simp only [hm, ↓reduceIte, true_iff]
      intro hall
      apply hm
      apply (hall a).1
      by_cases hc : (a :: l).length > cap
      · simp only [hc, ↓reduceIte]
        cases l with
        | nil => simp at hc; omega
        | cons b t => simp [List.dropLast]
      · rw [if_neg hc]; simp
  case extExpired a =>
    simp only [extStep]
    unfold extExpired
    by_cases hm : a ∈ l
    · simp only [hm, ↓reduceIte, true_iff]
      intro hall
      have := (hall a).2 hm
      exact (hnd.mem_erase_iff.1 this).1 rfl
    · simp [hm]

/-- the flag the Spec monitor demands (`!sameSet old new`) is the flag the model returns -/
theorem extStep_flag_spec (cap : Nat) (hcap : 1 ≤ cap) (l : List Maddr) (ev : Ev) (hi : ExtInv cap l) :
    (extStep cap l ev).2 = !Spec.sameSet l (Spec.ext cap l ev) := by
  have h := extStep_changed_iff cap hcap l ev hi
  rw [extStep_eq_spec cap l ev hi] at h
  cases hf : (extStep cap l ev).2
  · rw [hf] at h
    have : ¬¬ (∀ x, x ∈ Spec.ext cap l ev ↔ x ∈ l) := fun hn => by simpa using h.2 hn
    have h2 := Classical.not_not.1 this
    have : Spec.sameSet l (Spec.ext cap l ev) = true := (sameSet_iff _ _).2 (fun x => (h2 x).symm)
    simp [this]
  · rw [hf] at h
    have hn := h.1 rfl
    cases hs : Spec.sameSet l (Spec.ext cap l ev)
    · rfl
    · exact absurd (fun x => ((sameSet_iff _ _).1 hs x).symm) hn

/-! ## ListenAddresses -/

theorem lisStep_changed_iff (s : List Maddr) (ev : Ev) :
    (lisStep s ev).2 = true ↔ ¬ (∀ x, x ∈ (lisStep s ev).1 ↔ x ∈ s) := by
  cases ev
  all_goals (try (simp [lisStep]; done))
  case newListenAddr lid a =>
    simp only [lisStep]
    by_cases hm : a ∈ s
    · simp [hm]
    · simp only [hm, ↓reduceIte, true_iff]
      intro hall; exact hm ((hall a).1 (by simp))
  case expiredListenAddr lid a =>
    simp only [lisStep]
    by_cases hm : a ∈ s
    · simp only [hm, ↓reduceIte, true_iff]
      intro hall
      have := (hall a).2 hm
      simp at this
    · simp [hm]

/-- model (`HashSet`, insertion order) and Spec (newest first) hold the same set -/
theorem lisStep_spec_mem (s s' : List Maddr) (ev : Ev) (h : ∀ x, x ∈ s ↔ x ∈ s') :
    ∀ x, x ∈ (lisStep s ev).1 ↔ x ∈ Spec.lis s' ev := by
  intro x
  cases ev <;> simp only [lisStep, Spec.lis] <;> try exact h x
  case newListenAddr lid a =>
    by_cases hm : a ∈ s
    · have hm' := (h a).1 hm
      simp [hm, hm', h x]
    · have hm' : a ∉ s' := fun hh => hm ((h a).2 hh)
      simp [hm, hm', h x, or_comm]
  case expiredListenAddr lid a =>
    by_cases hm : a ∈ s
    · simp [hm, h x]
    · have hm' : a ∉ s' := fun hh => hm ((h a).2 hh)
      simp only [hm, ↓reduceIte, List.mem_filter, bne_iff_ne, ne_eq]
      constructor
      · intro hx; exact ⟨(h x).1 hx, fun he => hm (he ▸ hx)⟩
      · intro hx; exact (h x).2 hx.1

theorem lisStep_nodup (s : List Maddr) (ev : Ev) (hnd : s.Nodup) : (lisStep s ev).1.Nodup := by
  cases ev <;> simp only [lisStep] <;> try exact hnd
  case newListenAddr lid a =>
    by_cases hm : a ∈ s
    · simp [hm, hnd]
    · simp only [hm, ↓reduceIte]
      rw [List.nodup_append]
      refine ⟨hnd, by simp, ?_⟩
      intro x hx y hy
      simp at hy; subst hy; rintro rfl; exact hm hx
  case expiredListenAddr lid a =>
    by_cases hm : a ∈ s
    · simp only [hm, ↓reduceIte]; exact hnd.sublist List.filter_sublist
    · simp [hm, hnd]

/-- pointwise fold: is `x` a listen address after the events `evs` (starting from `b`)? -/
def lisMember (x : Maddr) (b : Bool) (evs : List Ev) : Bool :=
  evs.foldl (fun b e => match e with
    | .newListenAddr _ a => if a = x then true else b
    | .expiredListenAddr _ a => if a = x then false else b
    | _ => b) b

def lisMemberStep (x : Maddr) (b : Bool) : Ev → Bool
  | .newListenAddr _ a => if a = x then true else b
  | .expiredListenAddr _ a => if a = x then false else b
  | _ => b

theorem lisMember_cons (x : Maddr) (b : Bool) (e : Ev) (es : List Ev) :
    lisMember x b (e :: es) = lisMember x (lisMemberStep x b e) es := by
  simp only [lisMember, List.foldl_cons]
  cases e <;> rfl

theorem lisStep_member (x : Maddr) (s : List Maddr) (e : Ev) :
    decide (x ∈ (lisStep s e).1) = lisMemberStep x (decide (x ∈ s)) e := by
  cases e
  all_goals (try (rfl; done))
  case newListenAddr lid a =>
    simp only [lisStep, lisMemberStep]
    by_cases hm : a ∈ s <;> by_cases hx : a = x
    · subst hx; simp [hm]
    · simp [hm, hx]
    · subst hx; simp [hm]
    · simp [hm, hx]; intro h; exact absurd h.symm hx
  case expiredListenAddr lid a =>
    simp only [lisStep, lisMemberStep]
    by_cases hm : a ∈ s <;> by_cases hx : a = x
    · subst hx; simp [hm]
    · simp [hm, hx]; intro _ h; exact hx h.symm
    · subst hx; simp [hm]
    · simp [hm, hx]

/-- `x` is in `ListenAddresses` after any history iff the last event about `x` was `NewListenAddr` -/
theorem lis_mem_fold (x : Maddr) (evs : List Ev) (s : List Maddr) :
    x ∈ Machine.exec lisStep s evs ↔ lisMember x (decide (x ∈ s)) evs = true := by
  induction evs generalizing s with
  | nil => simp [Machine.exec, lisMember]
  | cons e es ih =>
    rw [lisMember_cons, ← lisStep_member]
    simp only [Machine.exec, List.foldl_cons] at ih ⊢
    exact ih _

end C12
