import Libp2pModel.Proofs.C52Sets
import Libp2pModel.Proofs.SwarmFrame
/-!
# C52: the invariant of Swarm ∥ connection-limits and its preservation by every Swarm transition

`W` = the Swarm's connection ids are fresh/unique, `X` = the behaviour's five sets are exactly the
Swarm's tables (pending outgoing: minus the dials exempted by the bypass rule), `L` = every
non-exempt counter is within its limit.
-/
namespace C52
open Swarm

def poIds (s : State) : List Nat := s.pendOut.map (·.id)
def piIds (s : State) : List Nat := s.pendIn.map (·.id)
def eIds (s : State) : List Nat := s.est.map (·.id)

structure W (s : State) : Prop where
  fpo : ∀ c ∈ poIds s, c < s.nextId
  fpi : ∀ c ∈ piIds s, c < s.nextId
  fe : ∀ c ∈ eIds s, c < s.nextId
  nde : (eIds s).Nodup
  dpe : ∀ c ∈ poIds s, c ∉ eIds s
  die : ∀ c ∈ piIds s, c ∉ eIds s
  dpi : ∀ c ∈ poIds s, c ∉ piIds s

structure X (s : State) (g : GL) : Prop where
  pi : g.lim.pendIn = piIds s
  po : g.lim.pendOut = (poIds s).filter (fun c => !g.exDial.contains c)
  ei : g.lim.estIn = (s.est.filter (fun e => !e.out)).map (·.id)
  eo : g.lim.estOut = (s.est.filter (fun e => e.out)).map (·.id)
  pp : ∀ p, ppGet g.lim.perPeer p = (s.est.filter (fun e => e.peer == p)).map (·.id)
  gd : ∀ c ∈ g.exDial, c < s.nextId
  ge : ∀ c ∈ g.exEst, c < s.nextId ∧ c ∉ poIds s ∧ c ∉ piIds s

/-- number of ids in `l` not exempted by `ex` -/
def cnt (l ex : List Nat) : Nat := (l.filter (fun c => !ex.contains c)).length

structure L (g : GL) : Prop where
  pi : ∀ m, g.lim.limits.maxPI = some m → g.lim.pendIn.length ≤ m
  po : ∀ m, g.lim.limits.maxPO = some m → g.lim.pendOut.length ≤ m
  ei : ∀ m, g.lim.limits.maxEI = some m → cnt g.lim.estIn g.exEst ≤ m
  eo : ∀ m, g.lim.limits.maxEO = some m → cnt g.lim.estOut g.exEst ≤ m
  pp : ∀ m p, g.lim.limits.maxPP = some m → cnt (ppGet g.lim.perPeer p) g.exEst ≤ m
  tot : ∀ m, g.lim.limits.maxTot = some m → cnt g.lim.estIn g.exEst + cnt g.lim.estOut g.exEst ≤ m

/-- the invariant; `t` = the limits were changed while connections existed -/
def J (s : State) (g : GL) (t : Bool) : Prop := W s ∧ X s g ∧ (t = false → L g)

theorem feedAll_append (ctx : Option Nat) (g : GL) (a b : List Ev) :
    feedAll ctx g (a ++ b) = feedAll ctx (feedAll ctx g a) b := by
  simp [feedAll, List.foldl_append]

theorem feedAll_cons (ctx : Option Nat) (g : GL) (e : Ev) (l : List Ev) :
    feedAll ctx g (e :: l) = feedAll ctx (feed ctx g e) l := rfl

theorem feedAll_nil (ctx : Option Nat) (g : GL) : feedAll ctx g [] = g := rfl

theorem checkLimit_false (limit : Option Nat) (n : Nat) (h : checkLimit limit n = false) :
    ∀ m, limit = some m → n < m := by
  intro m hm
  subst hm
  simpa [checkLimit] using h

theorem cnt_le (l ex : List Nat) : cnt l ex ≤ l.length := List.length_filter_le _ _

theorem cnt_setRemove (l ex : List Nat) (c : Nat) : cnt (setRemove l c) ex ≤ cnt l ex := by
  unfold cnt
  rw [setRemove_filter]
  exact setRemove_length_le _ _

theorem cnt_ex_cons (l ex : List Nat) (c : Nat) : cnt l (c :: ex) ≤ cnt l ex := by
  unfold cnt
  apply filter_length_mono
  intro x hx
  simp only [List.contains_cons, Bool.not_or, Bool.and_eq_true, Bool.not_eq_true'] at hx ⊢
  exact hx.2

theorem cnt_append_single' (l ex : List Nat) (c : Nat) : cnt (l ++ [c]) ex ≤ cnt l ex + 1 := by
  unfold cnt
  rw [List.filter_append, List.length_append]
  have : ([c].filter (fun c => !ex.contains c)).length ≤ 1 := List.length_filter_le _ _
  omega

theorem cnt_append_exempt (l ex : List Nat) (c : Nat) : cnt (l ++ [c]) (c :: ex) ≤ cnt l ex := by
  unfold cnt
  rw [List.filter_append]
  simp only [List.filter_cons, List.contains_cons, beq_self_eq_true, Bool.true_or, Bool.not_true,
    Bool.false_eq_true, ↓reduceIte, List.filter_nil, List.append_nil]
  exact cnt_ex_cons l ex c

theorem filter_absent {α : Type} (l : List α) (f : α → Nat) (c : Nat) (h : c ∉ l.map f) :
    l.filter (fun x => f x != c) = l := by
  apply List.filter_eq_self.2
  intro a ha
  have : f a ≠ c := fun e => h (e ▸ List.mem_map_of_mem ha)
  simpa [bne_iff_ne] using this

/-! ## effect lemmas: `J` depends on the Swarm state only through `nextId`, the three tables, and on
the behaviour only through its sets, limits and the ghost lists -/

/-- nothing but the id counter moves -/
theorem J_bump {s s' : State} {g : GL} {t : Bool} (h : J s g t)
    (hn : s.nextId ≤ s'.nextId) (hpo : s'.pendOut = s.pendOut) (hpi : s'.pendIn = s.pendIn)
    (he : s'.est = s.est) : J s' g t := by
  obtain ⟨w, x, l⟩ := h
  refine ⟨⟨?_, ?_, ?_, ?_, ?_, ?_, ?_⟩, ⟨?_, ?_, ?_, ?_, ?_, ?_, ?_⟩, l⟩
  · intro c hc; simp only [poIds, hpo] at hc; exact Nat.lt_of_lt_of_le (w.fpo c hc) hn
  · intro c hc; simp only [piIds, hpi] at hc; exact Nat.lt_of_lt_of_le (w.fpi c hc) hn
  · intro c hc; simp only [eIds, he] at hc; exact Nat.lt_of_lt_of_le (w.fe c hc) hn
  · simp only [eIds, he]; exact w.nde
  · simp only [poIds, eIds, hpo, he]; exact w.dpe
  · simp only [piIds, eIds, hpi, he]; exact w.die
  · simp only [poIds, piIds, hpo, hpi]; exact w.dpi
  · simp only [piIds, hpi]; exact x.pi
  · simp only [poIds, hpo]; exact x.po
  · rw [he]; exact x.ei
  · rw [he]; exact x.eo
  · rw [he]; exact x.pp
  · intro c hc; exact Nat.lt_of_lt_of_le (x.gd c hc) hn
  · intro c hc
    simp only [poIds, piIds, hpo, hpi]
    exact ⟨Nat.lt_of_lt_of_le (x.ge c hc).1 hn, (x.ge c hc).2⟩

/-- `J` sees the Swarm state only through four components -/
theorem J_congr {s s' : State} {g : GL} {t : Bool} (h : J s g t) (hn : s'.nextId = s.nextId)
    (hpo : s'.pendOut = s.pendOut) (hpi : s'.pendIn = s.pendIn) (he : s'.est = s.est) : J s' g t :=
  J_bump h (Nat.le_of_eq hn.symm) hpo hpi he

theorem J_fresh {s : State} {g : GL} {t : Bool} (h : J s g t) :
    s.nextId ∉ g.lim.pendIn ∧ s.nextId ∉ g.lim.pendOut ∧ s.nextId ∉ g.exDial ∧
    s.nextId ∉ poIds s ∧ s.nextId ∉ piIds s ∧ s.nextId ∉ eIds s := by
  obtain ⟨w, x, _⟩ := h
  have h4 : s.nextId ∉ poIds s := fun hm => Nat.lt_irrefl _ (w.fpo _ hm)
  refine ⟨?_, ?_, ?_, h4, ?_, ?_⟩
  · rw [x.pi]; intro hm; exact Nat.lt_irrefl _ (w.fpi _ hm)
  · rw [x.po]; intro hm; exact h4 (List.mem_filter.1 hm).1
  · intro hm; exact Nat.lt_irrefl _ (x.gd _ hm)
  · intro hm; exact Nat.lt_irrefl _ (w.fpi _ hm)
  · intro hm; exact Nat.lt_irrefl _ (w.fe _ hm)

/-- a new pending incoming connection, recorded by the behaviour -/
theorem J_piAdd {s : State} {g : GL} {t : Bool} (h : J s g t) (k : Nat)
    (hl : t = false → checkLimit g.lim.limits.maxPI g.lim.pendIn.length = false) :
    J { s with pendIn := s.pendIn ++ [{ id := s.nextId, k }], nextId := s.nextId + 1 }
      { g with lim := { g.lim with pendIn := g.lim.pendIn ++ [s.nextId] } } t := by
  obtain ⟨w, x, l⟩ := h
  refine ⟨⟨?_, ?_, ?_, w.nde, w.dpe, ?_, ?_⟩, ⟨?_, x.po, x.ei, x.eo, x.pp, ?_, ?_⟩, ?_⟩
  · intro c hc; exact Nat.lt_succ_of_lt (w.fpo c hc)
  · intro c hc
    simp only [piIds, List.map_append, List.map_cons, List.map_nil, List.mem_append, List.mem_singleton] at hc
    rcases hc with hc | rfl
    · exact Nat.lt_succ_of_lt (w.fpi c hc)
    · exact Nat.lt_succ_self _
  · intro c hc; exact Nat.lt_succ_of_lt (w.fe c hc)
  · intro c hc
    simp only [piIds, List.map_append, List.map_cons, List.map_nil, List.mem_append, List.mem_singleton] at hc
    rcases hc with hc | rfl
    · exact w.die c hc
    · intro hm; exact Nat.lt_irrefl _ (w.fe _ hm)
  · intro c hc
    simp only [piIds, List.map_append, List.map_cons, List.map_nil, List.mem_append, List.mem_singleton, not_or]
    exact ⟨w.dpi c hc, fun e => Nat.lt_irrefl _ (e ▸ w.fpo c hc)⟩
  · simp [piIds, x.pi]
  · intro c hc; exact Nat.lt_succ_of_lt (x.gd c hc)
  · intro c hc
    refine ⟨Nat.lt_succ_of_lt (x.ge c hc).1, (x.ge c hc).2.1, ?_⟩
    simp only [piIds, List.map_append, List.map_cons, List.map_nil, List.mem_append, List.mem_singleton, not_or]
    exact ⟨(x.ge c hc).2.2, fun e => Nat.lt_irrefl _ (e ▸ (x.ge c hc).1)⟩
  · intro ht
    have l := l ht
    refine ⟨?_, l.po, l.ei, l.eo, l.pp, l.tot⟩
    intro m hm
    have := checkLimit_false _ _ (hl ht) m hm
    simp only [List.length_append, List.length_singleton]
    omega

theorem mem_filter_ids {α : Type} (l : List α) (f : α → Nat) (q : α → Bool) (c : Nat)
    (h : c ∈ (l.filter q).map f) : c ∈ l.map f := by
  obtain ⟨a, ha, rfl⟩ := List.mem_map.1 h
  exact List.mem_map_of_mem (List.mem_filter.1 ha).1

/-- a pending incoming connection goes away (or `c` was not pending: nothing changes) -/
theorem J_piRemove {s : State} {g : GL} {t : Bool} (h : J s g t) (c : Nat) :
    J { s with pendIn := s.pendIn.filter (·.id != c) }
      { g with lim := { g.lim with pendIn := setRemove g.lim.pendIn c } } t := by
  obtain ⟨w, x, l⟩ := h
  refine ⟨⟨w.fpo, ?_, w.fe, w.nde, w.dpe, ?_, ?_⟩, ⟨?_, x.po, x.ei, x.eo, x.pp, x.gd, ?_⟩, ?_⟩
  · intro a ha; exact w.fpi a (mem_filter_ids _ _ _ _ ha)
  · intro a ha; exact w.die a (mem_filter_ids _ _ _ _ ha)
  · intro a ha hm; exact w.dpi a ha (mem_filter_ids _ _ _ _ hm)
  · show setRemove g.lim.pendIn c = _
    rw [x.pi]; exact setRemove_map _ _ _
  · intro a ha
    exact ⟨(x.ge a ha).1, (x.ge a ha).2.1, fun hm => (x.ge a ha).2.2 (mem_filter_ids _ _ _ _ hm)⟩
  · intro ht
    have l := l ht
    refine ⟨?_, l.po, l.ei, l.eo, l.pp, l.tot⟩
    intro m hm
    exact Nat.le_trans (setRemove_length_le _ _) (l.pi m hm)

/-- a new pending outgoing connection: counted by the behaviour, or exempt (bypassed peer) -/
theorem J_poAdd {s : State} {g : GL} {t : Bool} (h : J s g t) (peer : Option Nat) (inflight : List (Nat × Maddr))
    (errors : List (Maddr × Bool)) (exempt : Bool)
    (hl : t = false → exempt = false → checkLimit g.lim.limits.maxPO g.lim.pendOut.length = false) :
    J { s with pendOut := s.pendOut ++ [{ id := s.nextId, peer, inflight, errors }], nextId := s.nextId + 1 }
      (if exempt then { g with exDial := s.nextId :: g.exDial }
       else { g with lim := { g.lim with pendOut := g.lim.pendOut ++ [s.nextId] } }) t := by
  have hf := J_fresh h
  obtain ⟨w, x, l⟩ := h
  have hw : W { s with pendOut := s.pendOut ++ [{ id := s.nextId, peer, inflight, errors }], nextId := s.nextId + 1 } := by
    refine ⟨?_, ?_, ?_, w.nde, ?_, w.die, ?_⟩
    · intro c hc
      simp only [poIds, List.map_append, List.map_cons, List.map_nil, List.mem_append, List.mem_singleton] at hc
      rcases hc with hc | rfl
      · exact Nat.lt_succ_of_lt (w.fpo c hc)
      · exact Nat.lt_succ_self _
    · intro c hc; exact Nat.lt_succ_of_lt (w.fpi c hc)
    · intro c hc; exact Nat.lt_succ_of_lt (w.fe c hc)
    · intro c hc
      simp only [poIds, List.map_append, List.map_cons, List.map_nil, List.mem_append, List.mem_singleton] at hc
      rcases hc with hc | rfl
      · exact w.dpe c hc
      · exact hf.2.2.2.2.2
    · intro c hc
      simp only [poIds, List.map_append, List.map_cons, List.map_nil, List.mem_append, List.mem_singleton] at hc
      rcases hc with hc | rfl
      · exact w.dpi c hc
      · exact hf.2.2.2.2.1
  have hge : ∀ c ∈ g.exEst, c < s.nextId + 1 ∧
      c ∉ poIds { s with pendOut := s.pendOut ++ [{ id := s.nextId, peer, inflight, errors }], nextId := s.nextId + 1 } ∧
      c ∉ piIds s := by
    intro c hc
    refine ⟨Nat.lt_succ_of_lt (x.ge c hc).1, ?_, (x.ge c hc).2.2⟩
    simp only [poIds, List.map_append, List.map_cons, List.map_nil, List.mem_append, List.mem_singleton, not_or]
    exact ⟨(x.ge c hc).2.1, fun e => Nat.lt_irrefl _ (e ▸ (x.ge c hc).1)⟩
  cases exempt with
  | true =>
    refine ⟨hw, ⟨x.pi, ?_, x.ei, x.eo, x.pp, ?_, hge⟩, ?_⟩
    · show g.lim.pendOut = _
      simp only [poIds, List.map_append, List.map_cons, List.map_nil, List.filter_append, List.filter_cons,
        List.contains_cons, beq_self_eq_true, Bool.true_or, Bool.not_true, Bool.false_eq_true, ↓reduceIte,
        List.filter_nil, List.append_nil]
      rw [x.po]
      apply List.filter_congr
      intro c hc
      have : c ≠ s.nextId := fun e => Nat.lt_irrefl _ (e ▸ w.fpo c hc)
      simp [this]
    · intro c hc
      simp only [↓reduceIte, List.mem_cons] at hc
      rcases hc with rfl | hc
      · exact Nat.lt_succ_self _
      · exact Nat.lt_succ_of_lt (x.gd c hc)
    · intro ht; have l := l ht; exact ⟨l.pi, l.po, l.ei, l.eo, l.pp, l.tot⟩
  | false =>
    refine ⟨hw, ⟨x.pi, ?_, x.ei, x.eo, x.pp, ?_, hge⟩, ?_⟩
    · show g.lim.pendOut ++ [s.nextId] = _
      have hnc : g.exDial.contains s.nextId = false := by
        cases hc : g.exDial.contains s.nextId with
        | false => rfl
        | true => exact absurd (List.contains_iff_mem.1 hc) hf.2.2.1
      simp only [poIds, List.map_append, List.map_cons, List.map_nil, List.filter_append, List.filter_cons,
        Bool.false_eq_true, ↓reduceIte, hnc, Bool.not_false, List.filter_nil]
      rw [x.po]; rfl
    · intro c hc; exact Nat.lt_succ_of_lt (x.gd c hc)
    · intro ht
      have l := l ht
      refine ⟨l.pi, ?_, l.ei, l.eo, l.pp, l.tot⟩
      intro m hm
      have := checkLimit_false _ _ (hl ht rfl) m hm
      show (g.lim.pendOut ++ [s.nextId]).length ≤ m
      simp only [List.length_append, List.length_singleton]
      omega

/-- a pending outgoing connection goes away (or `c` was not pending) -/
theorem J_poRemove {s : State} {g : GL} {t : Bool} (h : J s g t) (c : Nat) (cpo : Nat) :
    J { s with pendOut := s.pendOut.filter (·.id != c), cPO := cpo }
      { g with lim := { g.lim with pendOut := setRemove g.lim.pendOut c } } t := by
  obtain ⟨w, x, l⟩ := h
  refine ⟨⟨?_, w.fpi, w.fe, w.nde, ?_, w.die, ?_⟩, ⟨x.pi, ?_, x.ei, x.eo, x.pp, x.gd, ?_⟩, ?_⟩
  · intro a ha; exact w.fpo a (mem_filter_ids _ _ _ _ ha)
  · intro a ha; exact w.dpe a (mem_filter_ids _ _ _ _ ha)
  · intro a ha; exact w.dpi a (mem_filter_ids _ _ _ _ ha)
  · show setRemove g.lim.pendOut c = _
    rw [x.po, ← setRemove_filter]
    congr 1
    exact setRemove_map _ _ _
  · intro a ha
    exact ⟨(x.ge a ha).1, fun hm => (x.ge a ha).2.1 (mem_filter_ids _ _ _ _ hm), (x.ge a ha).2.2⟩
  · intro ht
    have l := l ht
    refine ⟨l.pi, ?_, l.ei, l.eo, l.pp, l.tot⟩
    intro m hm
    exact Nat.le_trans (setRemove_length_le _ _) (l.po m hm)

/-- the pending dial's bookkeeping is updated, ids unchanged -/
theorem J_poUpdate {s : State} {g : GL} {t : Bool} (h : J s g t) (f : PendingOut → PendingOut)
    (hf : ∀ q, (f q).id = q.id) : J { s with pendOut := s.pendOut.map f } g t := by
  have : (s.pendOut.map f).map (·.id) = s.pendOut.map (·.id) := by
    rw [List.map_map]; apply List.map_congr_left; intro a _; exact hf a
  obtain ⟨w, x, l⟩ := h
  refine ⟨⟨?_, w.fpi, w.fe, w.nde, ?_, w.die, ?_⟩, ⟨x.pi, ?_, x.ei, x.eo, x.pp, x.gd, ?_⟩, l⟩
  · simp only [poIds, this]; exact w.fpo
  · simp only [poIds, this]; exact w.dpe
  · simp only [poIds, this]; exact w.dpi
  · simp only [poIds, this]; exact x.po
  · simp only [poIds, this]; exact x.ge

theorem estChecks_false {b : Lim} {out : Bool} {p : Nat} (h : estChecks b out p = false) :
    checkLimit (if out then b.limits.maxEO else b.limits.maxEI) (if out then b.estOut.length else b.estIn.length) = false ∧
    checkLimit b.limits.maxPP (ppGet b.perPeer p).length = false ∧
    checkLimit b.limits.maxTot (b.estIn.length + b.estOut.length) = false := by
  simpa [estChecks, Bool.or_eq_false_iff, and_assoc] using h

theorem contains_false_of_not_mem {l : List Nat} {c : Nat} (h : c ∉ l) : l.contains c = false := by
  cases hc : l.contains c with
  | false => rfl
  | true => exact absurd (List.contains_iff_mem.1 hc) h

/-- a connection (whose id is in no table) becomes established; `exempt` = its peer is bypassed.
`pp'` = any per-peer map that reads as the old one with `c` added to `p`'s set. -/
theorem J_est {s : State} {g : GL} {t : Bool} (h : J s g t) (c p : Nat) (out md : Bool) (mk : Nat)
    (hlt : c < s.nextId) (hpo : c ∉ poIds s) (hpi : c ∉ piIds s) (hne : c ∉ eIds s) (exempt : Bool)
    (hl : t = false → exempt = false → estChecks g.lim out p = false) (pp' : PP)
    (hpp : ∀ q, ppGet pp' q = if q = p then ppGet g.lim.perPeer p ++ [c] else ppGet g.lim.perPeer q) :
    J { s with est := s.est ++ [{ id := c, peer := p, out, muxDial := md, muxK := mk }] }
      { g with lim := { g.lim with estOut := if out then g.lim.estOut ++ [c] else g.lim.estOut,
                                   estIn := if out then g.lim.estIn else g.lim.estIn ++ [c],
                                   perPeer := pp' },
               exEst := if exempt then c :: g.exEst else g.exEst } t := by
  obtain ⟨w, x, l⟩ := h
  refine ⟨⟨w.fpo, w.fpi, ?_, ?_, ?_, ?_, w.dpi⟩, ⟨x.pi, x.po, ?_, ?_, ?_, x.gd, ?_⟩, ?_⟩
  · intro a ha
    simp only [eIds, List.map_append, List.map_cons, List.map_nil, List.mem_append, List.mem_singleton] at ha
    rcases ha with ha | rfl
    · exact w.fe a ha
    · exact hlt
  · simp only [eIds, List.map_append, List.map_cons, List.map_nil]
    apply List.nodup_append.2
    refine ⟨w.nde, by simp, ?_⟩
    intro a ha b hb
    simp only [List.mem_singleton] at hb
    subst hb
    intro e; subst e; exact hne ha
  · intro a ha
    simp only [eIds, List.map_append, List.map_cons, List.map_nil, List.mem_append, List.mem_singleton, not_or]
    exact ⟨w.dpe a ha, fun e => hpo (e ▸ ha)⟩
  · intro a ha
    simp only [eIds, List.map_append, List.map_cons, List.map_nil, List.mem_append, List.mem_singleton, not_or]
    exact ⟨w.die a ha, fun e => hpi (e ▸ ha)⟩
  · show (if out then g.lim.estIn else g.lim.estIn ++ [c]) = _
    cases out <;> simp [x.ei, List.filter_append]
  · show (if out then g.lim.estOut ++ [c] else g.lim.estOut) = _
    cases out <;> simp [x.eo, List.filter_append]
  · intro q
    show ppGet pp' q = _
    rw [hpp]
    by_cases hq : q = p
    · subst hq; simp [x.pp, List.filter_append]
    · have : (p == q) = false := by simpa using fun e : p = q => hq e.symm
      simp [hq, x.pp, List.filter_append, this]
  · intro a ha
    cases exempt with
    | false => exact x.ge a ha
    | true =>
      simp only [↓reduceIte, List.mem_cons] at ha
      rcases ha with rfl | ha
      · exact ⟨hlt, hpo, hpi⟩
      · exact x.ge a ha
  · intro ht
    have l := l ht
    cases exempt with
    | true =>
      -- exempt: the new id is not counted, and no old id becomes counted
      refine ⟨l.pi, l.po, ?_, ?_, ?_, ?_⟩
      · intro m hm
        show cnt (if out then g.lim.estIn else g.lim.estIn ++ [c]) (c :: g.exEst) ≤ m
        cases out
        · exact Nat.le_trans (cnt_append_exempt _ _ _) (l.ei m hm)
        · exact Nat.le_trans (cnt_ex_cons _ _ _) (l.ei m hm)
      · intro m hm
        show cnt (if out then g.lim.estOut ++ [c] else g.lim.estOut) (c :: g.exEst) ≤ m
        cases out
        · exact Nat.le_trans (cnt_ex_cons _ _ _) (l.eo m hm)
        · exact Nat.le_trans (cnt_append_exempt _ _ _) (l.eo m hm)
      · intro m q hm
        show cnt (ppGet pp' q) (c :: g.exEst) ≤ m
        rw [hpp]
        by_cases hq : q = p
        · simp only [hq, ↓reduceIte]
          exact Nat.le_trans (cnt_append_exempt _ _ _) (l.pp m p hm)
        · simp only [hq, ↓reduceIte]
          exact Nat.le_trans (cnt_ex_cons _ _ _) (l.pp m q hm)
      · intro m hm
        show cnt (if out then g.lim.estIn else g.lim.estIn ++ [c]) (c :: g.exEst) +
          cnt (if out then g.lim.estOut ++ [c] else g.lim.estOut) (c :: g.exEst) ≤ m
        have h0 := l.tot m hm
        cases out
        · have h1 := cnt_append_exempt g.lim.estIn g.exEst c
          have h2 := cnt_ex_cons g.lim.estOut g.exEst c
          simp only [Bool.false_eq_true, ↓reduceIte]; omega
        · have h1 := cnt_ex_cons g.lim.estIn g.exEst c
          have h2 := cnt_append_exempt g.lim.estOut g.exEst c
          simp only [↓reduceIte]; omega
    | false =>
      obtain ⟨c1, c2, c3⟩ := estChecks_false (hl ht rfl)
      refine ⟨l.pi, l.po, ?_, ?_, ?_, ?_⟩
      · intro m hm
        show cnt (if out then g.lim.estIn else g.lim.estIn ++ [c]) g.exEst ≤ m
        cases out
        · have := checkLimit_false _ _ c1 m (by simpa using hm)
          have h1 := cnt_append_single' g.lim.estIn g.exEst c
          have h2 := cnt_le g.lim.estIn g.exEst
          simp only [Bool.false_eq_true, ↓reduceIte] at this ⊢; omega
        · exact l.ei m hm
      · intro m hm
        show cnt (if out then g.lim.estOut ++ [c] else g.lim.estOut) g.exEst ≤ m
        cases out
        · exact l.eo m hm
        · have := checkLimit_false _ _ c1 m (by simpa using hm)
          have h1 := cnt_append_single' g.lim.estOut g.exEst c
          have h2 := cnt_le g.lim.estOut g.exEst
          simp only [↓reduceIte] at this ⊢; omega
      · intro m q hm
        show cnt (ppGet pp' q) g.exEst ≤ m
        rw [hpp]
        by_cases hq : q = p
        · simp only [hq, ↓reduceIte]
          have := checkLimit_false _ _ c2 m hm
          have h1 := cnt_append_single' (ppGet g.lim.perPeer p) g.exEst c
          have h2 := cnt_le (ppGet g.lim.perPeer p) g.exEst
          omega
        · simp only [hq, ↓reduceIte]; exact l.pp m q hm
      · intro m hm
        show cnt (if out then g.lim.estIn else g.lim.estIn ++ [c]) g.exEst +
          cnt (if out then g.lim.estOut ++ [c] else g.lim.estOut) g.exEst ≤ m
        have := checkLimit_false _ _ c3 m hm
        have h2 := cnt_le g.lim.estIn g.exEst
        have h3 := cnt_le g.lim.estOut g.exEst
        cases out
        · have h1 := cnt_append_single' g.lim.estIn g.exEst c
          simp only [Bool.false_eq_true, ↓reduceIte]; omega
        · have h1 := cnt_append_single' g.lim.estOut g.exEst c
          simp only [↓reduceIte]; omega

theorem eq_of_id_eq {l : List Est} (hn : (l.map (·.id)).Nodup) {a b : Est} (ha : a ∈ l) (hb : b ∈ l)
    (h : a.id = b.id) : a = b := by
  induction l with
  | nil => cases ha
  | cons x t ih =>
    simp only [List.map_cons, List.nodup_cons] at hn
    rcases List.mem_cons.1 ha with rfl | ha' <;> rcases List.mem_cons.1 hb with rfl | hb'
    · rfl
    · exact absurd (h ▸ List.mem_map_of_mem hb') hn.1
    · exact absurd (h ▸ List.mem_map_of_mem ha') hn.1
    · exact ih hn.2 ha' hb'

/-- an established connection is closed -/
theorem J_close {s : State} {g : GL} {t : Bool} (h : J s g t) (c : Nat) (e : Est) (he : e ∈ s.est) (hid : e.id = c)
    (cei ceo : Nat) :
    J { s with est := s.est.filter (·.id != c), cEO := ceo, cEI := cei }
      { g with lim := { g.lim with estIn := setRemove g.lim.estIn c, estOut := setRemove g.lim.estOut c,
                                   perPeer := ppUpd g.lim.perPeer e.peer (setRemove · c) } } t := by
  obtain ⟨w, x, l⟩ := h
  refine ⟨⟨w.fpo, w.fpi, ?_, ?_, ?_, ?_, w.dpi⟩, ⟨x.pi, x.po, ?_, ?_, ?_, x.gd, x.ge⟩, ?_⟩
  · intro a ha; exact w.fe a (mem_filter_ids _ _ _ _ ha)
  · exact List.Nodup.sublist (List.Sublist.map _ (List.filter_sublist)) w.nde
  · intro a ha hm; exact w.dpe a ha (mem_filter_ids _ _ _ _ hm)
  · intro a ha hm; exact w.die a ha (mem_filter_ids _ _ _ _ hm)
  · show setRemove g.lim.estIn c = _
    rw [x.ei, setRemove_map, List.filter_filter, List.filter_filter]
    congr 1; apply List.filter_congr; intro a _; exact Bool.and_comm _ _
  · show setRemove g.lim.estOut c = _
    rw [x.eo, setRemove_map, List.filter_filter, List.filter_filter]
    congr 1; apply List.filter_congr; intro a _; exact Bool.and_comm _ _
  · intro q
    show ppGet (ppUpd g.lim.perPeer e.peer (setRemove · c)) q = _
    rw [ppGet_ppUpd]
    by_cases hq : q = e.peer
    · simp only [hq, ↓reduceIte]
      rw [x.pp, setRemove_map, List.filter_filter, List.filter_filter]
      congr 1; apply List.filter_congr; intro a _; exact Bool.and_comm _ _
    · simp only [hq, ↓reduceIte]
      rw [x.pp, List.filter_filter]
      congr 1; apply List.filter_congr
      intro a ha
      by_cases hac : a.id = c
      · have : a = e := eq_of_id_eq w.nde ha he (hac.trans hid.symm)
        subst this
        have : (a.peer == q) = false := by simpa using fun e' : a.peer = q => hq e'.symm
        simp [this]
      · have : (a.id != c) = true := by simpa [bne_iff_ne] using hac
        simp [this]
  · intro ht
    have l := l ht
    refine ⟨l.pi, l.po, ?_, ?_, ?_, ?_⟩
    · intro m hm; exact Nat.le_trans (cnt_setRemove _ _ _) (l.ei m hm)
    · intro m hm; exact Nat.le_trans (cnt_setRemove _ _ _) (l.eo m hm)
    · intro m q hm
      show cnt (ppGet (ppUpd g.lim.perPeer e.peer (setRemove · c)) q) g.exEst ≤ m
      rw [ppGet_ppUpd]
      by_cases hq : q = e.peer
      · simp only [hq, ↓reduceIte]; exact Nat.le_trans (cnt_setRemove _ _ _) (l.pp m _ hm)
      · simp only [hq, ↓reduceIte]; exact l.pp m q hm
    · intro m hm
      have h1 := cnt_setRemove g.lim.estIn g.exEst c
      have h2 := cnt_setRemove g.lim.estOut g.exEst c
      have := l.tot m hm
      show cnt (setRemove g.lim.estIn c) g.exEst + cnt (setRemove g.lim.estOut c) g.exEst ≤ m
      omega

end C52
