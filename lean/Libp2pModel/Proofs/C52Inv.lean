import Libp2pModel.Proofs.C52Sets
import Libp2pModel.Proofs.SwarmFrame
/-!
# C52: the invariant of Swarm ∥ connection-limits and its preservation by every Swarm transition

`W` = the Swarm's connection ids are fresh/unique, `X` = the behaviour's five sets are exactly the
Swarm's tables (pending outgoing: minus the dials exempted by the bypass rule), `L` = every
non-exempt counter is within its limit.
-/
namespace C52
open Swarm

def poIds (s : State) : List Nat := s.pendOut.map (·.id)
def piIds (s : State) : List Nat := s.pendIn.map (·.id)
def eIds (s : State) : List Nat := s.est.map (·.id)

structure W (s : State) : Prop where
  fpo : ∀ c ∈ poIds s, c < s.nextId
  fpi : ∀ c ∈ piIds s, c < s.nextId
  fe : ∀ c ∈ eIds s, c < s.nextId
  nde : (eIds s).Nodup
  dpe : ∀ c ∈ poIds s, c ∉ eIds s
  die : ∀ c ∈ piIds s, c ∉ eIds s
  dpi : ∀ c ∈ poIds s, c ∉ piIds s

structure X (s : State) (g : GL) : Prop where
  pi : g.lim.pendIn = piIds s
  po : g.lim.pendOut = (poIds s).filter (fun c => !g.exDial.contains c)
  ei : g.lim.estIn = (s.est.filter (fun e => !e.out)).map (·.id)
  eo : g.lim.estOut = (s.est.filter (fun e => e.out)).map (·.id)
  pp : ∀ p, ppGet g.lim.perPeer p = (s.est.filter (fun e => e.peer == p)).map (·.id)
  gd : ∀ c ∈ g.exDial, c < s.nextId
  ge : ∀ c ∈ g.exEst, c < s.nextId ∧ c ∉ poIds s ∧ c ∉ piIds s

/-- number of ids in `l` not exempted by `ex` -/
def cnt (l ex : List Nat) : Nat := (l.filter (fun c => !ex.contains c)).length

structure L (g : GL) : Prop where
  pi : ∀ m, g.lim.limits.maxPI = some m → g.lim.pendIn.length ≤ m
  po : ∀ m, g.lim.limits.maxPO = some m → g.lim.pendOut.length ≤ m
  ei : ∀ m, g.lim.limits.maxEI = some m → cnt g.lim.estIn g.exEst ≤ m
  eo : ∀ m, g.lim.limits.maxEO = some m → cnt g.lim.estOut g.exEst ≤ m
  pp : ∀ m p, g.lim.limits.maxPP = some m → cnt (ppGet g.lim.perPeer p) g.exEst ≤ m
  tot : ∀ m, g.lim.limits.maxTot = some m → cnt g.lim.estIn g.exEst + cnt g.lim.estOut g.exEst ≤ m

/-- the invariant; `t` = the limits were changed while connections existed -/
def J (s : State) (g : GL) (t : Bool) : Prop := W s ∧ X s g ∧ (t = false → L g)

theorem feedAll_append (ctx : Option Nat) (g : GL) (a b : List Ev) :
    feedAll ctx g (a ++ b) = feedAll ctx (feedAll ctx g a) b := by
  simp [feedAll, List.foldl_append]

theorem feedAll_cons (ctx : Option Nat) (g : GL) (e : Ev) (l : List Ev) :
    feedAll ctx g (e :: l) = feedAll ctx (feed ctx g e) l := rfl

theorem feedAll_nil (ctx : Option Nat) (g : GL) : feedAll ctx g [] = g := rfl

theorem checkLimit_false (limit : Option Nat) (n : Nat) (h : checkLimit limit n = false) :
    ∀ m, limit = some m → n < m := by
  intro m hm
  subst hm
  simpa [checkLimit] using h

theorem cnt_le (l ex : List Nat) : cnt l ex ≤ l.length := List.length_filter_le _ _

theorem cnt_setRemove (l ex : List Nat) (c : Nat) : cnt (setRemove l c) ex ≤ cnt l ex := by
  unfold cnt
  rw [setRemove_filter]
  exact setRemove_length_le _ _

theorem cnt_append_single (l ex : List Nat) (c : Nat) :
    cnt (l ++ [c]) ex = cnt l ex + (if ex.contains c then 0 else 1) := by
  unfold cnt
  rw [List.filter_append, List.length_append]
  cases ex.contains c <;> simp

theorem cnt_ex_cons (l ex : List Nat) (c : Nat) : cnt l (c :: ex) ≤ cnt l ex := by
  unfold cnt
  apply filter_length_mono
  intro x hx
  simp only [List.contains_cons, Bool.not_or, Bool.and_eq_true, Bool.not_eq_true'] at hx ⊢
  exact hx.2

theorem cnt_append_single' (l ex : List Nat) (c : Nat) : cnt (l ++ [c]) ex ≤ cnt l ex + 1 := by
  unfold cnt
  rw [List.filter_append, List.length_append]
  have : ([c].filter (fun c => !ex.contains c)).length ≤ 1 := List.length_filter_le _ _
  omega

theorem cnt_append_exempt (l ex : List Nat) (c : Nat) : cnt (l ++ [c]) (c :: ex) ≤ cnt l ex := by
  unfold cnt
  rw [List.filter_append]
  simp only [List.filter_cons, List.contains_cons, beq_self_eq_true, Bool.true_or, Bool.not_true,
    Bool.false_eq_true, ↓reduceIte, List.filter_nil, List.append_nil]
  exact cnt_ex_cons l ex c

theorem filter_absent {α : Type} (l : List α) (f : α → Nat) (c : Nat) (h : c ∉ l.map f) :
    l.filter (fun x => f x != c) = l := by
  apply List.filter_eq_self.2
  intro a ha
  have : f a ≠ c := fun e => h (e ▸ List.mem_map_of_mem ha)
  simpa [bne_iff_ne] using this

/-! ## effect lemmas: `J` depends on the Swarm state only through `nextId`, the three tables, and on
the behaviour only through its sets, limits and the ghost lists -/

/-- nothing but the id counter moves -/
theorem J_bump {s s' : State} {g : GL} {t : Bool} (h : J s g t)
    (hn : s.nextId ≤ s'.nextId) (hpo : s'.pendOut = s.pendOut) (hpi : s'.pendIn = s.pendIn)
    (he : s'.est = s.est) : J s' g t := by
  obtain ⟨w, x, l⟩ := h
  refine ⟨⟨?_, ?_, ?_, ?_, ?_, ?_, ?_⟩, ⟨?_, ?_, ?_, ?_, ?_, ?_, ?_⟩, l⟩
  · intro c hc; simp only [poIds, hpo] at hc; exact Nat.lt_of_lt_of_le (w.fpo c hc) hn
  · intro c hc; simp only [piIds, hpi] at hc; exact Nat.lt_of_lt_of_le (w.fpi c hc) hn
  · intro c hc; simp only [eIds, he] at hc; exact Nat.lt_of_lt_of_le (w.fe c hc) hn
  · simp only [eIds, he]; exact w.nde
  · simp only [poIds, eIds, hpo, he]; exact w.dpe
  · simp only [piIds, eIds, hpi, he]; exact w.die
  · simp only [poIds, piIds, hpo, hpi]; exact w.dpi
  · simp only [piIds, hpi]; exact x.pi
  · simp only [poIds, hpo]; exact x.po
  · rw [he]; exact x.ei
  · rw [he]; exact x.eo
  · rw [he]; exact x.pp
  · intro c hc; exact Nat.lt_of_lt_of_le (x.gd c hc) hn
  · intro c hc
    simp only [poIds, piIds, hpo, hpi]
    exact ⟨Nat.lt_of_lt_of_le (x.ge c hc).1 hn, (x.ge c hc).2⟩

end C52
