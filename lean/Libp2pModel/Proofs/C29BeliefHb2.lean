import Libp2pModel.Proofs.C29BeliefHb
/-!
# C29 — belief invariant, part 7: the whole heartbeat
-/
namespace C29
open C28

theorem SameCore.symm {a b : State} (h : SameCore a b) : SameCore b a :=
  ⟨h.1.symm, h.2.1.symm, h.2.2.1.symm, h.2.2.2.1.symm, h.2.2.2.2.symm⟩

theorem meshOK_core {s s' : State} (h : MeshOK s) (hc : SameCore s s') : MeshOK s' :=
  (meshOK_iff_x s' 0).2 (((meshOK_iff_x s 0).1 h).core hc)

theorem inMesh_memF (s : State) (t q : Nat) : inMesh s t q = true ↔ memF s.mesh t q := inMesh_iff

/-- the belief part of the heartbeat, on the state `S1` that already holds the new meshes -/
theorem hb_belief (s S1 S3 : State) (tg tp : List (Nat × Nat))
    (hrel : HbRel s.mesh S1.mesh tg tp) (hp1 : S1.peers = s.peers) (hb1 : S1.belief = s.belief)
    (hm1 : MeshOK S1) (ht1 : TailInv S1) (hbs : HB s)
    (hp3 : S3.peers = S1.peers) (hmesh3 : S3.mesh = S1.mesh)
    (hb3 : S3.belief = applyNotifs (applyNotifs S1.belief (callsG tg S1 peerUniverse)) (callsP tg S1 tp)) :
    HB S3 := by
  -- intermediate state after the graft notifications
  let S2 : State := { S1 with belief := applyNotifs S1.belief (callsG tg S1 peerUniverse) }
  have hG := callsG_heads tg S1 peerUniverse
  have hP := callsP_heads tg S1 tp
  intro q
  unfold HBp
  have h2 : headB S2 q = if (callsG tg S1 peerUniverse).any (fun n => n.1 == q) then true else headB S1 q :=
    headB_batch S1 S2 _ true rfl rfl (fun n hn => (hG n hn).1) (fun n hn => (hG n hn).2.1) q
  have h3 : headB S3 q = if (callsP tg S1 tp).any (fun n => n.1 == q) then false else headB S2 q :=
    headB_batch S2 S3 _ false hp3 hb3 (fun n hn => (hP n hn).1) (fun n hn => (hP n hn).2.1) q
  have h1 : headB S1 q = headB s q := headB_of_fields hp1 hb1 q
  have hInM : InM S3 q ↔ InM S1 q := by
    constructor <;> rintro ⟨t, ht⟩ <;> exact ⟨t, by unfold inMesh at ht ⊢; rw [hmesh3] at *; exact ht⟩
  rw [hInM, h3, h2, h1]
  have hsq := hbs q
  unfold HBp at hsq
  -- membership facts
  have C1 : ∀ t, (q, t) ∈ tg → inMesh S1 t q = true := fun t h => (inMesh_memF S1 t q).2 ((hrel t q).1 h)
  have C2 : ∀ t, inMesh S1 t q = true → inMesh s t q = true ∨ (q, t) ∈ tg := by
    intro t h
    rcases (hrel t q).2.1 ((inMesh_memF S1 t q).1 h) with h' | h'
    · exact Or.inl ((inMesh_memF s t q).2 h')
    · exact Or.inr h'
  have C3 : ∀ t, inMesh s t q = true → inMesh S1 t q = true ∨ (q, t) ∈ tp := by
    intro t h
    rcases (hrel t q).2.2.1 ((inMesh_memF s t q).1 h) with h' | h'
    · exact Or.inl ((inMesh_memF S1 t q).2 h')
    · exact Or.inr h'
  have C4 : ∀ t, (q, t) ∈ tp → inMesh S1 t q = true → (q, t) ∈ tg :=
    fun t h h' => (hrel t q).2.2.2.1 h ((inMesh_memF S1 t q).1 h')
  have C5 : ∀ t, (q, t) ∈ tg → q ∈ peerUniverse := fun t h => (hrel t q).2.2.2.2 h
  have hheadeq : headOf S1 q = headOf s q := headOf_of_peers hp1 q
  by_cases hts : (topicsOf tg q).isEmpty = true
  · -- `q` was not grafted anywhere
    have hnoG : (callsG tg S1 peerUniverse).any (fun n => n.1 == q) = false := by
      rw [List.any_eq_false]
      intro n hn heq
      have hnq : n.1 = q := by simpa using heq
      have := (hG n hn).2.2.2.1
      rw [hnq] at this
      exact this hts
    have hnotg : ∀ t, (q, t) ∉ tg := by
      intro t ht
      have : t ∈ topicsOf tg q := (mem_topicsOf tg q t).2 ht
      rw [List.isEmpty_iff.1 hts] at this
      simp at this
    rw [hnoG]
    simp only [Bool.false_eq_true, ↓reduceIte]
    by_cases hanyP : (callsP tg S1 tp).any (fun n => n.1 == q) = true
    · -- a `LeftMesh` was sent: `q` is in no mesh any more
      rw [if_pos hanyP]
      simp only [Bool.false_eq_true, false_iff]
      rintro ⟨t0, hin0⟩
      simp only [List.any_eq_true, beq_iff_eq] at hanyP
      obtain ⟨n, hn, hnq⟩ := hanyP
      obtain ⟨_, _, _, t, htp, hmem⟩ := hP n hn
      rw [hnq] at htp hmem
      rcases peerRemoved_spec S1 q t with ⟨h0, _⟩ | ⟨c, _, _, hnone⟩
      · rw [h0] at hmem; simp at hmem
      · obtain ⟨pd, hpd, htop⟩ := topics_of_inMesh hm1 hin0
        have htt : t0 ≠ t := by
          rintro rfl
          exact hnotg t0 (C4 t0 htp hin0)
        rw [hnone pd hpd t0 htop htt] at hin0; cases hin0
    · rw [if_neg hanyP]
      constructor
      · intro hb
        obtain ⟨t0, hin0⟩ := hsq.1 hb
        rcases C3 t0 hin0 with h' | h'
        · exact ⟨t0, h'⟩
        · -- pruned in `t0` without a `LeftMesh`: another mesh holds `q`
          rcases peerRemoved_spec S1 q t0 with ⟨_, hn | ⟨pd, t'', _, _, _, hin''⟩⟩ | ⟨c, _, h1', _⟩
          · rw [hheadeq] at hn
            simp [headB, hn] at hb
          · exact ⟨t'', hin''⟩
          · exfalso; apply hanyP
            simp only [List.any_eq_true, beq_iff_eq]
            refine ⟨(q, c, false), ?_, rfl⟩
            apply List.mem_flatMap.2
            refine ⟨(q, t0), h', ?_⟩
            simp only [hts, ↓reduceIte, h1', List.mem_singleton]
      · rintro ⟨t0, hin0⟩
        rcases C2 t0 hin0 with h' | h'
        · exact hsq.2 ⟨t0, h'⟩
        · exact absurd h' (hnotg t0)
  · -- `q` was grafted in at least one topic: it is in a mesh, and it is told so
    have hnoP : (callsP tg S1 tp).any (fun n => n.1 == q) = false := by
      rw [List.any_eq_false]
      intro n hn heq
      have hnq : n.1 = q := by simpa using heq
      have := (hP n hn).2.2.1
      rw [hnq] at this
      exact hts this
    obtain ⟨t1, hmem1⟩ : ∃ t, t ∈ topicsOf tg q := by
      cases hl : topicsOf tg q with
      | nil => simp [hl] at hts
      | cons x _ => exact ⟨x, by simp⟩
    have htg1 : (q, t1) ∈ tg := (mem_topicsOf tg q t1).1 hmem1
    have hin1 : inMesh S1 t1 q = true := C1 t1 htg1
    have hInM1 : InM S1 q := ⟨t1, hin1⟩
    rw [hnoP]
    simp only [Bool.false_eq_true, ↓reduceIte, hInM1, iff_true]
    by_cases hanyG : (callsG tg S1 peerUniverse).any (fun n => n.1 == q) = true
    · rw [if_pos hanyG]
    · rw [if_neg hanyG]
      have hhead : headOf S1 q ≠ none := headOf_of_inM hm1 ht1 hInM1
      rcases peerAdded_spec S1 q (topicsOf tg q) with ⟨_, hn | ⟨pd, t'', _, _, hnt, hin''⟩⟩ | ⟨c, _, h1', _⟩
      · exact absurd hn hhead
      · rcases C2 t'' hin'' with h' | h'
        · exact hsq.2 ⟨t'', h'⟩
        · exact absurd ((mem_topicsOf tg q t'').2 h') hnt
      · exfalso; apply hanyG
        simp only [List.any_eq_true, beq_iff_eq]
        refine ⟨(q, c, true), ?_, rfl⟩
        apply List.mem_flatMap.2
        refine ⟨q, C5 t1 htg1, ?_⟩
        simp only [hts, Bool.false_eq_true, ↓reduceIte, h1', List.mem_singleton]

theorem binv_heartbeat (s : State) (now : Nat) (sc : Nat → Int) (final : Nat → List Nat)
    (fan : Nat → Option (List Nat)) (h : BInv s) : BInv (heartbeatG fixed s now sc final fan).1 := by
  have hinv := inv_heartbeat fixed s now sc final fan h.inv
  unfold heartbeatG at hinv ⊢
  simp only at hinv ⊢
  cases hloop : hbMeshLoop { s with ticks := s.ticks + 1, backoff := (C32.heartbeat s.backoff now).getD s.backoff }
      sc final topicUniverse s.mesh [] [] with
  | none => exact h
  | some res =>
    obtain ⟨mesh, tg, tp⟩ := res
    cases hfan : hbFanout { s with ticks := s.ticks + 1, backoff := (C32.heartbeat s.backoff now).getD s.backoff } fan with
    | none => exact h
    | some fanout =>
      simp only [hloop, hfan] at hinv ⊢
      -- the states of `send_graft_prune`
      generalize hS1 : ({ cfg := s.cfg, peers := s.peers, explicit := s.explicit, mesh := mesh, fanout := fanout, backoff := (C32.heartbeat s.backoff now).getD s.backoff, ticks := s.ticks + 1, belief := s.belief } : State) = S1 at *
      have hp1 : S1.peers = s.peers := by rw [← hS1]
      have hb1 : S1.belief = s.belief := by rw [← hS1]
      have hmesh1 : S1.mesh = mesh := by rw [← hS1]
      obtain ⟨g1, g2, g3⟩ := sendGrafts_desc tg peerUniverse S1 []
      obtain ⟨p1, p2, p3⟩ := sendPrunes_desc tg tp (sendGrafts fixed tg peerUniverse S1 []).1 []
      obtain ⟨b1, b2, b3⟩ := pruneBackoffs_fields now s.cfg.pruneBackoff tp
        (sendPrunes tg tp (sendGrafts fixed tg peerUniverse S1 []).1 []).1
      have hcore : SameCore S1 (pruneBackoffs now s.cfg.pruneBackoff tp
          (sendPrunes tg tp (sendGrafts fixed tg peerUniverse S1 []).1 []).1) :=
        ((sameCore_sendGrafts fixed tg peerUniverse S1 []).trans (sameCore_sendPrunes tg tp _ [])).trans
          (sameCore_pruneBackoffs now s.cfg.pruneBackoff tp _)
      generalize hS4 : (pruneBackoffs now s.cfg.pruneBackoff tp
          (sendPrunes tg tp (sendGrafts fixed tg peerUniverse S1 []).1 []).1) = S4 at *
      have hm1 : MeshOK S1 := meshOK_core hinv.mesh (SameCore.symm (a := S1) (b := S4) hcore)
      have hrel0 : Rel s S1 := ⟨fun p => by simp [connsOf, hp1], fun p c _ => by rw [hb1]⟩
      have ht1 : TailInv S1 := h.tail.rel hrel0
      -- the new meshes against the old ones
      have hrel : HbRel s.mesh S1.mesh tg tp := by
        rw [hmesh1]
        have := hbMeshLoop_facts { s with ticks := s.ticks + 1, backoff := (C32.heartbeat s.backoff now).getD s.backoff }
          sc final topicUniverse s.mesh [] [] (mesh, tg, tp) (by decide)
          (fun t _ => ⟨rfl, fun q hq => by simp at hq, fun q hq => by simp at hq⟩)
          (fun t q => ⟨fun hq => by simp at hq, fun hq => Or.inl hq, fun hq => Or.inl hq, fun hq => by simp at hq,
            fun hq => by simp at hq⟩) hloop
        exact this
      have hp4 : S4.peers = S1.peers := by rw [b1, p1, g1]
      have hmesh4 : S4.mesh = S1.mesh := by rw [b2, p2, g2]
      have hb4 : S4.belief = applyNotifs (applyNotifs S1.belief (callsG tg S1 peerUniverse)) (callsP tg S1 tp) := by
        rw [b3, p3, g3, callsP_core g1 g2]
      refine ⟨hinv, ?_, hb_belief s S1 S4 tg tp hrel hp1 hb1 hm1 ht1 h.hb hp4 hmesh4 hb4⟩
      -- connection lists: all notifications went to first connections
      have hheads : ∀ n ∈ callsG tg S1 peerUniverse ++ callsP tg S1 tp, headOf S1 n.1 = some n.2.1 := by
        intro n hn
        rcases List.mem_append.1 hn with hn | hn
        · exact (callsG_heads tg S1 peerUniverse n hn).2.1
        · exact (callsP_heads tg S1 tp n hn).2.1
      have : Rel S1 S4 := rel_of_batch hp4 (by rw [hb4, applyNotifs_append]) hheads
      exact h.tail.rel (hrel0.trans this)

end C29
