import Libp2pModel.Proofs.C29BeliefBatch
/-!
# C29 — belief invariant, part 6: `heartbeat` + `send_graft_prune`
All meshes are updated first; then one `peer_added_to_mesh(p, all topics grafted)` per grafted peer
and one `peer_removed_from_mesh(p, t)` per pruned topic of every peer that was not grafted anywhere,
all evaluated on the final meshes.
-/
namespace C29
open C28

/-! ## one topic of the mesh maintenance -/

theorem mem_poolOf_univ {s : State} {t : Nat} {f : Nat → Peer → Bool} {q : Nat} (h : q ∈ poolOf s t f) :
    q ∈ peerUniverse := (List.mem_filter.1 h).1

theorem not_contains_of_not_mem {l : List Nat} {q : Nat} (h : q ∉ l) : (!l.contains q) = true := by simp [h]
theorem not_mem_of_not_contains {l : List Nat} {q : Nat} (h : (!l.contains q) = true) : q ∉ l := by simpa using h

theorem hbTopic_facts {s : State} {sc : Nat → Int} {t : Nat} {m final : List Nat} {r : HbTopic}
    (h : hbTopic s sc t m final = some r) :
    (∀ q ∈ r.graft, q ∈ r.mesh) ∧ (∀ q ∈ r.mesh, q ∈ m ∨ q ∈ r.graft) ∧ (∀ q ∈ m, q ∈ r.mesh ∨ q ∈ r.prune)
    ∧ (∀ q ∈ r.prune, q ∈ r.mesh → q ∈ r.graft) ∧ (∀ q ∈ r.graft, q ∈ peerUniverse) := by
  unfold hbTopic at h
  obtain ⟨a, _, ha⟩ := List.exists_of_findSome?_eq_some h
  obtain ⟨h1, h2, h3, hm, hg, hp⟩ := hbTry_some ha
  have e1 : ∀ q ∈ a.1, q ∉ m.filter (fun p => !(decide (sc p < 0))) := fun q hq => (pool1_ok (stepOk_sub h1 q hq)).2.2.1
  refine ⟨?_, ?_, ?_, ?_, ?_⟩
  · intro q hq
    rw [hg] at hq
    rw [hm]
    simp only [List.mem_append] at hq ⊢
    rcases hq with (hq | hq) | hq
    · left; left
      refine List.mem_filter.2 ⟨List.mem_append.2 (Or.inr hq), ?_⟩
      apply not_contains_of_not_mem
      intro hr
      exact e1 q hq (List.mem_filter.1 hr).1
    · left; right; exact hq
    · right; exact hq
  · intro q hq
    rw [hm] at hq
    rw [hg]
    simp only [List.mem_append] at hq ⊢
    rcases hq with (hq | hq) | hq
    · rcases List.mem_append.1 (List.mem_filter.1 hq).1 with h0 | h0
      · exact Or.inl (List.mem_filter.1 h0).1
      · exact Or.inr (Or.inl (Or.inl h0))
    · exact Or.inr (Or.inl (Or.inr hq))
    · exact Or.inr (Or.inr hq)
  · intro q hq
    rw [hm, hp]
    simp only [List.mem_append]
    by_cases hneg : sc q < 0
    · right; left
      exact List.mem_filter.2 ⟨hq, by simpa using hneg⟩
    · have hq0 : q ∈ m.filter (fun p => !(decide (sc p < 0))) := List.mem_filter.2 ⟨hq, by simpa using hneg⟩
      by_cases hfin : q ∈ (m.filter (fun p => !(decide (sc p < 0)))).filter (fun p => !final.contains p)
      · right; right; exact hfin
      · left; left; left
        exact List.mem_filter.2 ⟨List.mem_append.2 (Or.inl hq0), not_contains_of_not_mem hfin⟩
  · intro q hq hmesh
    rw [hp] at hq
    rw [hm] at hmesh
    rw [hg]
    simp only [List.mem_append] at hq hmesh ⊢
    rcases hmesh with (hme | hme) | hme
    · obtain ⟨hme1, hme2⟩ := List.mem_filter.1 hme
      rcases List.mem_append.1 hme1 with h0 | h0
      · exfalso
        rcases hq with hq | hq
        · have a1 := (List.mem_filter.1 hq).2
          have a2 := (List.mem_filter.1 h0).2
          simp only [decide_eq_true_eq] at a1
          simp [a1] at a2
        · exact not_mem_of_not_contains hme2 hq
      · exact Or.inl (Or.inl h0)
    · exact Or.inl (Or.inr hme)
    · exact Or.inr hme
  · intro q hq
    rw [hg] at hq
    simp only [List.mem_append] at hq
    rcases hq with (hq | hq) | hq
    · exact mem_poolOf_univ (stepOk_sub h1 q hq)
    · exact mem_poolOf_univ (stepOk_sub h2 q hq)
    · exact mem_poolOf_univ (stepOk_sub h3 q hq)

/-! ## the loop over the topics -/

def memF (f : Nat → Option (List Nat)) (t q : Nat) : Prop := ∃ m, f t = some m ∧ q ∈ m

/-- how the new meshes, `to_graft` and `to_prune` relate to the old meshes `base` -/
def HbRel (base mesh : Nat → Option (List Nat)) (g pr : List (Nat × Nat)) : Prop :=
  ∀ t q, ((q, t) ∈ g → memF mesh t q) ∧ (memF mesh t q → memF base t q ∨ (q, t) ∈ g)
    ∧ (memF base t q → memF mesh t q ∨ (q, t) ∈ pr) ∧ ((q, t) ∈ pr → memF mesh t q → (q, t) ∈ g)
    ∧ ((q, t) ∈ g → q ∈ peerUniverse)

theorem mem_map_pair (l : List Nat) (t q t' : Nat) : (q, t') ∈ l.map (fun p => (p, t)) ↔ q ∈ l ∧ t' = t := by
  simp only [List.mem_map, Prod.mk.injEq]
  constructor
  · rintro ⟨a, ha, rfl, rfl⟩; exact ⟨ha, rfl⟩
  · rintro ⟨ha, rfl⟩; exact ⟨q, ha, rfl, rfl⟩

theorem hbMeshLoop_facts (s : State) (sc : Nat → Int) (final : Nat → List Nat) :
    ∀ (ts : List Nat) (mesh : Nat → Option (List Nat)) (g pr : List (Nat × Nat))
      (res : (Nat → Option (List Nat)) × List (Nat × Nat) × List (Nat × Nat)),
      ts.Nodup → (∀ t ∈ ts, mesh t = s.mesh t ∧ (∀ q, (q, t) ∉ g) ∧ (∀ q, (q, t) ∉ pr)) →
      HbRel s.mesh mesh g pr → hbMeshLoop s sc final ts mesh g pr = some res →
      HbRel s.mesh res.1 res.2.1 res.2.2 := by
  intro ts
  induction ts with
  | nil =>
    intro mesh g pr res _ _ hI h
    simp only [hbMeshLoop, Option.some.injEq] at h
    subst h; exact hI
  | cons t ts ih =>
    intro mesh g pr res hnd hU hI h
    simp only [hbMeshLoop] at h
    have hnd' := (List.nodup_cons.1 hnd)
    cases hm : s.mesh t with
    | none =>
      simp only [hm] at h
      exact ih mesh g pr res hnd'.2 (fun t' ht' => hU t' (by simp [ht'])) hI h
    | some m =>
      simp only [hm] at h
      cases hr : hbTopic s sc t m (final t) with
      | none => simp [hr] at h
      | some r =>
        simp only [hr] at h
        obtain ⟨f1, f2, f3, f4, f5⟩ := hbTopic_facts hr
        obtain ⟨u1, u2, u3⟩ := hU t (by simp)
        apply ih _ _ _ res hnd'.2 _ _ h
        · intro t' ht'
          have htt : t' ≠ t := by rintro rfl; exact hnd'.1 ht'
          obtain ⟨v1, v2, v3⟩ := hU t' (by simp [ht'])
          refine ⟨by rw [setF_other _ _ _ _ htt]; exact v1, fun q hq => ?_, fun q hq => ?_⟩
          · rcases List.mem_append.1 hq with hq | hq
            · exact v2 q hq
            · exact htt ((mem_map_pair _ _ _ _).1 hq).2
          · rcases List.mem_append.1 hq with hq | hq
            · exact v3 q hq
            · exact htt ((mem_map_pair _ _ _ _).1 hq).2
        · intro t' q
          by_cases htt : t' = t
          · subst htt
            have hmem : memF (setF mesh t' (some r.mesh)) t' q ↔ q ∈ r.mesh := by
              simp [memF, setF_same]
            have hbase : memF s.mesh t' q ↔ q ∈ m := by simp [memF, hm]
            have hg : (q, t') ∈ g ++ r.graft.map (fun p => (p, t')) ↔ q ∈ r.graft := by
              simp only [List.mem_append, mem_map_pair, and_true]
              exact ⟨fun h' => h'.resolve_left (u2 q), Or.inr⟩
            have hp : (q, t') ∈ pr ++ r.prune.map (fun p => (p, t')) ↔ q ∈ r.prune := by
              simp only [List.mem_append, mem_map_pair, and_true]
              exact ⟨fun h' => h'.resolve_left (u3 q), Or.inr⟩
            rw [hmem, hbase, hg, hp]
            exact ⟨f1 q, f2 q, f3 q, f4 q, f5 q⟩
          · have hmem : memF (setF mesh t (some r.mesh)) t' q ↔ memF mesh t' q := by
              simp [memF, setF_other _ _ _ _ htt]
            have hg : (q, t') ∈ g ++ r.graft.map (fun p => (p, t)) ↔ (q, t') ∈ g := by
              simp only [List.mem_append, mem_map_pair]
              exact ⟨fun h' => h'.resolve_right (fun h'' => htt h''.2), Or.inl⟩
            have hp : (q, t') ∈ pr ++ r.prune.map (fun p => (p, t)) ↔ (q, t') ∈ pr := by
              simp only [List.mem_append, mem_map_pair]
              exact ⟨fun h' => h'.resolve_right (fun h'' => htt h''.2), Or.inl⟩
            rw [hmem, hg, hp]
            exact hI t' q

/-! ## `send_graft_prune` as two batches -/

def callsG (tg : List (Nat × Nat)) (s : State) (L : List Nat) : List Notif :=
  L.flatMap (fun p => if (topicsOf tg p).isEmpty then [] else peerAdded s p (topicsOf tg p))

def callsP (tg : List (Nat × Nat)) (s : State) (L : List (Nat × Nat)) : List Notif :=
  L.flatMap (fun e => if (topicsOf tg e.1).isEmpty then peerRemoved s e.1 e.2 else [])

theorem callsG_core {s s' : State} (hp : s'.peers = s.peers) (hm : s'.mesh = s.mesh) (tg : List (Nat × Nat)) (L : List Nat) :
    callsG tg s' L = callsG tg s L := by
  unfold callsG
  have : (fun p => if (topicsOf tg p).isEmpty then [] else peerAdded s' p (topicsOf tg p))
      = (fun p => if (topicsOf tg p).isEmpty then [] else peerAdded s p (topicsOf tg p)) :=
    funext (fun p => by rw [peerAdded_core hp hm])
  rw [this]

theorem callsP_core {s s' : State} (hp : s'.peers = s.peers) (hm : s'.mesh = s.mesh) (tg : List (Nat × Nat))
    (L : List (Nat × Nat)) : callsP tg s' L = callsP tg s L := by
  unfold callsP
  have : (fun e : Nat × Nat => if (topicsOf tg e.1).isEmpty then peerRemoved s' e.1 e.2 else [])
      = (fun e : Nat × Nat => if (topicsOf tg e.1).isEmpty then peerRemoved s e.1 e.2 else []) :=
    funext (fun e => by rw [peerRemoved_core hp hm])
  rw [this]

theorem sendGrafts_desc (tg : List (Nat × Nat)) : ∀ (L : List Nat) (s : State) (ns : List Notif),
    (sendGrafts fixed tg L s ns).1.peers = s.peers ∧ (sendGrafts fixed tg L s ns).1.mesh = s.mesh
    ∧ (sendGrafts fixed tg L s ns).1.belief = applyNotifs s.belief (callsG tg s L) := by
  intro L
  induction L with
  | nil => intro s ns; exact ⟨rfl, rfl, rfl⟩
  | cons p ps ih =>
    intro s ns
    simp only [sendGrafts]
    split
    · rename_i hemp
      obtain ⟨i1, i2, i3⟩ := ih s ns
      refine ⟨i1, i2, ?_⟩
      rw [i3]
      simp only [callsG, List.flatMap_cons, hemp, ↓reduceIte, List.nil_append]
    · rename_i hemp
      have hgc : graftCalls fixed s p (topicsOf tg p) = peerAdded s p (topicsOf tg p) := by
        simp [graftCalls, fixed]
      rw [hgc]
      obtain ⟨i1, i2, i3⟩ := ih (notify s (peerAdded s p (topicsOf tg p))) (ns ++ peerAdded s p (topicsOf tg p))
      refine ⟨i1, i2, ?_⟩
      rw [i3, callsG_core (s := s) rfl rfl]
      have : callsG tg s (p :: ps) = peerAdded s p (topicsOf tg p) ++ callsG tg s ps := by
        simp only [callsG, List.flatMap_cons, hemp, Bool.false_eq_true, ↓reduceIte]
      rw [this, applyNotifs_append]
      rfl

theorem sendPrunes_desc (tg : List (Nat × Nat)) : ∀ (L : List (Nat × Nat)) (s : State) (ns : List Notif),
    (sendPrunes tg L s ns).1.peers = s.peers ∧ (sendPrunes tg L s ns).1.mesh = s.mesh
    ∧ (sendPrunes tg L s ns).1.belief = applyNotifs s.belief (callsP tg s L) := by
  intro L
  induction L with
  | nil => intro s ns; exact ⟨rfl, rfl, rfl⟩
  | cons e es ih =>
    intro s ns
    obtain ⟨p, t⟩ := e
    simp only [sendPrunes]
    split
    · rename_i hemp
      obtain ⟨i1, i2, i3⟩ := ih (notify s (peerRemoved s p t)) (ns ++ peerRemoved s p t)
      refine ⟨i1, i2, ?_⟩
      rw [i3, callsP_core (s := s) rfl rfl]
      have : callsP tg s ((p, t) :: es) = peerRemoved s p t ++ callsP tg s es := by
        simp only [callsP, List.flatMap_cons, hemp, ↓reduceIte]
      rw [this, applyNotifs_append]
      rfl
    · rename_i hemp
      obtain ⟨i1, i2, i3⟩ := ih s ns
      refine ⟨i1, i2, ?_⟩
      rw [i3]
      simp only [callsP, List.flatMap_cons, hemp, Bool.false_eq_true, ↓reduceIte, List.nil_append]

theorem pruneBackoffs_fields (now secs : Nat) : ∀ (l : List (Nat × Nat)) (s : State),
    (pruneBackoffs now secs l s).peers = s.peers ∧ (pruneBackoffs now secs l s).mesh = s.mesh
    ∧ (pruneBackoffs now secs l s).belief = s.belief := by
  intro l
  induction l with
  | nil => intro s; exact ⟨rfl, rfl, rfl⟩
  | cons e es ih =>
    intro s
    obtain ⟨p, t⟩ := e
    simp only [pruneBackoffs]
    obtain ⟨i1, i2, i3⟩ := ih (updateBackoff s now t p secs)
    exact ⟨i1, i2, i3⟩

theorem mem_topicsOf (l : List (Nat × Nat)) (p t : Nat) : t ∈ topicsOf l p ↔ (p, t) ∈ l := by
  simp only [topicsOf, List.mem_map, List.mem_filter, beq_iff_eq]
  constructor
  · rintro ⟨⟨a, b⟩, ⟨h1, h2⟩, h3⟩
    simp only at h2 h3
    subst h2; subst h3; exact h1
  · intro h; exact ⟨(p, t), ⟨h, rfl⟩, rfl⟩

theorem callsG_heads (tg : List (Nat × Nat)) (s : State) (L : List Nat) :
    ∀ n ∈ callsG tg s L, n.2.2 = true ∧ headOf s n.1 = some n.2.1 ∧
      n.1 ∈ L ∧ ¬ (topicsOf tg n.1).isEmpty = true ∧ n ∈ peerAdded s n.1 (topicsOf tg n.1) := by
  intro n hn
  obtain ⟨p, hp, hq⟩ := List.mem_flatMap.1 hn
  split at hq
  · simp at hq
  · rename_i hemp
    obtain ⟨h1, h2, h3⟩ := peerAdded_heads s p _ n hq
    obtain ⟨n1, n2, n3⟩ := n
    simp only at h1 h2 h3 ⊢
    subst h1
    exact ⟨h3, h2, hp, hemp, hq⟩

theorem callsP_heads (tg : List (Nat × Nat)) (s : State) (L : List (Nat × Nat)) :
    ∀ n ∈ callsP tg s L, n.2.2 = false ∧ headOf s n.1 = some n.2.1 ∧
      (topicsOf tg n.1).isEmpty = true ∧ ∃ t, (n.1, t) ∈ L ∧ n ∈ peerRemoved s n.1 t := by
  intro n hn
  obtain ⟨e, he, hq⟩ := List.mem_flatMap.1 hn
  obtain ⟨p, t⟩ := e
  split at hq
  · rename_i hemp
    obtain ⟨h1, h2, h3⟩ := peerRemoved_heads s p t n hq
    obtain ⟨n1, n2, n3⟩ := n
    simp only at h1 h2 h3 hemp ⊢
    subst h1
    exact ⟨h3, h2, hemp, t, he, hq⟩
  · simp at hq

end C29
