import Libp2pModel.Model.C47_handler
/-!
# C47 — the repaired handler keeps the contract `OpOk`
-/
namespace C47h

/-- the behaviour's record after it has processed `es`, if every admission test there fails
(the worst case for "is recorded active") -/
def endA : Bool → List Up → Bool
  | a, [] => a
  | a, .recv _ :: es => endA a es
  | _, .tmo :: es => endA false es
  | _, .acc :: es => endA true es

/-- every `recv true` / `acc` in `es` finds the connection recorded active (worst case) -/
def good : Bool → List Up → Bool
  | _, [] => true
  | a, .recv r :: es => (!r || a) && good a es
  | _, .tmo :: es => good false es
  | a, .acc :: es => a && good true es

def noTmo : List Up → Bool
  | [] => true
  | .tmo :: _ => false
  | _ :: es => noTmo es

/-- no `tmo` behind a `recv` -/
def ntar : List Up → Bool
  | [] => true
  | .recv _ :: es => noTmo es
  | _ :: es => ntar es

def countRecv : List Up → Nat
  | [] => 0
  | .recv _ :: es => countRecv es + 1
  | _ :: es => countRecv es

theorem endA_mono (es : List Up) : ∀ a, endA a es = true → endA true es = true := by
  induction es with
  | nil => intro a _; rfl
  | cons e es ih =>
    intro a h
    cases e with
    | recv r => exact ih a h
    | tmo => exact h
    | acc => exact h

theorem good_mono (es : List Up) : ∀ a, good a es = true → good true es = true := by
  induction es with
  | nil => intro a _; rfl
  | cons e es ih =>
    intro a h
    cases e with
    | recv r => simp only [good, Bool.and_eq_true] at h ⊢; exact ⟨by simp, ih _ h.2⟩
    | tmo => exact h
    | acc => simp only [good, Bool.and_eq_true] at h ⊢; simp [h.2]

theorem endA_true_of_noTmo (es : List Up) (h : noTmo es = true) : endA true es = true := by
  induction es with
  | nil => rfl
  | cons e es ih => cases e <;> simp_all [endA, noTmo]

theorem endA_snoc (es : List Up) (e : Up) : ∀ a, endA a (es ++ [e]) =
    match e with | .recv _ => endA a es | .tmo => false | .acc => true := by
  induction es with
  | nil => intro a; cases e <;> rfl
  | cons x xs ih => intro a; cases x <;> simp [endA, ih]

theorem good_snoc (es : List Up) (e : Up) : ∀ a, good a (es ++ [e]) =
    (good a es && match e with | .recv r => (!r || endA a es) | .tmo => true | .acc => endA a es) := by
  induction es with
  | nil => intro a; cases e <;> simp [good, endA]
  | cons x xs ih => intro a; cases x <;> simp [good, endA, ih, Bool.and_assoc]

theorem noTmo_snoc (es : List Up) (e : Up) : noTmo (es ++ [e]) = (noTmo es && e != .tmo) := by
  induction es with
  | nil => cases e <;> rfl
  | cons x xs ih => cases x <;> simp [noTmo, ih]

theorem ntar_snoc_not_tmo (es : List Up) (e : Up) (he : e ≠ .tmo) : ntar (es ++ [e]) = ntar es := by
  induction es with
  | nil => cases e <;> simp_all [ntar, noTmo]
  | cons x xs ih =>
    cases x with
    | recv r => simp only [List.cons_append, ntar, noTmo_snoc]; cases e <;> simp_all
    | tmo => simpa [ntar] using ih
    | acc => simpa [ntar] using ih

theorem ntar_snoc_tmo (es : List Up) (h0 : countRecv es = 0) (h : ntar es = true) : ntar (es ++ [.tmo]) = true := by
  induction es with
  | nil => rfl
  | cons x xs ih =>
    cases x with
    | recv r => simp [countRecv] at h0
    | tmo => simp only [List.cons_append, ntar]; exact ih (by simpa [countRecv] using h0) (by simpa [ntar] using h)
    | acc => simp only [List.cons_append, ntar]; exact ih (by simpa [countRecv] using h0) (by simpa [ntar] using h)

theorem countRecv_snoc (es : List Up) (e : Up) :
    countRecv (es ++ [e]) = countRecv es + (match e with | .recv _ => 1 | _ => 0) := by
  induction es with
  | nil => cases e <;> rfl
  | cons x xs ih => cases x <;> simp [countRecv, ih] <;> omega

/-- invariant of the composed system with the repaired handler -/
structure Inv (s : Sys) : Prop where
  good : good s.bActive s.up = true
  act : s.hActive = true → endA s.bActive s.up = true
  fut : s.fut = some true → endA s.bActive s.up = true
  down : true ∈ s.down → endA s.bActive s.up = true
  pend : s.pending = countRecv s.up + s.down.length
  ntar : ntar s.up = true

theorem Inv.init : Inv Sys.init :=
  ⟨rfl, by simp [Sys.init], by simp [Sys.init], by simp [Sys.init], rfl, rfl⟩

theorem step_inv (s s' : Sys) (a : Act) (h : Inv s) (hs : step true s a = some s') : Inv s' := by
  cases a with
  | request =>
    simp only [step, Option.some.injEq] at hs; subst hs
    refine ⟨?_, ?_, ?_, ?_, ?_, ?_⟩
    · simp only [good_snoc, h.good, Bool.true_and]
      cases hA : s.hActive with
      | false => rfl
      | true => simpa using h.act hA
    · simpa [endA_snoc] using h.act
    · simpa [endA_snoc] using h.fut
    · simpa [endA_snoc] using h.down
    · simp only [countRecv_snoc, h.pend]; omega
    · rw [ntar_snoc_not_tmo _ _ (by simp)]; exact h.ntar
  | expire =>
    simp only [step, Bool.not_true, Bool.false_or, Bool.and_eq_true, beq_iff_eq, Option.isNone_iff_eq_none] at hs
    split at hs
    · rename_i hc
      simp only [Option.some.injEq] at hs; subst hs
      obtain ⟨_, hp, hf⟩ := hc
      have hd : s.down = [] := by
        have := h.pend; rw [hp] at this
        exact List.length_eq_zero_iff.1 (by omega)
      have hr : countRecv s.up = 0 := by have := h.pend; rw [hp] at this; omega
      refine ⟨?_, by simp, by simp [hf], by simp [hd], ?_, ntar_snoc_tmo _ hr h.ntar⟩
      · simp [good_snoc, h.good]
      · simp only [countRecv_snoc, h.pend]; omega
    · simp at hs
  | command =>
    simp only [step] at hs
    split at hs
    · simp at hs
    · rename_i d ds hd
      simp only [Option.some.injEq] at hs; subst hs
      refine ⟨h.good, h.act, ?_, ?_, ?_, h.ntar⟩
      · intro hf
        simp only [Option.some.injEq] at hf; subst hf
        exact h.down (by simp [hd])
      · intro hm; exact h.down (by simp [hd, hm])
      · have := h.pend; simp only [hd, List.length_cons] at this ⊢; omega
  | complete ok =>
    simp only [step] at hs
    split at hs
    · simp at hs
    · rename_i hf
      have he := h.fut hf
      split at hs
      · simp only [Option.some.injEq] at hs; subst hs
        refine ⟨?_, by simp [endA_snoc], by simp, ?_, ?_, ?_⟩
        · simp [good_snoc, h.good, he]
        · intro _; simp [endA_snoc]
        · simp only [countRecv_snoc, h.pend]; omega
        · rw [ntar_snoc_not_tmo _ _ (by simp)]; exact h.ntar
      · simp only [Option.some.injEq] at hs; subst hs
        exact ⟨h.good, h.act, by simp, h.down, h.pend, h.ntar⟩
    · simp only [Option.some.injEq] at hs; subst hs
      exact ⟨h.good, h.act, by simp, h.down, h.pend, h.ntar⟩
  | process adm =>
    simp only [step] at hs
    split at hs
    · simp at hs
    · -- recv
      rename_i r es hu
      simp only [Option.some.injEq] at hs; subst hs
      have hg := h.good; rw [hu] at hg
      simp only [good, Bool.and_eq_true] at hg
      have hnt : noTmo es = true := by have := h.ntar; rw [hu] at this; simpa [ntar] using this
      have lift : endA s.bActive (.recv r :: es) = true → endA (s.bActive || adm) es = true := by
        intro he
        simp only [endA] at he
        cases hb : s.bActive with
        | true => simpa [hb] using he
        | false =>
          cases adm with
          | true => simpa using endA_true_of_noTmo es hnt
          | false => simpa [hb] using he
      refine ⟨?_, ?_, ?_, ?_, ?_, ?_⟩
      · cases hb : s.bActive with
        | true => simpa [hb] using hg.2
        | false =>
          cases adm with
          | true => simpa using good_mono es _ hg.2
          | false => simpa [hb] using hg.2
      · intro ha; exact lift (by have := h.act ha; rwa [hu] at this)
      · intro hf; exact lift (by have := h.fut hf; rwa [hu] at this)
      · intro hm
        simp only [List.mem_append, List.mem_singleton] at hm
        rcases hm with hm | hm
        · exact lift (by have := h.down hm; rwa [hu] at this)
        · subst hm; simpa using endA_true_of_noTmo es hnt
      · have := h.pend; simp only [hu, countRecv, List.length_append, List.length_singleton] at this ⊢; omega
      · have := h.ntar; rw [hu] at this
        simp only [ntar] at this
        clear hg lift hu
        induction es with
        | nil => rfl
        | cons x xs ih => cases x <;> simp_all [ntar, noTmo]
    · -- tmo
      rename_i es hu
      simp only [Option.some.injEq] at hs; subst hs
      have hg := h.good; rw [hu] at hg
      refine ⟨by simpa [good] using hg, ?_, ?_, ?_, ?_, ?_⟩
      · intro ha; have := h.act ha; rw [hu] at this; simpa [endA] using this
      · intro hf; have := h.fut hf; rw [hu] at this; simpa [endA] using this
      · intro hm; have := h.down hm; rw [hu] at this; simpa [endA] using this
      · have := h.pend; simpa [hu, countRecv] using this
      · have := h.ntar; rw [hu] at this; simpa [ntar] using this
    · -- acc
      rename_i es hu
      simp only [Option.some.injEq] at hs; subst hs
      have hg := h.good; rw [hu] at hg
      simp only [good, Bool.and_eq_true] at hg
      refine ⟨hg.2, ?_, ?_, ?_, ?_, ?_⟩
      · intro ha; have := h.act ha; rw [hu] at this; simpa [endA] using this
      · intro hf; have := h.fut hf; rw [hu] at this; simpa [endA] using this
      · intro hm; have := h.down hm; rw [hu] at this; simpa [endA] using this
      · have := h.pend; simpa [hu, countRecv] using this
      · have := h.ntar; rw [hu] at this; simpa [ntar] using this

theorem headOk_of_inv (s : Sys) (h : Inv s) : headOk s = true := by
  have hg := h.good
  unfold headOk
  split
  · rename_i es hu; rw [hu] at hg; simp only [good, Bool.and_eq_true] at hg; simpa using hg.1
  · rename_i es hu; rw [hu] at hg; simp only [good, Bool.and_eq_true] at hg; exact hg.1
  · rfl

end C47h
