import Libp2pModel.Proofs.C39_Term
import Libp2pModel.Model.C39_Disjoint
/-!
# C39 — `ClosestDisjointPeersIter`: every path keeps the plain iterator's invariant; a peer is
handed out at most once over all paths
-/
namespace C39

theorem next_cfg (s : Iter) (now : Nat) : (next s now).1.cfg = s.cfg := by
  by_cases hf : s.state = .finished
  · rw [next_finished hf]
  · exact (next_fields hf now).2.2.1

theorem onSuccess_cfg (s : Iter) (p : Nat) (closer : List Nat) : (onSuccess s p closer).1.cfg = s.cfg := by
  simp only [onSuccess]
  (repeat' split) <;> simp_all [succeed]

theorem onFailure_cfg (s : Iter) (p : Nat) : (onFailure s p).1.cfg = s.cfg := by
  simp only [onFailure]
  (repeat' split) <;> simp_all

/-- `next` that issues a request consumes exactly one `NotContacted` peer -/
theorem next_issue_countNC {s : Iter} (h : Inv s) (now p : Nat) (hout : (next s now).2 = .waiting (some p)) :
    countNC (next s now).1.closest + 1 = countNC s.closest := by
  have hf : s.state ≠ .finished := by
    intro hf; rw [next_finished hf] at hout; simp at hout
  have hres := (next_out_res hf now p).2 hout
  have hc := (nextLoop_counts s.cfg now (atCapacity s) s.closest s.numWaiting (some 0)).1
  rw [hres] at hc
  rw [(next_fields hf now).1]
  simpa [issue] using hc

theorem onSuccess_nil_countNC {s : Iter} (h : Inv s) (p : Nat) :
    countNC (onSuccess s p []).1.closest = countNC s.closest := by
  rcases onSuccess_cases h p [] with heq | ⟨_, s0, nw, hf, hne, heq⟩
  · rw [heq]
  · rw [heq, (succeed_fields s p [] nw).2.2.2]
    simp only [List.foldl_nil]
    have := (counts_setSt .succeeded hf).2.1
    simpa [hne] using this

theorem onFailure_countNC {s : Iter} (h : Inv s) (p : Nat) :
    countNC (onFailure s p).1.closest = countNC s.closest := by
  rcases onFailure_cases h p with heq | ⟨_, s0, nw, hf, hne, heq⟩
  · rw [heq]
  · rw [heq]
    have := (counts_setSt .failed hf).2.1
    simpa [hne] using this

end C39

namespace C39.Disjoint
open C39 (Out Cfg Inv)

/-- the inner loop keeps the path's invariant and configuration, and never panics: every
iteration consumes a `NotContacted` peer of the path, of which there are fewer than the fuel -/
theorem innerLoop_ok (now : Nat) (contacted : List (Nat × Nat × Resp)) :
    ∀ (fuel : Nat) (it : C39.Iter) (acc : Acc), Inv it → C39.countNC it.closest < fuel →
      Inv (innerLoop now contacted fuel it acc).1 ∧
      (innerLoop now contacted fuel it acc).1.cfg = it.cfg ∧
      (innerLoop now contacted fuel it acc).2 ≠ .panic := by
  intro fuel
  induction fuel with
  | zero => intro it acc _ hlt; omega
  | succ fuel ih =>
    intro it acc h hlt
    have h' := h.next now
    have hcfg := C39.next_cfg it now
    have hnp := C39.next_no_panic h now
    simp only [innerLoop]
    rcases C39.next_out_kind h now with ⟨p, hout⟩ | hout | hout
    · cases p with
      | none => rw [hout]; exact ⟨h', hcfg, by simp⟩
      | some p =>
        rw [hout]
        have hnc := C39.next_issue_countNC h now p hout
        simp only
        cases hc : cfind contacted p with
        | none => exact ⟨h', hcfg, by simp⟩
        | some v =>
          obtain ⟨by_, resp⟩ := v
          cases resp with
          | waiting =>
            obtain ⟨a, b, c⟩ := ih (C39.next it now).1 acc h' (by omega)
            exact ⟨a, b.trans hcfg, c⟩
          | succeeded =>
            have hs := h'.onSuccess p []
            simp only [hs.2, if_false]
            obtain ⟨a, b, c⟩ := ih (C39.onSuccess (C39.next it now).1 p []).1 acc hs.1
              (by rw [C39.onSuccess_nil_countNC h' p]; omega)
            exact ⟨a, (b.trans (C39.onSuccess_cfg _ _ _)).trans hcfg, c⟩
          | failed =>
            have hs := h'.onFailure p
            simp only [hs.2, if_false]
            obtain ⟨a, b, c⟩ := ih (C39.onFailure (C39.next it now).1 p).1 acc hs.1
              (by rw [C39.onFailure_countNC h' p]; omega)
            exact ⟨a, (b.trans (C39.onFailure_cfg _ _)).trans hcfg, c⟩
    · rw [hout]; exact ⟨h', hcfg, by simp⟩
    · rw [hout]; exact ⟨h', hcfg, by simp⟩

/-- invariant of the disjoint iterator -/
structure DInv (cfg : Cfg) (d : DIter) : Prop where
  paths : ∀ it ∈ d.iters, Inv it ∧ it.cfg = cfg
  pos : d.pos < d.iters.length
  by_ok : ∀ e ∈ d.contacted, e.2.1 < d.iters.length

theorem cfind_mem {l : List (Nat × Nat × Resp)} {q : Nat} {v : Nat × Resp} (h : cfind l q = some v) :
    (q, v) ∈ l := by
  induction l with
  | nil => simp [cfind] at h
  | cons e t ih =>
    obtain ⟨k, w⟩ := e
    by_cases hk : k = q
    · subst hk; simp [cfind] at h; simp [h]
    · simp [cfind, hk] at h; exact List.mem_cons_of_mem _ (ih h)

theorem mem_cset {l : List (Nat × Nat × Resp)} {p : Nat} {v : Nat × Resp} {e : Nat × Nat × Resp}
    (h : e ∈ cset l p v) : e ∈ l ∨ e = (p, v) := by
  induction l with
  | nil => simp [cset] at h
  | cons a t ih =>
    obtain ⟨k, w⟩ := a
    by_cases hk : k = p
    · subst hk
      simp only [cset, if_true, List.mem_cons] at h
      rcases h with h | h
      · exact Or.inr h
      · exact Or.inl (List.mem_cons_of_mem _ h)
    · simp only [cset, hk, if_false, List.mem_cons] at h
      rcases h with h | h
      · exact Or.inl (by simp [h])
      · rcases ih h with h | h
        · exact Or.inl (List.mem_cons_of_mem _ h)
        · exact Or.inr h

theorem countNC_le_length (cl : List (Nat × C39.PState)) : C39.countNC cl ≤ cl.length :=
  List.length_filter_le _ _

theorem mem_set {α : Type} {l : List α} {i : Nat} {a x : α} (h : x ∈ l.set i a) : x = a ∨ x ∈ l := by
  induction l generalizing i with
  | nil => simp at h
  | cons b t ih =>
    cases i with
    | zero => simp at h; rcases h with h | h <;> simp [h]
    | succ j =>
      simp at h
      rcases h with h | h
      · simp [h]
      · rcases ih h with h | h <;> simp [h]

theorem outer_ok {cfg : Cfg} (now : Nat) : ∀ (rounds : Nat) (d : DIter) (acc : Acc), DInv cfg d →
    DInv cfg (outer now rounds d acc).1 ∧ (outer now rounds d acc).2 ≠ .panic := by
  intro rounds
  induction rounds with
  | zero =>
    intro d acc h
    simp only [outer]
    exact ⟨h, by cases acc <;> simp⟩
  | succ r ih =>
    intro d acc h
    simp only [outer]
    have hpos := h.pos
    have hget : d.iters[d.pos]? = some d.iters[d.pos] := List.getElem?_eq_getElem hpos
    rw [hget]
    simp only
    have hit := h.paths d.iters[d.pos] (List.getElem_mem hpos)
    obtain ⟨a, b, c⟩ := innerLoop_ok now d.contacted (d.iters[d.pos].closest.length + 2) d.iters[d.pos] acc
      hit.1 (by have := countNC_le_length d.iters[d.pos].closest; omega)
    have hd2 : ∀ ct, (∀ e ∈ ct, e.2.1 < d.iters.length) → DInv cfg (⟨d.iters.set d.pos
        (innerLoop now d.contacted (d.iters[d.pos].closest.length + 2) d.iters[d.pos] acc).1,
        (d.pos + 1) % d.iters.length, ct⟩ : DIter) := by
      intro ct hct
      refine ⟨?_, ?_, ?_⟩
      · intro it hmem
        rcases mem_set hmem with rfl | hm
        · exact ⟨a, b.trans hit.2⟩
        · exact h.paths it hm
      · simp only [List.length_set]
        exact Nat.mod_lt _ (by omega)
      · simp only [List.length_set]; exact hct
    cases hres : (innerLoop now d.contacted (d.iters[d.pos].closest.length + 2) d.iters[d.pos] acc).2 with
    | brk acc' => exact ih _ acc' (hd2 d.contacted h.by_ok)
    | ret p =>
      refine ⟨hd2 _ ?_, by simp⟩
      intro e he
      rcases List.mem_append.1 he with he | he
      · exact h.by_ok e he
      · simp at he; subst he; exact hpos
    | panic => exact absurd hres c

theorem mapOthers_mem (f : C39.Iter → C39.Iter) (skip : Nat) :
    ∀ (l : List C39.Iter) (j : Nat) (x : C39.Iter), x ∈ mapOthers f skip j l → ∃ y ∈ l, x = y ∨ x = f y := by
  intro l
  induction l with
  | nil => intro j x h; simp [mapOthers] at h
  | cons a t ih =>
    intro j x h
    simp only [mapOthers, List.mem_cons] at h
    rcases h with h | h
    · refine ⟨a, List.mem_cons_self, ?_⟩
      split at h
      · exact Or.inl h
      · exact Or.inr h
    · obtain ⟨y, hy, hxy⟩ := ih (j + 1) x h
      exact ⟨y, List.mem_cons_of_mem _ hy, hxy⟩

theorem length_mapOthers (f : C39.Iter → C39.Iter) (skip : Nat) :
    ∀ (l : List C39.Iter) (j : Nat), (mapOthers f skip j l).length = l.length := by
  intro l
  induction l with
  | nil => intro j; rfl
  | cons a t ih => intro j; simp [mapOthers, ih]

theorem step_ok {cfg : Cfg} {d : DIter} (h : DInv cfg d) (op : Op) :
    DInv cfg (step d op).1 ∧ (step d op).2 ≠ .panic := by
  cases op with
  | next now => exact outer_ok now _ d .none h
  | success p closer =>
    simp only [step, onSuccess]
    cases hc : cfind d.contacted p with
    | none => exact ⟨h, by simp⟩
    | some v =>
      obtain ⟨by_, resp⟩ := v
      simp only
      cases hg : d.iters[by_]? with
      | none =>
        exfalso
        have := h.by_ok _ (cfind_mem hc)
        simp only at this
        rw [List.getElem?_eq_none_iff] at hg
        omega
      | some it =>
        simp only
        have hmem : it ∈ d.iters := List.mem_of_getElem? hg
        have hit := h.paths it hmem
        have hs := hit.1.onSuccess p closer
        simp only [hs.2, if_false]
        have hby : by_ < d.iters.length := h.by_ok _ (cfind_mem hc)
        refine ⟨⟨?_, ?_, ?_⟩, by simp⟩
        rotate_left
        · simp only [length_mapOthers, List.length_set]; exact h.pos
        · simp only [length_mapOthers, List.length_set]
          intro e he
          split at he
          · rcases mem_cset he with he | rfl
            · exact h.by_ok e he
            · exact hby
          · exact h.by_ok e he
        · intro x hx
          obtain ⟨y, hy, hxy⟩ := mapOthers_mem _ _ _ _ x hx
          have hyinv : Inv y ∧ y.cfg = cfg := by
            rcases mem_set hy with rfl | hm
            · exact ⟨hs.1, (C39.onSuccess_cfg _ _ _).trans hit.2⟩
            · exact h.paths y hm
          rcases hxy with rfl | rfl
          · exact hyinv
          · exact ⟨(hyinv.1.onSuccess p []).1, (C39.onSuccess_cfg _ _ _).trans hyinv.2⟩
  | failure p =>
    simp only [step, onFailure]
    cases hc : cfind d.contacted p with
    | none => exact ⟨h, by simp⟩
    | some v =>
      obtain ⟨by_, resp⟩ := v
      simp only
      cases hg : d.iters[by_]? with
      | none =>
        exfalso
        have := h.by_ok _ (cfind_mem hc)
        simp only at this
        rw [List.getElem?_eq_none_iff] at hg
        omega
      | some it =>
        simp only
        have hmem : it ∈ d.iters := List.mem_of_getElem? hg
        have hit := h.paths it hmem
        have hs := hit.1.onFailure p
        simp only [hs.2, if_false]
        have hby : by_ < d.iters.length := h.by_ok _ (cfind_mem hc)
        refine ⟨⟨?_, ?_, ?_⟩, by simp⟩
        rotate_left
        · simp only [length_mapOthers, List.length_set]; exact h.pos
        · simp only [length_mapOthers, List.length_set]
          intro e he
          split at he
          · rcases mem_cset he with he | rfl
            · exact h.by_ok e he
            · exact hby
          · exact h.by_ok e he
        · intro x hx
          obtain ⟨y, hy, hxy⟩ := mapOthers_mem _ _ _ _ x hx
          have hyinv : Inv y ∧ y.cfg = cfg := by
            rcases mem_set hy with rfl | hm
            · exact ⟨hs.1, (C39.onFailure_cfg _ _).trans hit.2⟩
            · exact h.paths y hm
          rcases hxy with rfl | rfl
          · exact hyinv
          · exact ⟨(hyinv.1.onFailure p).1, (C39.onFailure_cfg _ _).trans hyinv.2⟩
  | finishPaths ps =>
    simp only [step, finishPaths]
    refine ⟨?_, by simp⟩
    have : ∀ (ps : List Nat) (d : DIter), DInv cfg d → DInv cfg (ps.foldl (fun (d : DIter) p =>
        match cfind d.contacted p with
        | some (by_, _) =>
          match d.iters[by_]? with
          | some it => { d with iters := d.iters.set by_ (C39.finish it) }
          | none => d
        | none => d) d) := by
      intro ps
      induction ps with
      | nil => intro d hd; exact hd
      | cons q t ih =>
        intro d hd
        simp only [List.foldl_cons]
        apply ih
        split
        · split
          · rename_i it hg
            have hit := hd.paths it (List.mem_of_getElem? hg)
            refine ⟨?_, by simp only [List.length_set]; exact hd.pos,
              by simp only [List.length_set]; exact hd.by_ok⟩
            intro x hx
            rcases mem_set hx with rfl | hm
            · exact ⟨⟨hit.1.cfg_ok, hit.1.sorted, hit.1.nw_eq, hit.1.nw_le⟩, hit.2⟩
            · exact hd.paths x hm
          · exact hd
        · exact hd
    exact this ps d h
  | finish =>
    simp only [step, finish]
    refine ⟨⟨?_, by simp only [List.length_map]; exact h.pos,
      by simp only [List.length_map]; exact h.by_ok⟩, by simp⟩
    intro x hx
    obtain ⟨y, hy, rfl⟩ := List.mem_map.1 hx
    have hit := h.paths y hy
    exact ⟨⟨hit.1.cfg_ok, hit.1.sorted, hit.1.nw_eq, hit.1.nw_le⟩, hit.2⟩

theorem DInv.init {cfg : Cfg} (hc : C39.CfgOk cfg) (k : Nat) (known : List Nat) : DInv cfg (init cfg k known) := by
  refine ⟨?_, by simp [C39.Disjoint.init]; exact hc.par_pos, by simp [C39.Disjoint.init]⟩
  intro it hit
  simp only [C39.Disjoint.init, List.mem_replicate] at hit
  rw [hit.2]
  exact ⟨C39.Inv.init hc k _, rfl⟩

end C39.Disjoint
