import Libp2pModel.Proofs.C55a
/-!
# C55 — helper lemmas II: the shape parser reads back what the builder wrote
-/
namespace C55

theorem readU16_u16be (v : Nat) (rest : Bytes) (h : v < 65536) :
    readU16 (u16be v ++ rest) = some (v, rest) := by
  simp only [u16be, List.cons_append, List.nil_append, readU16]
  congr 2; omega

theorem readU32_u32be (v : Nat) (rest : Bytes) (h : v < 4294967296) :
    readU32 (u32be v ++ rest) = some (v, rest) := by
  simp only [u32be, List.cons_append, List.nil_append, readU32]
  congr 2; omega

/-- valid peer-name label (what `generate_peer_name` produces: 32..63 alphanumerics) -/
def ValidLabel (nm : Bytes) : Prop := nm ≠ [] ∧ nm.length < 64 ∧ ∀ c ∈ nm, isAlnum c = true

/-- `append_qname` of one label -/
def labelQname (nm : Bytes) : Bytes := nm.length :: (nm ++ [0])

theorem alnum_ne_dot (c : Nat) (h : isAlnum c = true) : c ≠ 46 := by
  intro hc; subst hc; simp [isAlnum] at h

theorem splitOn_no_sep (nm : Bytes) (h : ∀ c ∈ nm, c ≠ 46) : splitOn 46 nm = [nm] := by
  induction nm with
  | nil => rfl
  | cons c cs ih =>
    have hc : c ≠ 46 := h c (by simp)
    have := ih (fun x hx => h x (by simp [hx]))
    simp [splitOn, hc, this]

/-- `generate_peer_name` never trips the `assert!`s of `append_qname` -/
theorem appendQname_label (nm : Bytes) (h : ValidLabel nm) : appendQname nm = some (labelQname nm) := by
  obtain ⟨hne, hlen, hal⟩ := h
  unfold appendQname
  rw [splitOn_no_sep nm (fun c hc => alnum_ne_dot c (hal c hc))]
  have : nm.length ≠ 0 := by
    intro h0; exact hne (List.length_eq_zero_iff.1 h0)
  simp [appendLabels, hlen, this, labelQname]

theorem readLabels_zero (rest : Bytes) : readLabels (0 :: rest) = some ([], rest) := by
  rw [readLabels]; simp

theorem readLabels_label (l : Bytes) (rest : Bytes) (hne : l ≠ []) (hlen : l.length < 64)
    (hsafe : ∀ c ∈ l, isSafeChar c = true) :
    readLabels (l.length :: (l ++ rest)) =
      match readLabels rest with
      | some (ls, r) => some (l :: ls, r)
      | none => none := by
  have h0 : l.length ≠ 0 := by
    intro h0; exact hne (List.length_eq_zero_iff.1 h0)
  rw [readLabels]
  have hall : l.all isSafeChar = true := by
    simp [List.all_eq_true]; exact hsafe
  simp only [h0, ↓reduceIte, hlen, List.length_append, Nat.le_add_right, hall, and_self,
    List.take_left', List.drop_left']
  cases readLabels rest with
  | none => rfl
  | some p => obtain ⟨ls, r⟩ := p; rfl

theorem readName_label (nm rest : Bytes) (h : ValidLabel nm) :
    readName (labelQname nm ++ rest) = some ([nm], rest) := by
  obtain ⟨hne, hlen, hal⟩ := h
  unfold readName labelQname
  have hsafe : ∀ c ∈ nm, isSafeChar c = true := by
    intro c hc; simp [isSafeChar, hal c hc]
  have : (nm.length :: (nm ++ [0])) ++ rest = nm.length :: (nm ++ (0 :: rest)) := by simp
  rw [this, readLabels_label nm _ hne hlen hsafe, readLabels_zero]
  simp [wireLen]; omega

theorem readName_service (rest : Bytes) : readName (serviceQname ++ rest) = some (serviceLabels, rest) := by
  unfold readName
  have e : serviceQname ++ rest =
      [95, 112, 50, 112].length :: ([95, 112, 50, 112] ++
        ([95, 117, 100, 112].length :: ([95, 117, 100, 112] ++
          ([108, 111, 99, 97, 108].length :: ([108, 111, 99, 97, 108] ++ (0 :: rest)))))) := by
    simp [serviceQname]
  rw [e, readLabels_label _ _ (by simp) (by simp) (by decide),
    readLabels_label _ _ (by simp) (by simp) (by decide),
    readLabels_label _ _ (by simp) (by simp) (by decide), readLabels_zero]
  simp [wireLen, serviceLabels]

theorem readStrings_one (s : Bytes) (h : s.length < 256) : readStrings (s.length :: s) = some [s] := by
  rw [readStrings]
  simp only [h, Nat.le_refl, and_self, ↓reduceIte, List.drop_length, List.take_length]
  rw [readStrings]

/-- a TXT record of the builder, as the shape parser sees it -/
def txtRecOf (nm : Bytes) (ttl : Nat) (v : Bytes) : TxtRec :=
  ⟨[nm], ttl, (charString v).length :: charString v, [charString v]⟩

theorem readTxtRecord_recordOf (nm : Bytes) (ttl : Nat) (v rest : Bytes) (hnm : ValidLabel nm)
    (httl : ttl < 4294967296) (hfit : fits v = true) :
    readTxtRecord (recordOf (labelQname nm) ttl v ++ rest) = some (txtRecOf nm ttl v, rest) := by
  have hcs : (charString v).length ≤ 255 := by
    simp [fits] at hfit; exact hfit.2
  have e : recordOf (labelQname nm) ttl v ++ rest =
      labelQname nm ++ (u16be 16 ++ (u16be 0x8001 ++ (u32be ttl ++
        (u16be ((charString v).length + 1) ++ (((charString v).length :: charString v) ++ rest))))) := by
    simp [recordOf, u16be]
  unfold readTxtRecord
  rw [e, readName_label nm _ hnm]
  simp only []
  rw [readU16_u16be 16 _ (by omega)]
  simp only []
  rw [readU16_u16be 0x8001 _ (by omega)]
  simp only []
  rw [readU32_u32be ttl _ httl]
  simp only []
  rw [readU16_u16be _ _ (by omega)]
  simp only []
  have htake : List.take ((charString v).length + 1) (((charString v).length :: charString v) ++ rest)
      = (charString v).length :: charString v := by
    exact List.take_left' (by simp)
  have hdrop : List.drop ((charString v).length + 1) (((charString v).length :: charString v) ++ rest)
      = rest := by
    exact List.drop_left' (by simp)
  rw [htake, hdrop, readStrings_one _ (by omega)]
  simp [txtRecOf]

theorem readRecords_flatten (nm : Bytes) (ttl : Nat) (vs : List Bytes) (rest : Bytes) (hnm : ValidLabel nm)
    (httl : ttl < 4294967296) (hfit : ∀ v ∈ vs, fits v = true) :
    readRecords vs.length ((vs.map (recordOf (labelQname nm) ttl)).flatten ++ rest)
      = some (vs.map (txtRecOf nm ttl), rest) := by
  induction vs with
  | nil => simp [readRecords]
  | cons v vs ih =>
    simp only [List.length_cons, List.map_cons, List.flatten_cons, List.append_assoc, readRecords]
    rw [readTxtRecord_recordOf nm ttl v _ hnm httl (hfit v (by simp))]
    simp only []
    rw [ih (fun x hx => hfit x (by simp [hx]))]

theorem readAnswer_built (nm : Bytes) (ttl : Nat) (rest : Bytes) (hnm : ValidLabel nm)
    (httl : ttl < 4294967296) :
    readAnswer (serviceQname ++ u16be 0x000c ++ u16be 0x0001 ++ u32be ttl
        ++ u16be (labelQname nm).length ++ labelQname nm ++ rest)
      = some ((serviceLabels, ttl, [nm]), rest) := by
  have hl : (labelQname nm).length < 65536 := by
    have := hnm.2.1
    simp [labelQname]; omega
  unfold readAnswer
  simp only [List.append_assoc]
  rw [readName_service]
  simp only []
  rw [readU16_u16be 12 _ (by omega)]
  simp only []
  rw [readU16_u16be 1 _ (by omega)]
  simp only []
  rw [readU32_u32be ttl _ httl]
  simp only []
  rw [readU16_u16be _ _ hl]
  simp only [List.take_left', List.drop_left']
  have := readName_label nm [] hnm
  rw [List.append_nil] at this
  rw [this]
  simp

/-- **the shape parser reads back a built packet** -/
theorem parseShape_packet (id : Nat) (nm : Bytes) (ttl : Nat) (vs : List Bytes)
    (hid : id < 65536) (hnm : ValidLabel nm) (httl : ttl < 4294967296)
    (hn : vs.length < 65536) (hfit : ∀ v ∈ vs, fits v = true) :
    parseShape (queryResponsePacket id (labelQname nm) (vs.map (recordOf (labelQname nm) ttl)) ttl)
      = some ⟨id, serviceLabels, ttl, [nm], vs.map (txtRecOf nm ttl)⟩ := by
  unfold parseShape queryResponsePacket
  simp only [List.append_assoc]
  rw [readU16_u16be id _ hid]
  simp only []
  rw [readU16_u16be 0x8400 _ (by omega)]
  simp only []
  rw [readU16_u16be 0 _ (by omega)]
  simp only []
  rw [readU16_u16be 1 _ (by omega)]
  simp only []
  rw [readU16_u16be 0 _ (by omega)]
  simp only []
  rw [readU16_u16be _ _ (by simpa using hn)]
  simp only [and_self, ↓reduceIte]
  have := readAnswer_built nm ttl ((vs.map (recordOf (labelQname nm) ttl)).flatten) hnm httl
  simp only [List.append_assoc] at this
  rw [this]
  simp only [List.length_map]
  have h2 := readRecords_flatten nm ttl vs [] hnm httl hfit
  rw [List.append_nil] at h2
  rw [h2]

end C55
