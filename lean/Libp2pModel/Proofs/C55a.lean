import Libp2pModel.Model.C55
/-!
# C55 — helper lemmas I: character strings, TXT records, the packing loop
-/
namespace C55

/-! ### escape / unescape -/

theorem unescape_cons_ne (c : Nat) (rest : Bytes) (h : c ≠ 92) :
    unescape (c :: rest) = (unescape rest).map (c :: ·) := by
  cases rest <;> simp [unescape, h]

theorem unescape_esc (e : Nat) (rest : Bytes) :
    unescape (92 :: e :: rest) = (unescape rest).map (e :: ·) := by
  simp [unescape]

theorem unescape_escape (v : Bytes) : unescape (escape v) = some v := by
  induction v with
  | nil => simp [escape, unescape]
  | cons c cs ih =>
    by_cases h92 : c = 92
    · subst h92; simp [escape, unescape_esc, ih]
    · by_cases h34 : c = 34
      · subst h34; simp [escape, unescape_esc, ih]
      · simp only [escape, h92, h34, ↓reduceIte]
        rw [unescape_cons_ne c _ h92, ih]; rfl

theorem escape_eq_of_no_backslash (v : Bytes) (h : 92 ∉ escape v) : escape v = v := by
  induction v with
  | nil => simp [escape]
  | cons c cs ih =>
    by_cases h92 : c = 92
    · subst h92; simp [escape] at h
    · by_cases h34 : c = 34
      · subst h34; simp [escape] at h
      · simp [escape, h92, h34] at h ⊢
        exact ih h.2

theorem length_le_escape (v : Bytes) : v.length ≤ (escape v).length := by
  induction v with
  | nil => simp [escape]
  | cons c cs ih =>
    by_cases h92 : c = 92
    · subst h92; simp [escape]; omega
    · by_cases h34 : c = 34
      · subst h34; simp [escape]; omega
      · simp [escape, h92, h34]; omega

theorem length_le_charString (v : Bytes) : v.length ≤ (charString v).length := by
  unfold charString
  split
  · have := length_le_escape v
    simp; omega
  · exact Nat.le_refl _

/-- `decode_character_string` undoes the quoting of `append_character_string`
(for values that do not themselves start with a quote). -/
theorem decode_charString (v : Bytes) (hne : v ≠ []) (hq : v.head? ≠ some 34) :
    decodeCharacterString (charString v) = .ok v := by
  unfold charString
  split
  · -- quoted
    have hlen : (34 :: (escape v ++ [34])).length = (escape v).length + 2 := by simp
    have hinner : (List.drop 1 (34 :: (escape v ++ [34]))).take ((34 :: (escape v ++ [34])).length - 2)
        = escape v := by
      simp
    unfold decodeCharacterString
    simp only [List.isEmpty_cons, Bool.false_eq_true, ↓reduceIte, List.head?_cons, hinner]
    have hlast : (34 :: (escape v ++ [34])).getLast? = some 34 := by
      have : 34 :: (escape v ++ [34]) = (34 :: escape v) ++ [34] := rfl
      rw [this]; exact List.getLast?_concat
    have h1 : ¬ ((34 :: (escape v ++ [34])).length = 1 ∨ (34 :: (escape v ++ [34])).getLast? ≠ some 34) := by
      rw [hlast]; simp
    have h2 : ¬ (1 > (34 :: (escape v ++ [34])).length - 1) := by simp
    simp only [h1, h2, ↓reduceIte]
    rw [unescape_escape]
    split
    · rfl
    · rename_i hc
      have : 92 ∉ escape v := by simpa using hc
      rw [escape_eq_of_no_backslash v this]
  · -- raw
    unfold decodeCharacterString
    cases v with
    | nil => exact absurd rfl hne
    | cons c cs =>
      have : c ≠ 34 := by simpa using hq
      simp [this]

theorem candidate_charString (text b58 : Bytes) :
    candidate (charString (txtValue text b58)) = .text (text ++ P2P ++ b58) := by
  have hv : txtValue text b58 = 100 :: 110 :: 115 :: 97 :: 100 :: 100 :: 114 :: 61 :: (text ++ P2P ++ b58) := by
    simp [txtValue, DNSADDR]
  unfold candidate
  rw [decode_charString _ (by simp [hv]) (by simp [hv])]
  simp [hv, DNSADDR]

/-! ### `append_txt_record` -/

/-- the record `append_txt_record` writes for a value that fits -/
def recordOf (name : Bytes) (ttl : Nat) (v : Bytes) : Bytes :=
  name ++ [0, 16, 128, 1] ++ u32be ttl ++ u16be ((charString v).length + 1)
    ++ ((charString v).length :: charString v)

theorem appendCharacterString_ascii (v : Bytes) (h : isAscii v = true) :
    appendCharacterString v = .ok (charString v) := by
  unfold appendCharacterString charString
  by_cases hs : v.any (· == 32) = true <;> simp [h, hs]

theorem appendTxtRecord_fits (name : Bytes) (ttl : Nat) (v : Bytes) (h : fits v = true) :
    appendTxtRecord name ttl v = .ok (recordOf name ttl v) := by
  simp only [fits, Bool.and_eq_true, decide_eq_true_eq] at h
  have hl := length_le_charString v
  unfold appendTxtRecord
  rw [appendCharacterString_ascii v h.1]
  simp [MAX_TXT_VALUE_LENGTH, recordOf, Nat.not_lt.2 h.2, Nat.not_lt.2 (Nat.le_trans hl h.2)]

theorem appendTxtRecord_not_fits (name : Bytes) (ttl : Nat) (v : Bytes) (h : fits v = false) :
    ∃ e, appendTxtRecord name ttl v = .error e := by
  unfold appendTxtRecord
  by_cases hlen : v.length > MAX_TXT_VALUE_LENGTH
  · exact ⟨.tooLong, by simp [hlen]⟩
  · by_cases ha : isAscii v = true
    · rw [appendCharacterString_ascii v ha]
      have : (charString v).length > MAX_TXT_VALUE_LENGTH := by
        simp [fits, ha] at h
        simp [MAX_TXT_VALUE_LENGTH]; omega
      exact ⟨.tooLong, by simp [hlen, this]⟩
    · refine ⟨.nonAscii, ?_⟩
      simp [hlen, appendCharacterString, ha]

/-- **TXT well-formedness, record level**: whatever `append_txt_record` returns is
`name ‖ type ‖ class ‖ ttl ‖ rdlength ‖ len ‖ bytes` with `len = |bytes| ≤ 255` and `rdlength = len + 1`. -/
theorem appendTxtRecord_ok (name : Bytes) (ttl : Nat) (v r : Bytes)
    (h : appendTxtRecord name ttl v = .ok r) :
    ∃ s : Bytes, s.length ≤ 255 ∧
      r = name ++ [0, 16, 128, 1] ++ u32be ttl ++ u16be (s.length + 1) ++ (s.length :: s) := by
  cases hf : fits v with
  | true =>
    rw [appendTxtRecord_fits name ttl v hf] at h
    injection h with h
    refine ⟨charString v, ?_, ?_⟩
    · simp [fits] at hf; exact hf.2
    · rw [← h]; rfl
  | false =>
    obtain ⟨e, he⟩ := appendTxtRecord_not_fits name ttl v hf
    rw [he] at h; cases h

/-! ### the packing loop -/

/-- the loop on abstract items: `cur` = current chunk, `done` = closed chunks -/
def chunkLoop {ι : Type} (maxRec : Nat) : List ι → List ι → List (List ι) → List ι × List (List ι)
  | [], cur, done => (cur, done)
  | r :: rs, cur, done =>
    if (cur ++ [r]).length = maxRec then chunkLoop maxRec rs [] (done ++ [cur ++ [r]])
    else chunkLoop maxRec rs (cur ++ [r]) done

theorem chunkLoop_flatten {ι : Type} (maxRec : Nat) (rs cur : List ι) (done : List (List ι)) :
    (chunkLoop maxRec rs cur done).2.flatten ++ (chunkLoop maxRec rs cur done).1
      = done.flatten ++ cur ++ rs := by
  induction rs generalizing cur done with
  | nil => simp [chunkLoop]
  | cons r rs ih =>
    simp only [chunkLoop]
    split
    · rw [ih]; simp
    · rw [ih]; simp

theorem chunkLoop_sizes {ι : Type} (maxRec : Nat) (hpos : 0 < maxRec) (rs cur : List ι) (done : List (List ι))
    (hcur : cur.length < maxRec) (hdone : ∀ c ∈ done, c.length = maxRec) :
    (chunkLoop maxRec rs cur done).1.length < maxRec ∧
      ∀ c ∈ (chunkLoop maxRec rs cur done).2, c.length = maxRec := by
  induction rs generalizing cur done with
  | nil => exact ⟨hcur, hdone⟩
  | cons r rs ih =>
    simp only [chunkLoop]
    split
    · rename_i heq
      apply ih
      · simpa using hpos
      · intro c hc
        rcases List.mem_append.1 hc with hc | hc
        · exact hdone c hc
        · simp at hc; subst hc; exact heq
    · rename_i hne
      apply ih
      · simp at hne ⊢; omega
      · exact hdone

/-- the Rust loop is the abstract loop on the items that fit -/
theorem buildLoop_eq_chunkLoop {ι : Type} (maxRec : Nat) (rec : Bytes → Except TxtErr Bytes)
    (pkt : List Bytes → Bytes) (val : ι → Bytes) (good : ι → Bool) (recOf : ι → Bytes)
    (hgood : ∀ it, good it = true → rec (val it) = .ok (recOf it))
    (hbad : ∀ it, good it = false → ∃ e, rec (val it) = .error e)
    (items cur : List ι) (done : List (List ι)) (hcur : cur.length ≠ maxRec) :
    buildLoop maxRec rec pkt (items.map val) (cur.map recOf) (done.map (fun c => pkt (c.map recOf)))
      = ((chunkLoop maxRec (items.filter good) cur done).1.map recOf,
         (chunkLoop maxRec (items.filter good) cur done).2.map (fun c => pkt (c.map recOf))) := by
  induction items generalizing cur done with
  | nil => simp [buildLoop, chunkLoop]
  | cons it items ih =>
    cases hg : good it with
    | true =>
      simp only [List.map_cons, buildLoop, hgood it hg, List.filter_cons, hg, ↓reduceIte, chunkLoop]
      have hlen : (List.map recOf cur ++ [recOf it]).length = (cur ++ [it]).length := by simp
      rw [hlen]
      split
      · have := ih [] (done ++ [cur ++ [it]]) (by
          rename_i heq; simp at heq ⊢; omega)
        simpa using this
      · rename_i hne
        have := ih (cur ++ [it]) done hne
        simpa using this
    | false =>
      obtain ⟨e, he⟩ := hbad it hg
      simp only [List.map_cons, buildLoop, he, List.filter_cons, hg]
      have : ¬ (List.map recOf cur).length = maxRec := by simpa using hcur
      simp only [this, ↓reduceIte]
      exact ih cur done hcur

end C55
