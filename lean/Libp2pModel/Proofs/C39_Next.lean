import Libp2pModel.Proofs.C39_Basic
/-!
# C39 — the `for` loop of `ClosestPeersIter::next`
-/
namespace C39

/-- 1 iff the loop issued a request -/
def issue : LoopRes → Nat
  | .ret (.waiting (some _)) => 1
  | _ => 0

theorem nextLoop_keys (cfg : Cfg) (now : Nat) (atCap : Bool) (cl : List (Nat × PState)) (nw : Nat)
    (cnt : Option Nat) : keys (nextLoop cfg now atCap cl nw cnt).1 = keys cl := by
  fun_induction nextLoop cfg now atCap cl nw cnt <;> simp_all +zetaDelta [keys]

theorem nextLoop_length (cfg : Cfg) (now : Nat) (atCap : Bool) (cl : List (Nat × PState)) (nw : Nat)
    (cnt : Option Nat) : (nextLoop cfg now atCap cl nw cnt).1.length = cl.length := by
  have := congrArg List.length (nextLoop_keys cfg now atCap cl nw cnt)
  simpa [keys] using this

/-- `num_waiting` stays the number of `Waiting` peers, and the subtraction never underflows -/
theorem nextLoop_nw (cfg : Cfg) (now : Nat) (atCap : Bool) (cl : List (Nat × PState)) (nw : Nat)
    (cnt : Option Nat) :
    ∀ base, nw = base + countW cl →
      (nextLoop cfg now atCap cl nw cnt).2.2 ≠ .panic ∧
      (nextLoop cfg now atCap cl nw cnt).2.1 = base + countW (nextLoop cfg now atCap cl nw cnt).1 := by
  fun_induction nextLoop cfg now atCap cl nw cnt <;> intro base hb <;>
    simp_all +zetaDelta [countW_cons, isWaiting] <;> first | omega | grind

theorem nextLoop_counts (cfg : Cfg) (now : Nat) (atCap : Bool) (cl : List (Nat × PState)) (nw : Nat)
    (cnt : Option Nat) :
    countNC (nextLoop cfg now atCap cl nw cnt).1 + issue (nextLoop cfg now atCap cl nw cnt).2.2 = countNC cl ∧
    countW (nextLoop cfg now atCap cl nw cnt).1 ≤ countW cl + issue (nextLoop cfg now atCap cl nw cnt).2.2 ∧
    3 * countNC (nextLoop cfg now atCap cl nw cnt).1 + 2 * countW (nextLoop cfg now atCap cl nw cnt).1
        + countU (nextLoop cfg now atCap cl nw cnt).1 + issue (nextLoop cfg now atCap cl nw cnt).2.2
      ≤ 3 * countNC cl + 2 * countW cl + countU cl := by
  fun_induction nextLoop cfg now atCap cl nw cnt <;>
    simp_all +zetaDelta [countW_cons, countNC_cons, countU_cons, isWaiting, issue] <;> omega

theorem nextLoop_ret (cfg : Cfg) (now : Nat) (atCap : Bool) (cl : List (Nat × PState)) (nw : Nat)
    (cnt : Option Nat) (o : Out) (h : (nextLoop cfg now atCap cl nw cnt).2.2 = .ret o) :
    (o = .atCapacity ∧ atCap = true) ∨ (∃ p, o = .waiting (some p) ∧ atCap = false) := by
  fun_induction nextLoop cfg now atCap cl nw cnt <;> simp_all +zetaDelta
  exact ⟨_, h.symm⟩

/-- elementwise relation between two lists of equal length -/
inductive All2 {α β : Type} (R : α → β → Prop) : List α → List β → Prop
  | nil : All2 R [] []
  | cons {a b l l'} : R a b → All2 R l l' → All2 R (a :: l) (b :: l')

/-- how one peer's state may change during the loop; `res` is the loop's outcome -/
def Rel (cfg : Cfg) (now : Nat) (res : LoopRes) (e e' : Nat × PState) : Prop :=
  e.1 = e'.1 ∧
    (e'.2 = e.2 ∨
     (∃ to, e.2 = .waiting to ∧ to ≤ now ∧ e'.2 = .unresponsive) ∨
     (e.2 = .notContacted ∧ e'.2 = .waiting (now + cfg.peerTimeout) ∧ res = .ret (.waiting (some e.1))))

theorem forall2_refl_rel (cfg : Cfg) (now : Nat) (res : LoopRes) (l : List (Nat × PState)) :
    All2 (Rel cfg now res) l l := by
  induction l with
  | nil => exact .nil
  | cons e t ih => exact .cons ⟨rfl, Or.inl rfl⟩ ih

theorem nextLoop_rel (cfg : Cfg) (now : Nat) (atCap : Bool) (cl : List (Nat × PState)) (nw : Nat)
    (cnt : Option Nat) :
    All2 (Rel cfg now (nextLoop cfg now atCap cl nw cnt).2.2) cl (nextLoop cfg now atCap cl nw cnt).1 := by
  fun_induction nextLoop cfg now atCap cl nw cnt
  all_goals first
    | exact .nil
    | (simp only []; exact .cons ⟨rfl, Or.inl rfl⟩ (forall2_refl_rel _ _ _ _))
    | (simp +zetaDelta only []; refine .cons ⟨rfl, ?_⟩ (by assumption); simp_all)
    | (simp +zetaDelta only []; refine .cons ⟨rfl, ?_⟩ (forall2_refl_rel _ _ _ _); simp_all)

def Done (e : Nat × PState) : Prop := e.2 ≠ .notContacted ∧ isWaiting e.2 = false

theorem nextLoop_finish (cfg : Cfg) (now : Nat) (atCap : Bool) (cl : List (Nat × PState)) (nw : Nat)
    (cnt : Option Nat) (h : (nextLoop cfg now atCap cl nw cnt).2.2 = .finish) :
    ∃ c pre p t, cnt = some c ∧ (nextLoop cfg now atCap cl nw cnt).1 = pre ++ (p, .succeeded) :: t ∧
      (∀ e ∈ pre, Done e) ∧
      (c < cfg.numResults → c + (pre.filter (fun e => e.2 = .succeeded)).length + 1 = cfg.numResults) := by
  fun_induction nextLoop cfg now atCap cl nw cnt
  all_goals (try (simp +zetaDelta only [] at h ⊢))
  all_goals (try (exfalso; simp_all +zetaDelta; done))
  case case3 =>
    rename_i ih
    obtain ⟨c, pre, p, t, hc, hl, hd, hn⟩ := ih h
    refine ⟨c, _ :: pre, p, t, hc, by rw [hl]; rfl, ?_, by simpa [List.filter_cons] using hn⟩
    intro e he
    rcases List.mem_cons.1 he with rfl | he
    · exact ⟨by simp, by simp [isWaiting]⟩
    · exact hd e he
  case case6 =>
    rename_i p0 t0 nw0 c0 hc0
    exact ⟨c0, [], p0, t0, rfl, rfl, by simp, by intro; simp; omega⟩
  case case7 =>
    rename_i p0 t0 nw0 c0 hc0 r0 ih
    obtain ⟨c, pre, p, t, hc, hl, hd, hn⟩ := ih h
    simp at hc; subst hc
    refine ⟨c0, (p0, .succeeded) :: pre, p, t, rfl, by rw [hl]; rfl, ?_, ?_⟩
    · intro e he
      rcases List.mem_cons.1 he with rfl | he
      · exact ⟨by simp, by simp [isWaiting]⟩
      · exact hd e he
    · intro _
      have := hn (by omega)
      simp [List.filter_cons]
      omega
  case case11 =>
    rename_i ih
    obtain ⟨c, pre, p, t, hc, hl, hd, hn⟩ := ih h
    refine ⟨c, _ :: pre, p, t, hc, by rw [hl]; rfl, ?_, by simpa [List.filter_cons] using hn⟩
    intro e he
    rcases List.mem_cons.1 he with rfl | he
    · exact ⟨by simp, by simp [isWaiting]⟩
    · exact hd e he
  case case12 =>
    rename_i ih
    obtain ⟨c, pre, p, t, hc, hl, hd, hn⟩ := ih h
    refine ⟨c, _ :: pre, p, t, hc, by rw [hl]; rfl, ?_, by simpa [List.filter_cons] using hn⟩
    intro e he
    rcases List.mem_cons.1 he with rfl | he
    · exact ⟨by simp, by simp [isWaiting]⟩
    · exact hd e he

/-- when the loop runs to its end, no peer is left `NotContacted` -/
theorem nextLoop_done (cfg : Cfg) (now : Nat) (atCap : Bool) (cl : List (Nat × PState)) (nw : Nat)
    (cnt : Option Nat) (h : (nextLoop cfg now atCap cl nw cnt).2.2 = .done) :
    ∀ e ∈ (nextLoop cfg now atCap cl nw cnt).1, e.2 ≠ .notContacted := by
  fun_induction nextLoop cfg now atCap cl nw cnt <;> simp_all +zetaDelta <;> assumption

end C39
