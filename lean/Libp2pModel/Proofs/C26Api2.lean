import Libp2pModel.Proofs.C26Api1
namespace C26
open C25 (Sid Role Frame)

/-- unless it fails the connection, `poll_send_frame` leaves the substream table and the pending
queue alone -/
theorem sendFrame_keeps (s : State) (f : Frame) (h : ∀ k, (sendFrame s f).2 ≠ .ready (.error k)) :
    (sendFrame s f).1.subs = s.subs ∧ (sendFrame s f).1.pendQ = s.pendQ := by
  unfold sendFrame at h ⊢
  have hc := sinkReady_core s
  rcases hsr : sinkReady s with ⟨s1, b⟩
  rw [hsr] at hc h
  simp only at hc
  cases b with
  | false => exact ⟨hc.2.1, hc.2.2.1⟩
  | true =>
    simp only at h ⊢
    split
    · rename_i hbig
      simp only [hbig, ↓reduceIte] at h
      exact absurd rfl (h _)
    · exact ⟨hc.2.1, hc.2.2.1⟩

theorem Inv_writeOpen {s : State} (hi : Inv s) {id : Sid} {x : Sub} (hx : s.get id = some x)
    (hst : x.st = .opn ∨ x.st = .recvClosed) (data : List Nat) : Inv (writeOpen s x id data).1 := by
  have hg := Inv_get hi hx
  unfold writeOpen
  simp only
  have h1 := Inv_sendFrame hi (.data id (data.take (min data.length s.cfg.split)))
  have hk := sendFrame_keeps s (.data id (data.take (min data.length s.cfg.split)))
  have hcb := sendFrame_core s (.data id (data.take (min data.length s.cfg.split)))
  rcases hsf : sendFrame s (.data id (data.take (min data.length s.cfg.split))) with ⟨s1, r⟩
  rw [hsf] at h1 hk hcb
  simp only at hk hcb
  cases r with
  | pending => exact h1
  | ready e =>
    cases e with
    | error k => exact h1
    | ok u =>
      simp only
      have hk' := hk (by intro k; simp)
      have hx1 : s1.get x.id = some x := by
        unfold State.get; rw [hk'.1, hg.2]; exact hx
      refine Inv_put_present (x := { x with acc := _, sent := _ }) h1 hx1 ?_
      rw [hcb.1, hcb.2]
      obtain ⟨a1, a2, tail, a3, a4, a5⟩ := hg.1
      refine ⟨a1, a2, [], .inl rfl, ?_, by simp⟩
      have ht : tail = [] := by
        rcases a3 with a3 | a3
        · exact a3
        · have := a5 a3
          rcases hst with hst | hst
          · exact absurd hst this.1
          · exact absurd hst this.2
      subst ht
      simp only [List.append_nil] at a4
      simp [a4]

theorem Inv_pollWriteStream {s : State} (hi : Inv s) (id : Sid) (data : List Nat) :
    Inv (pollWriteStream s id data).1 := by
  unfold pollWriteStream
  split
  · exact hi
  · split
    · exact hi
    · rename_i x hx
      split
      · exact hi
      · exact hi
      · exact hi
      · rename_i hst; exact Inv_writeOpen hi hx (.inl hst) data
      · rename_i hst; exact Inv_writeOpen hi hx (.inr hst) data

theorem Inv_pollFlushStream {s : State} (hi : Inv s) : Inv (pollFlushStream s).1 := by
  unfold pollFlushStream
  split
  · exact hi
  · exact (Inv_pollFlush hi).1

theorem Inv_closeOpen {s : State} (hi : Inv s) {id : Sid} {x : Sub} (hx : s.get id = some x)
    (hst : x.st = .opn ∨ x.st = .recvClosed) : Inv (closeOpen s x id).1 := by
  have hg := Inv_get hi hx
  unfold closeOpen
  have hd := Inv_del hi id
  have h1 := Inv_sendFrame hd (.close id)
  have hk := sendFrame_keeps (s.del id) (.close id)
  have hcb := sendFrame_core (s.del id) (.close id)
  rcases hsf : sendFrame (s.del id) (.close id) with ⟨s1, r⟩
  rw [hsf] at h1 hk hcb
  simp only [del_cfg, del_blocking] at hk hcb
  have hlen : (s.del id).subs.length < s.cfg.maxSubs := by
    have := len_removeSub_lt hx
    have := hi.1
    simp only [State.del]; omega
  cases r with
  | pending =>
    simp only
    have hk' := hk (by intro k; simp)
    refine Inv_put_new h1 ?_ ?_
    · rw [hk'.1, hcb.1]; exact hlen
    · rw [hcb.1, hcb.2]; exact hg.1
  | ready e =>
    cases e with
    | error k => exact h1
    | ok u =>
      simp only
      have hk' := hk (by intro k; simp)
      refine Inv_put_new h1 ?_ ?_
      · rw [hk'.1, hcb.1]; exact hlen
      · rw [hcb.1, hcb.2]
        obtain ⟨a1, a2, tail, a3, a4, a5⟩ := hg.1
        have ht : tail = [] := by
          rcases a3 with a3 | a3
          · exact a3
          · have := a5 a3
            rcases hst with hst | hst
            · exact absurd hst this.1
            · exact absurd hst this.2
        subst ht
        simp only [List.append_nil] at a4
        refine ⟨?_, a2, [none], .inr rfl, by simp [a4], fun _ => ?_⟩
        · rcases a1 with a1 | ⟨a1, a1'⟩
          · exact .inl a1
          · right
            refine ⟨a1, ?_⟩
            by_cases hb : s.cfg.block
            · simpa [hb] using a1'
            · simp only [hb] at a1'
              have : x.st = .reset := by simpa using a1'
              rcases hst with hst | hst <;> rw [hst] at this <;> cases this
        · dsimp only
          rcases hst with hst | hst <;> simp [hst]

theorem Inv_pollCloseStream {s : State} (hi : Inv s) (id : Sid) : Inv (pollCloseStream s id).1 := by
  unfold pollCloseStream
  split
  · exact hi
  · split
    · exact hi
    · rename_i x hx
      split
      · exact hi
      · exact hi
      · exact hi
      · rename_i hst; exact Inv_closeOpen hi hx (.inl hst)
      · rename_i hst; exact Inv_closeOpen hi hx (.inr hst)

end C26
