import Libp2pModel.Proofs.C28Inv
/-!
# C29 — belief invariant, part 1: vocabulary and the generic lemmas

`headOf s p` = the first connection of `p` (the one `peer_added_to_mesh` / `peer_removed_from_mesh`
notify), `headB s p` = what its handler believes. The invariant has two parts:
* `HB s`      : for every peer, `headB s p = true ↔ p is in some mesh`;
* `TailInv s` : every connected peer has a non-empty, duplicate-free connection list and the handlers
                of all connections but the first believe "not in a mesh".
-/
namespace C29
open C28

def connsOf (s : State) (p : Nat) : Option (List Nat) := (s.peers p).map (·.conns)
def headOf (s : State) (p : Nat) : Option Nat := (connsOf s p).bind List.head?
def headB (s : State) (p : Nat) : Bool :=
  match headOf s p with
  | some c => s.belief p c
  | none => false

/-- `p` is a member of the mesh of some topic -/
def InM (s : State) (p : Nat) : Prop := ∃ t, inMesh s t p = true

theorem inM_iff (s : State) (p : Nat) : InM s p ↔ InMeshP s p := by
  constructor
  · rintro ⟨t, ht⟩
    obtain ⟨m, hm, hp⟩ := inMesh_iff.1 ht
    exact ⟨t, m, hm, hp⟩
  · rintro ⟨t, m, hm, hp⟩
    exact ⟨t, inMesh_iff.2 ⟨m, hm, hp⟩⟩

def HBp (s : State) (p : Nat) : Prop := headB s p = true ↔ InM s p
def HB (s : State) : Prop := ∀ p, HBp s p

def TailInv (s : State) : Prop :=
  ∀ p l, connsOf s p = some l → l ≠ [] ∧ l.Nodup ∧ ∀ c' ∈ l.tail, s.belief p c' = false

theorem headOf_some_iff {s : State} {p c : Nat} :
    headOf s p = some c ↔ ∃ pd rest, s.peers p = some pd ∧ pd.conns = c :: rest := by
  unfold headOf connsOf
  cases hp : s.peers p with
  | none => simp
  | some pd =>
    cases hc : pd.conns with
    | nil => simp [hc]
    | cons c0 rest => simp [hc]

theorem headOf_none_of_peers_none {s : State} {p : Nat} (h : s.peers p = none) : headOf s p = none := by
  simp [headOf, connsOf, h]

theorem headOf_congr {s s' : State} {p : Nat} (h : connsOf s' p = connsOf s p) : headOf s' p = headOf s p := by
  simp [headOf, h]

/-- a member of a mesh is connected with at least one connection -/
theorem headOf_of_inM {s : State} {p : Nat} (hm : MeshOK s) (ht : TailInv s) (h : InM s p) : headOf s p ≠ none := by
  obtain ⟨t, hin⟩ := h
  obtain ⟨m, hmt, hp⟩ := inMesh_iff.1 hin
  obtain ⟨⟨pd, hpd, _, _⟩, _⟩ := hm t m hmt p hp
  have hc : connsOf s p = some pd.conns := by simp [connsOf, hpd]
  have hne := (ht p pd.conns hc).1
  cases hcc : pd.conns with
  | nil => exact absurd hcc hne
  | cons c rest =>
    have : headOf s p = some c := headOf_some_iff.2 ⟨pd, rest, hpd, hcc⟩
    rw [this]; simp

/-- mesh members are subscribed (for one peer) -/
theorem topics_of_inMesh {s : State} {t p : Nat} (hm : MeshOK s) (h : inMesh s t p = true) :
    ∃ pd, s.peers p = some pd ∧ t ∈ pd.topics := by
  obtain ⟨m, hmt, hp⟩ := inMesh_iff.1 h
  obtain ⟨⟨pd, hpd, _, ht⟩, _⟩ := hm t m hmt p hp
  exact ⟨pd, hpd, ht⟩

/-! ## `applyNotifs` -/

theorem applyNotifs_append (b : Nat → Nat → Bool) (a c : List Notif) :
    applyNotifs b (a ++ c) = applyNotifs (applyNotifs b a) c := by
  simp [applyNotifs, List.foldl_append]

theorem applyNotifs_cons (b : Nat → Nat → Bool) (n : Notif) (ns : List Notif) :
    applyNotifs b (n :: ns) = applyNotifs (fun p c => if p = n.1 ∧ c = n.2.1 then n.2.2 else b p c) ns := rfl

theorem applyNotifs_nomatch : ∀ (ns : List Notif) (b : Nat → Nat → Bool) (p c : Nat),
    (∀ n ∈ ns, ¬ (p = n.1 ∧ c = n.2.1)) → applyNotifs b ns p c = b p c := by
  intro ns
  induction ns with
  | nil => intro b p c _; rfl
  | cons n ns ih =>
    intro b p c h
    rw [applyNotifs_cons, ih _ p c (fun n' hn' => h n' (by simp [hn']))]
    have := h n (by simp)
    simp [this]

theorem applyNotifs_const (v : Bool) : ∀ (ns : List Notif) (b : Nat → Nat → Bool) (p c : Nat),
    (∀ n ∈ ns, n.2.2 = v) →
    applyNotifs b ns p c = if ns.any (fun n => decide (p = n.1 ∧ c = n.2.1)) then v else b p c := by
  intro ns
  induction ns with
  | nil => intro b p c _; rfl
  | cons n ns ih =>
    intro b p c h
    rw [applyNotifs_cons, ih _ p c (fun n' hn' => h n' (by simp [hn']))]
    have hv := h n (by simp)
    by_cases hm : p = n.1 ∧ c = n.2.1
    · simp [hm, hv]
    · simp [hm]

/-! ## the two notification functions -/

theorem peerAdded_spec (s : State) (p : Nat) (ts : List Nat) :
    (peerAdded s p ts = [] ∧ (headOf s p = none ∨
        ∃ pd t, s.peers p = some pd ∧ t ∈ pd.topics ∧ t ∉ ts ∧ inMesh s t p = true))
    ∨ (∃ c, headOf s p = some c ∧ peerAdded s p ts = [(p, c, true)] ∧
        ∀ pd, s.peers p = some pd → ∀ t ∈ pd.topics, t ∉ ts → inMesh s t p = false) := by
  unfold peerAdded headOf connsOf
  cases hp : s.peers p with
  | none => left; simp
  | some pd =>
    cases hc : pd.conns with
    | nil => left; simp [hc]
    | cons c rest =>
      simp only [hc]
      by_cases hany : (pd.topics.any (fun t => !ts.contains t && inMesh s t p)) = true
      · left
        simp only [hany, ↓reduceIte, true_and]
        right
        simp only [List.any_eq_true, Bool.and_eq_true, Bool.not_eq_eq_eq_not, Bool.not_true,
          List.contains_eq_mem, decide_eq_false_iff_not] at hany
        obtain ⟨t, ht, hnt, hin⟩ := hany
        exact ⟨pd, t, rfl, ht, hnt, hin⟩
      · right
        refine ⟨c, by simp [hc], by rw [if_neg hany], ?_⟩
        intro pd' hpd' t ht hnt
        cases hpd'
        cases hin : inMesh s t p with
        | false => rfl
        | true =>
          exfalso; apply hany
          simp only [List.any_eq_true, Bool.and_eq_true, Bool.not_eq_eq_eq_not, Bool.not_true,
            List.contains_eq_mem, decide_eq_false_iff_not]
          exact ⟨t, ht, hnt, hin⟩

theorem peerRemoved_spec (s : State) (p old : Nat) :
    (peerRemoved s p old = [] ∧ (headOf s p = none ∨
        ∃ pd t, s.peers p = some pd ∧ t ∈ pd.topics ∧ t ≠ old ∧ inMesh s t p = true))
    ∨ (∃ c, headOf s p = some c ∧ peerRemoved s p old = [(p, c, false)] ∧
        ∀ pd, s.peers p = some pd → ∀ t ∈ pd.topics, t ≠ old → inMesh s t p = false) := by
  unfold peerRemoved headOf connsOf
  cases hp : s.peers p with
  | none => left; simp
  | some pd =>
    cases hc : pd.conns with
    | nil => left; simp [hc]
    | cons c rest =>
      simp only [hc]
      by_cases hany : (pd.topics.any (fun t => t != old && inMesh s t p)) = true
      · left
        simp only [hany, ↓reduceIte, true_and]
        right
        simp only [List.any_eq_true, Bool.and_eq_true, bne_iff_ne, ne_eq] at hany
        obtain ⟨t, ht, hnt, hin⟩ := hany
        exact ⟨pd, t, rfl, ht, hnt, hin⟩
      · right
        refine ⟨c, by simp [hc], by rw [if_neg hany], ?_⟩
        intro pd' hpd' t ht hnt
        cases hpd'
        cases hin : inMesh s t p with
        | false => rfl
        | true =>
          exfalso; apply hany
          simp only [List.any_eq_true, Bool.and_eq_true, bne_iff_ne, ne_eq]
          exact ⟨t, ht, hnt, hin⟩

/-- every notification of `peer_added_to_mesh` goes to the peer's first connection and says "joined" -/
theorem peerAdded_heads (s : State) (p : Nat) (ts : List Nat) :
    ∀ n ∈ peerAdded s p ts, n.1 = p ∧ headOf s p = some n.2.1 ∧ n.2.2 = true := by
  intro n hn
  rcases peerAdded_spec s p ts with ⟨h, _⟩ | ⟨c, hc, h, _⟩
  · rw [h] at hn; simp at hn
  · rw [h] at hn
    simp only [List.mem_singleton] at hn
    subst hn
    exact ⟨rfl, hc, rfl⟩

theorem peerRemoved_heads (s : State) (p old : Nat) :
    ∀ n ∈ peerRemoved s p old, n.1 = p ∧ headOf s p = some n.2.1 ∧ n.2.2 = false := by
  intro n hn
  rcases peerRemoved_spec s p old with ⟨h, _⟩ | ⟨c, hc, h, _⟩
  · rw [h] at hn; simp at hn
  · rw [h] at hn
    simp only [List.mem_singleton] at hn
    subst hn
    exact ⟨rfl, hc, rfl⟩

/-- the two functions read only the peer table and the meshes -/
theorem peerAdded_core {s s' : State} (hp : s'.peers = s.peers) (hm : s'.mesh = s.mesh) (p : Nat) (ts : List Nat) :
    peerAdded s' p ts = peerAdded s p ts := by
  unfold peerAdded inMesh
  rw [hp, hm]

theorem peerRemoved_core {s s' : State} (hp : s'.peers = s.peers) (hm : s'.mesh = s.mesh) (p old : Nat) :
    peerRemoved s' p old = peerRemoved s p old := by
  unfold peerRemoved inMesh
  rw [hp, hm]

/-! ## head belief after notifications -/

theorem headOf_notify (s : State) (ns : List Notif) (p : Nat) : headOf (notify s ns) p = headOf s p := rfl
theorem inMesh_notify (s : State) (ns : List Notif) (t p : Nat) : inMesh (notify s ns) t p = inMesh s t p := rfl
theorem inM_notify (s : State) (ns : List Notif) (p : Nat) : InM (notify s ns) p ↔ InM s p := Iff.rfl

/-- belief of the first connection after a batch of notifications that all carry the value `v` and
all go to first connections: `v` for the notified peers, unchanged for the others -/
theorem headB_batch (s s' : State) (ns : List Notif) (v : Bool) (hpeers : s'.peers = s.peers)
    (hb : s'.belief = applyNotifs s.belief ns) (hv : ∀ n ∈ ns, n.2.2 = v)
    (hh : ∀ n ∈ ns, headOf s n.1 = some n.2.1) (q : Nat) :
    headB s' q = if ns.any (fun n => n.1 == q) then v else headB s q := by
  have hhead : headOf s' q = headOf s q := by simp [headOf, connsOf, hpeers]
  unfold headB
  rw [hhead]
  cases hq : headOf s q with
  | none =>
    have : ns.any (fun n => n.1 == q) = false := by
      rw [List.any_eq_false]
      intro n hn heq
      have h1 := hh n hn
      have : n.1 = q := by simpa using heq
      rw [this, hq] at h1; cases h1
    simp [this]
  | some c =>
    simp only
    rw [hb, applyNotifs_const v ns _ q c hv]
    have : ns.any (fun n => decide (q = n.1 ∧ c = n.2.1)) = ns.any (fun n => n.1 == q) := by
      apply Bool.eq_iff_iff.2
      simp only [List.any_eq_true, decide_eq_true_eq, beq_iff_eq]
      constructor
      · rintro ⟨n, hn, h1, _⟩; exact ⟨n, hn, h1.symm⟩
      · rintro ⟨n, hn, h1⟩
        refine ⟨n, hn, h1.symm, ?_⟩
        have := hh n hn
        rw [h1, hq] at this
        exact Option.some.inj this
    rw [this]

theorem headB_notify_added_self (s : State) (p : Nat) (ts : List Nat) :
    headB (notify s (peerAdded s p ts)) p = (headB s p || !(peerAdded s p ts).isEmpty) := by
  rw [headB_batch s (notify s (peerAdded s p ts)) (peerAdded s p ts) true rfl rfl
    (fun n hn => (peerAdded_heads s p ts n hn).2.2)
    (fun n hn => by have := peerAdded_heads s p ts n hn; rw [this.1]; exact this.2.1) p]
  rcases peerAdded_spec s p ts with ⟨h, _⟩ | ⟨c, _, h, _⟩
  · simp [h]
  · simp [h]

theorem headB_notify_removed_self (s : State) (p old : Nat) :
    headB (notify s (peerRemoved s p old)) p = (headB s p && (peerRemoved s p old).isEmpty) := by
  rw [headB_batch s (notify s (peerRemoved s p old)) (peerRemoved s p old) false rfl rfl
    (fun n hn => (peerRemoved_heads s p old n hn).2.2)
    (fun n hn => by have := peerRemoved_heads s p old n hn; rw [this.1]; exact this.2.1) p]
  rcases peerRemoved_spec s p old with ⟨h, _⟩ | ⟨c, _, h, _⟩
  · simp [h]
  · simp [h]

/-- **adding**: `s` already contains the new memberships; told all new topics `ts`, the handler ends
up believing "in a mesh" (and the peer is in one) -/
theorem headB_added (s : State) (p : Nat) (ts : List Nat) (hhead : headOf s p ≠ none)
    (hold : ∀ pd t, s.peers p = some pd → t ∈ pd.topics → t ∉ ts → inMesh s t p = true → headB s p = true) :
    headB (notify s (peerAdded s p ts)) p = true := by
  rw [headB_notify_added_self]
  rcases peerAdded_spec s p ts with ⟨_, hn | ⟨pd, t, hpd, ht, hnt, hin⟩⟩ | ⟨c, _, h, _⟩
  · exact absurd hn hhead
  · simp [hold pd t hpd ht hnt hin]
  · simp [h]

/-- **removing**: `s` already lacks the membership in `old` -/
theorem HBp_removed (s : State) (p old : Nat)
    (hsub : ∀ t, inMesh s t p = true → ∃ pd, s.peers p = some pd ∧ t ∈ pd.topics)
    (hout : inMesh s old p = false) (hold : InM s p → headB s p = true) :
    HBp (notify s (peerRemoved s p old)) p := by
  unfold HBp
  rw [headB_notify_removed_self, inM_notify]
  rcases peerRemoved_spec s p old with ⟨h, hn | ⟨pd, t, hpd, ht, hnt, hin⟩⟩ | ⟨c, hc, h, hnone⟩
  · -- not connected: nothing believed; then not in a mesh either
    have hb : headB s p = false := by simp [headB, hn]
    simp only [h, List.isEmpty_nil, Bool.and_true, hb, Bool.false_eq_true, false_iff]
    intro hin
    have := hold hin
    rw [hb] at this; cases this
  · have him : InM s p := ⟨t, hin⟩
    simp [h, hold him, him]
  · simp only [h, List.isEmpty_cons, Bool.and_false, Bool.false_eq_true, false_iff]
    rintro ⟨t, hin⟩
    obtain ⟨pd, hpd, ht⟩ := hsub t hin
    by_cases hto : t = old
    · subst hto; rw [hout] at hin; cases hin
    · rw [hnone pd hpd t ht hto] at hin; cases hin

/-! ## the frame relations -/

/-- connection lists unchanged; beliefs change only at first connections -/
def Rel (s s' : State) : Prop :=
  (∀ p, connsOf s' p = connsOf s p) ∧ ∀ p c, headOf s p ≠ some c → s'.belief p c = s.belief p c

/-- … and peers other than `p` keep their beliefs and mesh memberships -/
def RelP (p : Nat) (s s' : State) : Prop :=
  Rel s s' ∧ ∀ q, q ≠ p → (∀ c, s'.belief q c = s.belief q c) ∧ ∀ t, inMesh s' t q = inMesh s t q

theorem Rel.refl (s : State) : Rel s s := ⟨fun _ => rfl, fun _ _ _ => rfl⟩

theorem Rel.trans {a b c : State} (h1 : Rel a b) (h2 : Rel b c) : Rel a c := by
  refine ⟨fun p => (h2.1 p).trans (h1.1 p), fun p x hx => ?_⟩
  rw [h2.2 p x (by rw [headOf_congr (h1.1 p)]; exact hx), h1.2 p x hx]

theorem RelP.refl (p : Nat) (s : State) : RelP p s s := ⟨Rel.refl s, fun _ _ => ⟨fun _ => rfl, fun _ => rfl⟩⟩

theorem RelP.trans {p : Nat} {a b c : State} (h1 : RelP p a b) (h2 : RelP p b c) : RelP p a c := by
  refine ⟨h1.1.trans h2.1, fun q hq => ⟨fun x => ?_, fun t => ?_⟩⟩
  · rw [(h2.2 q hq).1 x, (h1.2 q hq).1 x]
  · rw [(h2.2 q hq).2 t, (h1.2 q hq).2 t]

theorem TailInv.rel {s s' : State} (h : TailInv s) (hr : Rel s s') : TailInv s' := by
  intro p l hl
  rw [hr.1 p] at hl
  obtain ⟨hne, hnd, htl⟩ := h p l hl
  refine ⟨hne, hnd, fun c' hc' => ?_⟩
  rw [hr.2 p c' ?_]
  · exact htl c' hc'
  · cases l with
    | nil => exact absurd rfl hne
    | cons x xs =>
      have : headOf s p = some x := by simp [headOf, hl]
      rw [this]
      simp only [List.tail_cons] at hc'
      intro heq
      have : x = c' := Option.some.inj heq
      subst this
      exact (List.nodup_cons.1 hnd).1 hc'

/-- a step that leaves the peer table's connection lists and all beliefs alone -/
theorem relP_of {p : Nat} {s s' : State} (hc : ∀ q, connsOf s' q = connsOf s q) (hb : s'.belief = s.belief)
    (hm : ∀ q, q ≠ p → ∀ t, inMesh s' t q = inMesh s t q) : RelP p s s' :=
  ⟨⟨hc, fun q c _ => by rw [hb]⟩, fun q hq => ⟨fun c => by rw [hb], hm q hq⟩⟩

/-- notifications that go to first connections -/
theorem rel_notify_heads (s : State) (ns : List Notif) (hh : ∀ n ∈ ns, headOf s n.1 = some n.2.1) :
    Rel s (notify s ns) := by
  refine ⟨fun _ => rfl, fun p c hpc => ?_⟩
  show applyNotifs s.belief ns p c = s.belief p c
  apply applyNotifs_nomatch
  rintro n hn ⟨h1, h2⟩
  apply hpc
  rw [h1, h2]
  exact hh n hn

theorem relP_notify_of (p : Nat) (s : State) (ns : List Notif)
    (hh : ∀ n ∈ ns, n.1 = p ∧ headOf s p = some n.2.1) : RelP p s (notify s ns) := by
  refine ⟨rel_notify_heads s ns (fun n hn => by have := hh n hn; rw [this.1]; exact this.2), fun q hq => ⟨fun c => ?_, fun _ => rfl⟩⟩
  show applyNotifs s.belief ns q c = s.belief q c
  apply applyNotifs_nomatch
  rintro n hn ⟨h1, _⟩
  exact hq (h1.trans (hh n hn).1)

theorem relP_notify_added (s : State) (p : Nat) (ts : List Nat) : RelP p s (notify s (peerAdded s p ts)) :=
  relP_notify_of p s _ (fun n hn => ⟨(peerAdded_heads s p ts n hn).1, (peerAdded_heads s p ts n hn).2.1⟩)

theorem relP_notify_removed (s : State) (p old : Nat) : RelP p s (notify s (peerRemoved s p old)) :=
  relP_notify_of p s _ (fun n hn => ⟨(peerRemoved_heads s p old n hn).1, (peerRemoved_heads s p old n hn).2.1⟩)

/-- the frame rule for one peer -/
theorem HBp_frame {s s' : State} {q : Nat} (h : HBp s q) (hc : connsOf s' q = connsOf s q)
    (hb : ∀ c, s'.belief q c = s.belief q c) (hm : ∀ t, inMesh s' t q = inMesh s t q) : HBp s' q := by
  unfold HBp at *
  have h1 : headB s' q = headB s q := by
    unfold headB
    rw [headOf_congr hc]
    cases headOf s q with
    | none => rfl
    | some c => exact hb c
  have h2 : InM s' q ↔ InM s q := by
    constructor
    · rintro ⟨t, ht⟩; exact ⟨t, by rw [← hm t]; exact ht⟩
    · rintro ⟨t, ht⟩; exact ⟨t, by rw [hm t]; exact ht⟩
  rw [h1, h2]; exact h

theorem HBp_relP {p q : Nat} {s s' : State} (h : HBp s q) (hr : RelP p s s') (hq : q ≠ p) : HBp s' q :=
  HBp_frame h (hr.1.1 q) (hr.2 q hq).1 (hr.2 q hq).2

theorem headB_relP {p q : Nat} {s s' : State} (hr : RelP p s s') (hq : q ≠ p) : headB s' q = headB s q := by
  unfold headB
  rw [headOf_congr (hr.1.1 q)]
  cases headOf s q with
  | none => rfl
  | some c => exact (hr.2 q hq).1 c

/-! ## elementary state changes -/

theorem connsOf_setTopics (s : State) (p : Nat) (f : List Nat → List Nat) (q : Nat) :
    connsOf (setTopics s p f) q = connsOf s q := by
  unfold setTopics connsOf
  cases hp : s.peers p with
  | none => rfl
  | some pd =>
    simp only
    by_cases hq : q = p
    · subst hq; simp [setF_same, hp]
    · simp [setF_other _ _ _ _ hq]

theorem setTopics_belief (s : State) (p : Nat) (f : List Nat → List Nat) : (setTopics s p f).belief = s.belief := by
  unfold setTopics; cases s.peers p <;> rfl

theorem inMesh_setTopics (s : State) (p : Nat) (f : List Nat → List Nat) (t q : Nat) :
    inMesh (setTopics s p f) t q = inMesh s t q := by
  unfold inMesh; rw [(setTopics_mesh s p f).1]

theorem relP_setTopics (p' : Nat) (s : State) (p : Nat) (f : List Nat → List Nat) : RelP p' s (setTopics s p f) :=
  relP_of (connsOf_setTopics s p f) (setTopics_belief s p f) (fun q _ t => inMesh_setTopics s p f t q)

theorem relP_updateBackoff (p' : Nat) (s : State) (now t p secs : Nat) : RelP p' s (updateBackoff s now t p secs) :=
  relP_of (fun _ => rfl) rfl (fun _ _ _ => rfl)

theorem inMesh_setF (s : State) (t : Nat) (v : Option (List Nat)) (t' q : Nat) :
    inMesh { s with mesh := setF s.mesh t v } t' q =
      if t' = t then (match v with | some m => m.contains q | none => false) else inMesh s t' q := by
  unfold inMesh
  by_cases h : t' = t
  · subst h
    simp only [setF_same, if_true]
    cases v <;> rfl
  · simp [setF_other _ _ _ _ h, h]

/-- adding `p` to one mesh does not change the membership of the others -/
theorem relP_meshAdd (s : State) (p t : Nat) (m : List Nat) (hm : s.mesh t = some m) :
    RelP p s { s with mesh := setF s.mesh t (some (m ++ [p])) } := by
  refine relP_of (fun _ => rfl) rfl (fun q hq t' => ?_)
  rw [inMesh_setF]
  split
  · rename_i h; subst h
    simp [inMesh, hm, hq]
  · rfl

theorem relP_meshDel (s : State) (p t : Nat) :
    RelP p s { s with mesh := setF s.mesh t ((s.mesh t).map (fun m => del m p)) } := by
  refine relP_of (fun _ => rfl) rfl (fun q hq t' => ?_)
  rw [inMesh_setF]
  split
  · rename_i h; subst h
    unfold inMesh
    cases s.mesh t' with
    | none => rfl
    | some m =>
      simp only [Option.map_some]
      apply Bool.eq_iff_iff.2
      simp [mem_del, hq]
  · rfl

end C29
