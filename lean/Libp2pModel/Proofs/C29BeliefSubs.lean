import Libp2pModel.Proofs.C29BeliefSeq
/-!
# C29 — belief invariant, part 4: `handle_received_subscriptions`

The loop over the filtered subscriptions grafts the peer silently (topics `G`) and drops topics from
its topic set (topics `U`); then `U` is removed from the meshes one topic at a time (each with its
`peer_removed_from_mesh` call, evaluated while the silent grafts are already in the meshes and the
dropped topics are already gone from the topic set); finally one `peer_added_to_mesh(p, G)`.
-/
namespace C29
open C28

/-! ## the filtered request has one entry per topic -/

theorem filterSubs_nodup : ∀ (l acc : List (Bool × Nat)), (acc.map (·.2)).Nodup →
    ((filterSubs acc l).map (·.2)).Nodup := by
  intro l
  induction l with
  | nil => intro acc h; exact h
  | cons e es ih =>
    intro acc h
    obtain ⟨a, t⟩ := e
    simp only [filterSubs]
    split
    · split
      · apply ih
        exact h.sublist (List.Sublist.map _ List.filter_sublist)
      · exact ih acc h
    · rename_i hnone
      apply ih
      simp only [List.map_append, List.map_cons, List.map_nil]
      rw [List.nodup_append]
      refine ⟨h, by simp, ?_⟩
      intro x hx y hy
      simp only [List.mem_singleton] at hy
      subst hy
      rintro rfl
      obtain ⟨e', he', hx'⟩ := List.mem_map.1 hx
      have := List.find?_eq_none.1 hnone e' he'
      simp [hx'] at this

theorem nodup_map_inj {α β : Type} (f : α → β) : ∀ (l : List α), (l.map f).Nodup →
    ∀ a ∈ l, ∀ b ∈ l, f a = f b → a = b := by
  intro l
  induction l with
  | nil => intro _ a ha; simp at ha
  | cons x xs ih =>
    intro h a ha b hb hab
    simp only [List.map_cons, List.nodup_cons] at h
    rcases List.mem_cons.1 ha with rfl | ha' <;> rcases List.mem_cons.1 hb with rfl | hb'
    · rfl
    · exact absurd (List.mem_map.2 ⟨b, hb', hab.symm⟩) h.1
    · exact absurd (List.mem_map.2 ⟨a, ha', hab⟩) h.1
    · exact ih h.2 a ha' b hb' hab

theorem filterSubs_disjoint (l : List (Bool × Nat)) (t : Nat) :
    ¬ ((true, t) ∈ filterSubs [] l ∧ (false, t) ∈ filterSubs [] l) := by
  rintro ⟨h1, h2⟩
  have := nodup_map_inj (fun e : Bool × Nat => e.2) _ (filterSubs_nodup l [] (by simp)) _ h1 _ h2 rfl
  cases this

/-! ## the subscription loop -/

theorem subscribeArm_eq (s : State) (sc : Nat → Int) (p t : Nat) :
    subscribeArm s sc p t = (setTopics s p (fun ts => ins ts t), [])
    ∨ ∃ m, (setTopics s p (fun ts => ins ts t)).mesh t = some m ∧ m.contains p = false ∧
        subscribeArm s sc p t =
          ({ setTopics s p (fun ts => ins ts t) with
              mesh := setF (setTopics s p (fun ts => ins ts t)).mesh t (some (m ++ [p])) }, [t]) := by
  unfold subscribeArm
  simp only
  cases (setTopics s p (fun ts => ins ts t)).peers p with
  | none => exact Or.inl rfl
  | some pd =>
    simp only
    split
    · cases hm : (setTopics s p (fun ts => ins ts t)).mesh t with
      | none => exact Or.inl rfl
      | some m =>
        simp only
        split
        · rename_i hc
          simp only [Bool.and_eq_true, Bool.not_eq_eq_eq_not, Bool.not_true] at hc
          exact Or.inr ⟨m, rfl, hc.2, rfl⟩
        · exact Or.inl rfl
    · exact Or.inl rfl

/-- what one `Subscribe` entry does, seen from peer `p` -/
theorem subscribeArm_facts (s : State) (sc : Nat → Int) (p t : Nat) :
    RelP p s (subscribeArm s sc p t).1 ∧ (subscribeArm s sc p t).1.belief = s.belief
    ∧ (∀ t', inMesh s t' p = true → inMesh (subscribeArm s sc p t).1 t' p = true)
    ∧ (∀ t', inMesh (subscribeArm s sc p t).1 t' p = true → inMesh s t' p = true ∨ t' ∈ (subscribeArm s sc p t).2)
    ∧ (∀ t' ∈ (subscribeArm s sc p t).2, inMesh (subscribeArm s sc p t).1 t' p = true)
    ∧ (∀ t' ∈ (subscribeArm s sc p t).2, t' = t) := by
  have r0 := relP_setTopics p s p (fun ts => ins ts t)
  have b0 := setTopics_belief s p (fun ts => ins ts t)
  have m0 := fun t' => inMesh_setTopics s p (fun ts => ins ts t) t' p
  rcases subscribeArm_eq s sc p t with h | ⟨m, hm, hnc, h⟩
  · rw [h]
    refine ⟨r0, b0, fun t' ht' => by rw [m0]; exact ht', fun t' ht' => Or.inl (by rw [← m0]; exact ht'),
      fun t' ht' => by simp at ht', fun t' ht' => by simp at ht'⟩
  · rw [h]
    refine ⟨r0.trans (relP_meshAdd _ p t m hm), b0, ?_, ?_, ?_, ?_⟩
    · intro t' ht'
      rw [inMesh_setF]
      split
      · simp
      · rw [m0]; exact ht'
    · intro t' ht'
      rw [inMesh_setF] at ht'
      split at ht'
      · rename_i htt; right; simp [htt]
      · left; rw [← m0]; exact ht'
    · intro t' ht'
      simp only [List.mem_singleton] at ht'
      subst ht'
      rw [inMesh_setF]; simp
    · intro t' ht'; simpa using ht'

theorem subsLoop_facts (sc : Nat → Int) (p : Nat) : ∀ (l : List (Bool × Nat)) (s : State) (g u : List Nat),
    RelP p s (subsLoop sc p l s g u).1 ∧ (subsLoop sc p l s g u).1.belief = s.belief
    ∧ (∀ t', inMesh s t' p = true → inMesh (subsLoop sc p l s g u).1 t' p = true)
    ∧ (∀ t', inMesh (subsLoop sc p l s g u).1 t' p = true → inMesh s t' p = true ∨ t' ∈ (subsLoop sc p l s g u).2.1)
    ∧ (∀ t' ∈ (subsLoop sc p l s g u).2.1, t' ∈ g ∨ inMesh (subsLoop sc p l s g u).1 t' p = true)
    ∧ (∀ t' ∈ (subsLoop sc p l s g u).2.1, t' ∈ g ∨ (true, t') ∈ l)
    ∧ (∀ t' ∈ (subsLoop sc p l s g u).2.2, t' ∈ u ∨ (false, t') ∈ l)
    ∧ (∀ t' ∈ g, t' ∈ (subsLoop sc p l s g u).2.1) := by
  intro l
  induction l with
  | nil =>
    intro s g u
    simp only [subsLoop]
    exact ⟨RelP.refl p s, by first | rfl | trivial, fun _ h => h, fun _ h => Or.inl h, fun _ h => Or.inl h, fun _ h => Or.inl h,
      fun _ h => Or.inl h, fun _ h => h⟩
  | cons e es ih =>
    intro s g u
    obtain ⟨a, t⟩ := e
    cases a with
    | true =>
      simp only [subsLoop]
      obtain ⟨a1, a2, a3, a4, a5, a6⟩ := subscribeArm_facts s sc p t
      obtain ⟨i1, i2, i3, i4, i5, i6, i7, i8⟩ := ih (subscribeArm s sc p t).1 (g ++ (subscribeArm s sc p t).2) u
      refine ⟨a1.trans i1, i2.trans a2, fun t' h => i3 t' (a3 t' h), ?_, ?_, ?_, ?_, ?_⟩
      · intro t' h
        rcases i4 t' h with h' | h'
        · rcases a4 t' h' with h'' | h''
          · exact Or.inl h''
          · exact Or.inr (i8 t' (List.mem_append.2 (Or.inr h'')))
        · exact Or.inr h'
      · intro t' h
        rcases i5 t' h with h' | h'
        · rcases List.mem_append.1 h' with h'' | h''
          · exact Or.inl h''
          · exact Or.inr (i3 t' (a5 t' h''))
        · exact Or.inr h'
      · intro t' h
        rcases i6 t' h with h' | h'
        · rcases List.mem_append.1 h' with h'' | h''
          · exact Or.inl h''
          · right; rw [a6 t' h'']; simp
        · right; simp [h']
      · intro t' h
        rcases i7 t' h with h' | h'
        · exact Or.inl h'
        · right; simp [h']
      · intro t' h
        exact i8 t' (List.mem_append.2 (Or.inl h))
    | false =>
      simp only [subsLoop]
      have r0 := relP_setTopics p s p (fun ts => del ts t)
      have b0 := setTopics_belief s p (fun ts => del ts t)
      have m0 := fun t' => inMesh_setTopics s p (fun ts => del ts t) t' p
      obtain ⟨i1, i2, i3, i4, i5, i6, i7, i8⟩ := ih (setTopics s p (fun ts => del ts t)) g (u ++ [t])
      refine ⟨r0.trans i1, i2.trans b0, fun t' h => i3 t' (by rw [m0]; exact h), ?_, i5, ?_, ?_, i8⟩
      · intro t' h
        rcases i4 t' h with h' | h'
        · left; rw [← m0]; exact h'
        · exact Or.inr h'
      · intro t' h
        rcases i6 t' h with h' | h'
        · exact Or.inl h'
        · right; simp [h']
      · intro t' h
        rcases i7 t' h with h' | h'
        · rcases List.mem_append.1 h' with h'' | h''
          · exact Or.inl h''
          · right; simp only [List.mem_singleton] at h''; simp [h'']
        · right; simp [h']

/-! ## the unsubscription loop -/

/-- the handler believes "in a mesh" as soon as the peer is in the mesh of a subscribed topic outside `G` -/
def A (p : Nat) (G : List Nat) (s : State) : Prop :=
  ∀ pd t', s.peers p = some pd → t' ∈ pd.topics → t' ∉ G → inMesh s t' p = true → headB s p = true

/-- the handler believes "in a mesh" only if the peer is in one -/
def B (p : Nat) (s : State) : Prop := headB s p = true → InM s p

theorem rpm_inMesh_other (s : State) (now p t : Nat) (b : Option Nat) (al : Bool) (t' q : Nat) (h : t' ≠ t) :
    inMesh (removePeerFromMesh s now p t b al).1 t' q = inMesh s t' q := by
  rcases rpm_eq s now p t b al with ⟨_, secs, he⟩ | ⟨_, he | ⟨secs, he⟩⟩
  · rw [he]
    show inMesh { s with mesh := setF s.mesh t ((s.mesh t).map (fun m => del m p)) } t' q = inMesh s t' q
    rw [inMesh_setF, if_neg h]
  · rw [he]
  · rw [he]; rfl

theorem AB_rpm (s : State) (now p t : Nat) (G : List Nat) (hA : A p G s) (hB : B p s) :
    A p G (removePeerFromMesh s now p t none false).1 ∧ B p (removePeerFromMesh s now p t none false).1 := by
  rcases rpm_eq s now p t none false with ⟨_, secs, he⟩ | ⟨_, he | ⟨secs, he⟩⟩
  · rw [he]
    -- the state with the membership removed, before the notification
    have hb : headB (updateBackoff (notify { s with mesh := setF s.mesh t ((s.mesh t).map (fun m => del m p)) }
          (peerRemoved { s with mesh := setF s.mesh t ((s.mesh t).map (fun m => del m p)) } p t)) now t p secs) p
        = (headB s p && (peerRemoved { s with mesh := setF s.mesh t ((s.mesh t).map (fun m => del m p)) } p t).isEmpty) :=
      headB_notify_removed_self { s with mesh := setF s.mesh t ((s.mesh t).map (fun m => del m p)) } p t
    constructor
    · intro pd t' hpd ht' hnG hin
      have hin1 : inMesh { s with mesh := setF s.mesh t ((s.mesh t).map (fun m => del m p)) } t' p = true := hin
      have htt : t' ≠ t := by
        rintro rfl
        rw [inMesh_del_self] at hin1; cases hin1
      have hs : headB s p = true := hA pd t' hpd ht' hnG (inMesh_del_sub s t p t' p hin1)
      rw [hb, hs]
      rcases peerRemoved_spec { s with mesh := setF s.mesh t ((s.mesh t).map (fun m => del m p)) } p t with
        ⟨h0, _⟩ | ⟨c, _, _, hnone⟩
      · simp [h0]
      · have := hnone pd hpd t' ht' htt
        rw [this] at hin1; cases hin1
    · intro hbt
      rw [hb] at hbt
      simp only [Bool.and_eq_true, List.isEmpty_iff] at hbt
      rcases peerRemoved_spec { s with mesh := setF s.mesh t ((s.mesh t).map (fun m => del m p)) } p t with
        ⟨_, hn | ⟨pd, t', _, _, _, hin⟩⟩ | ⟨c, _, h1, _⟩
      · have : headB s p = false := by
          have hn' : headOf s p = none := hn
          simp [headB, hn']
        rw [this] at hbt; cases hbt.1
      · exact ⟨t', hin⟩
      · rw [h1] at hbt; cases hbt.2
  · rw [he]; exact ⟨hA, hB⟩
  · rw [he]; exact ⟨hA, hB⟩

theorem unsubLoop_facts (now p : Nat) (G : List Nat) : ∀ (l : List Nat) (s : State) (ns : List Notif),
    RelP p s (unsubLoop now p l s ns).1
    ∧ (∀ t', t' ∉ l → inMesh (unsubLoop now p l s ns).1 t' p = inMesh s t' p)
    ∧ (A p G s → B p s → A p G (unsubLoop now p l s ns).1 ∧ B p (unsubLoop now p l s ns).1) := by
  intro l
  induction l with
  | nil =>
    intro s ns
    simp only [unsubLoop]
    exact ⟨RelP.refl p s, fun _ _ => by first | rfl | trivial, fun a b => ⟨a, b⟩⟩
  | cons t ts ih =>
    intro s ns
    simp only [unsubLoop]
    have r0 : RelP p s { s with fanout := setF s.fanout t ((s.fanout t).map (fun m => del m p)) } :=
      relP_of (fun _ => rfl) rfl (fun _ _ _ => rfl)
    have r1 := relP_rpm { s with fanout := setF s.fanout t ((s.fanout t).map (fun m => del m p)) } now p t none false
    obtain ⟨i1, i2, i3⟩ := ih (removePeerFromMesh { s with fanout := setF s.fanout t ((s.fanout t).map (fun m => del m p)) } now p t none false).1
      (ns ++ (removePeerFromMesh { s with fanout := setF s.fanout t ((s.fanout t).map (fun m => del m p)) } now p t none false).2)
    refine ⟨(r0.trans r1).trans i1, ?_, ?_⟩
    · intro t' ht'
      simp only [List.mem_cons, not_or] at ht'
      rw [i2 t' ht'.2, rpm_inMesh_other _ now p t none false t' p ht'.1]
      rfl
    · intro hA hB
      obtain ⟨a1, b1⟩ := AB_rpm { s with fanout := setF s.fanout t ((s.fanout t).map (fun m => del m p)) } now p t G hA hB
      exact i3 a1 b1

/-! ## the whole handler -/

theorem binv_recvSubs (s : State) (now : Nat) (sc : Nat → Int) (p : Nat) (subs : List (Bool × Nat)) (h : BInv s) :
    BInv (recvSubs s now sc p subs).1 := by
  have hinv := inv_recvSubs s now sc p subs h.inv
  unfold recvSubs at hinv ⊢
  cases hp : s.peers p with
  | none => exact h
  | some pd =>
    simp only [hp] at hinv ⊢
    obtain ⟨f1, f2, f3, f4, f5, f6, f7, _⟩ := subsLoop_facts sc p (filterSubs [] subs) s [] []
    obtain ⟨u1, u2, u3⟩ := unsubLoop_facts now p (subsLoop sc p (filterSubs [] subs) s [] []).2.1
      (subsLoop sc p (filterSubs [] subs) s [] []).2.2 (subsLoop sc p (filterSubs [] subs) s [] []).1 []
    -- abbreviations
    generalize hs1 : (subsLoop sc p (filterSubs [] subs) s [] []) = r1 at *
    obtain ⟨s1, G, U⟩ := r1
    simp only at f1 f2 f3 f4 f5 f6 f7 u1 u2 u3 hinv ⊢
    generalize hs2 : (unsubLoop now p U s1 []) = r2 at *
    obtain ⟨s2, ns1⟩ := r2
    simp only at u1 u2 u3 hinv ⊢
    have hcore : MeshOK s2 := hinv.mesh
    have hhead2 : headOf s2 p ≠ none := by
      rw [headOf_congr (u1.1.1 p), headOf_congr (f1.1.1 p)]
      exact headOf_ne_none_of_connected h.tail hp
    have hb1 : headB s1 p = headB s p := by
      unfold headB
      rw [headOf_congr (f1.1.1 p), f2]
    -- the loop invariant holds when the removals start
    have hA1 : A p G s1 := by
      intro pd' t' _ _ hnG hin
      rcases f4 t' hin with h' | h'
      · rw [hb1]; exact (h.hb p).2 ⟨t', h'⟩
      · exact absurd h' hnG
    have hB1 : B p s1 := by
      intro hb
      rw [hb1] at hb
      obtain ⟨t', ht'⟩ := (h.hb p).1 hb
      exact ⟨t', f3 t' ht'⟩
    obtain ⟨hA2, hB2⟩ := u3 hA1 hB1
    refine binv_of_relP h hinv ((f1.trans u1).trans (relP_notify_of p s2 _ ?_)) ?_
    · intro n hn
      split at hn
      · simp at hn
      · exact ⟨(peerAdded_heads s2 p G n hn).1, (peerAdded_heads s2 p G n hn).2.1⟩
    · unfold HBp
      rw [inM_notify]
      split
      · -- nothing was grafted
        show headB s2 p = true ↔ InM s2 p
        refine ⟨hB2, ?_⟩
        rintro ⟨t', hin⟩
        obtain ⟨pd', hpd', ht'⟩ := topics_of_inMesh hcore hin
        rename_i hG
        have hG' : G = [] := by simpa using hG
        exact hA2 pd' t' hpd' ht' (by simp [hG']) hin
      · rename_i hG
        -- a grafted topic is still in place after the removals
        have hGne : G ≠ [] := by simpa using hG
        obtain ⟨g, hg⟩ : ∃ g, g ∈ G := by
          cases G with
          | nil => exact absurd rfl hGne
          | cons g _ => exact ⟨g, by simp⟩
        have hgin1 : inMesh s1 g p = true := by
          rcases f5 g hg with h' | h'
          · simp at h'
          · exact h'
        have hgU : g ∉ U := by
          intro hgu
          have h1 : (true, g) ∈ filterSubs [] subs := by
            rcases f6 g hg with h' | h'
            · simp at h'
            · exact h'
          have h2 : (false, g) ∈ filterSubs [] subs := by
            rcases f7 g hgu with h' | h'
            · simp at h'
            · exact h'
          exact filterSubs_disjoint subs g ⟨h1, h2⟩
        have hgin2 : inMesh s2 g p = true := by rw [u2 g hgU]; exact hgin1
        refine ⟨fun _ => ⟨g, hgin2⟩, fun _ => ?_⟩
        apply headB_added s2 p G hhead2
        intro pd' t' hpd' ht' hnG hin
        exact hA2 pd' t' hpd' ht' hnG hin

end C29
