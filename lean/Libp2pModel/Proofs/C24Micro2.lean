import Libp2pModel.Proofs.C24Micro
/-! refinement, part 2: reading frames and the frame handlers -/
namespace C26
open C25 (Sid Role Frame)

theorem readTail_view (s : State) :
    (∀ f, (readTail s).2 = .ready (.ok f) →
      ∃ rest, s.inq = .frame f :: rest ∧ (readTail s).1 = { s with inq := rest }) ∧
    ((∀ f, (readTail s).2 ≠ .ready (.ok f)) → Steps s (readTail s).1) := by
  unfold readTail
  split
  · exact ⟨by simp, fun _ => .refl _⟩
  · split
    · exact ⟨by simp, fun _ => .refl _⟩
    · rename_i f0 rest hq
      refine ⟨?_, fun h => absurd rfl (h f0)⟩
      intro f hf
      simp only [P.ready.injEq, Except.ok.injEq] at hf
      subst hf
      exact ⟨rest, hq, rfl⟩
    · rename_i k rest hq
      refine ⟨by simp, fun _ => ?_⟩
      exact .single (.fail rfl rfl (.inl (by show List.filterMap itemFrame rest = List.filterMap itemFrame s.inq; rw [hq]; rfl)) rfl rfl
        (entOf_nil (by simp [onError])))
    · rename_i rest hq
      refine ⟨by simp, fun _ => ?_⟩
      exact .single (.fail rfl rfl (.inl (by show List.filterMap itemFrame rest = List.filterMap itemFrame s.inq; rw [hq]; rfl)) rfl rfl
        (entOf_nil (by simp [onError])))

/-- `poll_read_frame`: either it hands out the head frame of the queue (after some events), or it
is itself a sequence of events -/
theorem readFrame_steps (s : State) (sid : Option Sid) :
    (∀ f, (readFrame s sid).2 = .ready (.ok f) →
      ∃ s0 rest, Steps s s0 ∧ s0.inq = .frame f :: rest ∧ (readFrame s sid).1 = { s0 with inq := rest }) ∧
    ((∀ f, (readFrame s sid).2 ≠ .ready (.ok f)) → Steps s (readFrame s sid).1) := by
  unfold readFrame
  have h := sendPending_steps s
  rcases hsp : sendPending s with ⟨s1, r⟩
  rw [hsp] at h
  have rest :
      (∀ f, (match readFlush s1 sid with
          | (s, some r) => (s, r)
          | (s, none) => readTail s : State × R Frame).2 = .ready (.ok f) →
        ∃ s0 rest, Steps s s0 ∧ s0.inq = .frame f :: rest ∧
          (match readFlush s1 sid with
          | (s, some r) => (s, r)
          | (s, none) => readTail s : State × R Frame).1 = { s0 with inq := rest }) ∧
      ((∀ f, (match readFlush s1 sid with
          | (s, some r) => (s, r)
          | (s, none) => readTail s : State × R Frame).2 ≠ .ready (.ok f)) →
        Steps s (match readFlush s1 sid with
          | (s, some r) => (s, r)
          | (s, none) => readTail s : State × R Frame).1) := by
    have hf := readFlush_steps s1 sid
    have hnf := fun (hi : Inv s1) => (Inv_readFlush hi sid).2.2.2
    rcases hrf : readFlush s1 sid with ⟨s2, o⟩
    rw [hrf] at hf
    cases o with
    | some r0 =>
      simp only
      refine ⟨?_, fun _ => h.trans hf⟩
      intro f hr
      -- the flush step never yields a frame
      exfalso
      unfold readFlush at hrf
      split at hrf
      · split at hrf
        · rcases hpf : pollFlush s1 with ⟨s3, r3⟩
          rw [hpf] at hrf
          cases r3 with
          | pending => simp at hrf; rw [← hrf.2] at hr; simp at hr
          | ready e => cases e with
            | error k => simp at hrf; rw [← hrf.2] at hr; simp at hr
            | ok u => simp at hrf
        · simp at hrf
      · simp at hrf
    | none =>
      simp only
      have ht := readTail_view s2
      refine ⟨?_, fun hne => (h.trans hf).trans (ht.2 hne)⟩
      intro f hr
      obtain ⟨rest, h1, h2⟩ := ht.1 f hr
      exact ⟨s2, rest, h.trans hf, h1, h2⟩
  cases r with
  | pending => exact rest
  | ready e =>
    cases e with
    | error k => exact ⟨by simp, fun _ => h⟩
    | ok u => exact rest

/-! ### handlers, as one event from the state that still has the frame at the head of its queue -/

theorem inFrames_cons {s0 : State} {f : Frame} {rest : List InItem} (h : s0.inq = .frame f :: rest) :
    inFrames s0 = f :: inFrames ({ s0 with inq := rest } : State) := by
  simp [inFrames, h, itemFrame]

theorem onOpen_micro {s0 : State} {rid : Sid} {rest : List InItem} (h : s0.inq = .frame (.opn rid) :: rest) :
    Micro s0 (onOpen { s0 with inq := rest } rid).1 := by
  have hi := inFrames_cons h
  unfold onOpen
  simp only
  split
  · exact .fail rfl rfl (.inr ⟨.opn rid, by rw [hi]; simp [inFrames, onError]⟩) rfl rfl (entOf_nil (by simp [onError]))
  · rename_i hnone
    have h0 : entOf s0 rid.mirror = none := by
      have : (({ s0 with inq := rest } : State).get rid.mirror) = s0.get rid.mirror := rfl
      rw [this] at hnone
      unfold entOf
      cases hg : s0.get rid.mirror with
      | none => rfl
      | some x => rw [hg] at hnone; simp at hnone
    split
    · by_cases hge : s0.pendQ.length ≥ s0.cfg.maxSubs + EXTRA_PENDING_FRAMES
      · simp only [checkMaxPending, hge, ↓reduceIte]
        exact .fail rfl rfl (.inr ⟨.opn rid, by rw [hi]; simp [inFrames, onError]⟩) rfl rfl (entOf_nil (by simp [onError]))
      · simp only [checkMaxPending, hge, ↓reduceIte]
        exact .openRefuse rid rfl rfl hi rfl rfl h0 (fun _ => rfl)
    · refine .openAccept rid rfl rfl hi rfl rfl h0 ?_ ?_
      · rw [entOf_put]; simp [SS.recvOpen]
      · intro j hj
        rw [entOf_put]
        have : ¬ (rid.mirror = j) := fun e => hj e.symm
        simp only [this, ↓reduceIte]
        rfl

theorem closeReset_ent (s : State) (id : Sid) (x : Sub) (st' : SS) (hx : s.get id = some x)
    (hro : st'.recvOpen = false) :
    entOf (s.put { x with st := st' }) id = (entOf s id).map (fun e => { e with ro := false }) ∧
    ∀ j, j ≠ id → entOf (s.put { x with st := st' }) j = entOf s j := by
  have hid : x.id = id := (getSub_mem hx).2
  constructor
  · rw [entOf_put]; simp [hid, entOf, hx, hro]
  · intro j hj
    rw [entOf_put]
    have : ¬ (x.id = j) := by rw [hid]; exact fun e => hj e.symm
    simp [this]

theorem map_ro_false_of {s : State} {id : Sid} {x : Sub} (hx : s.get id = some x) (h : x.st.recvOpen = false) :
    entOf s id = (entOf s id).map (fun e => { e with ro := false }) := by
  simp [entOf, hx, h]

theorem onClose_micro {s0 : State} {rid : Sid} {rest : List InItem} (h : s0.inq = .frame (.close rid) :: rest) :
    Micro s0 (onClose { s0 with inq := rest } rid.mirror) := by
  have hi := inFrames_cons h
  have mk : ∀ s' : State, s'.cfg = s0.cfg → s'.nextId = s0.nextId → inFrames s' = inFrames ({ s0 with inq := rest } : State) →
      s'.pendQ = s0.pendQ → s'.emitted = s0.emitted →
      entOf s' rid.mirror = (entOf s0 rid.mirror).map (fun e => { e with ro := false }) →
      (∀ j, j ≠ rid.mirror → entOf s' j = entOf s0 j) → Micro s0 s' :=
    fun s' a b c d e f g => .closeReset (.close rid) rid (.inl rfl) a b (by rw [hi, c]) d e f g
  unfold onClose
  split
  · rename_i hn
    exact mk _ rfl rfl rfl rfl rfl (by
      have : entOf s0 rid.mirror = none := by unfold entOf; rw [show s0.get rid.mirror = _ from hn]; rfl
      rw [show entOf ({ s0 with inq := rest } : State) rid.mirror = entOf s0 rid.mirror from rfl, this]; rfl)
      (fun _ _ => rfl)
  · rename_i x hx
    have hx0 : s0.get rid.mirror = some x := hx
    split
    · rename_i hst
      exact mk _ rfl rfl rfl rfl rfl (map_ro_false_of hx0 (by simp [hst, SS.recvOpen])) (fun _ _ => rfl)
    · rename_i hst
      exact mk _ rfl rfl rfl rfl rfl (map_ro_false_of hx0 (by simp [hst, SS.recvOpen])) (fun _ _ => rfl)
    · rename_i hst
      exact mk _ rfl rfl rfl rfl rfl (map_ro_false_of hx0 (by simp [hst, SS.recvOpen])) (fun _ _ => rfl)
    · have := closeReset_ent ({ s0 with inq := rest } : State) rid.mirror x .closed hx (by simp [SS.recvOpen])
      exact mk _ rfl rfl rfl rfl rfl this.1 this.2
    · have := closeReset_ent ({ s0 with inq := rest } : State) rid.mirror x .recvClosed hx (by simp [SS.recvOpen])
      exact mk _ rfl rfl rfl rfl rfl this.1 this.2

theorem onReset_micro {s0 : State} {rid : Sid} {rest : List InItem} (h : s0.inq = .frame (.reset rid) :: rest) :
    Micro s0 (onReset { s0 with inq := rest } rid.mirror) := by
  have hi := inFrames_cons h
  have mk : ∀ s' : State, s'.cfg = s0.cfg → s'.nextId = s0.nextId → inFrames s' = inFrames ({ s0 with inq := rest } : State) →
      s'.pendQ = s0.pendQ → s'.emitted = s0.emitted →
      entOf s' rid.mirror = (entOf s0 rid.mirror).map (fun e => { e with ro := false }) →
      (∀ j, j ≠ rid.mirror → entOf s' j = entOf s0 j) → Micro s0 s' :=
    fun s' a b c d e f g => .closeReset (.reset rid) rid (.inr rfl) a b (by rw [hi, c]) d e f g
  unfold onReset
  split
  · rename_i hn
    exact mk _ rfl rfl rfl rfl rfl (by
      have : entOf s0 rid.mirror = none := by unfold entOf; rw [show s0.get rid.mirror = _ from hn]; rfl
      rw [show entOf ({ s0 with inq := rest } : State) rid.mirror = entOf s0 rid.mirror from rfl, this]; rfl)
      (fun _ _ => rfl)
  · rename_i x hx
    have hx0 : s0.get rid.mirror = some x := hx
    have hid : x.id = rid.mirror := (getSub_mem hx).2
    split
    · rename_i hst
      -- re-inserting the same entry
      have := closeReset_ent ({ s0 with inq := rest } : State) rid.mirror x .closed hx (by simp [SS.recvOpen])
      have e : ({ x with st := SS.closed } : Sub) = x := by cases x; simp_all
      rw [e] at this
      exact mk _ rfl rfl rfl rfl rfl this.1 this.2
    · rename_i hst
      have := closeReset_ent ({ s0 with inq := rest } : State) rid.mirror x .reset hx (by simp [SS.recvOpen])
      have e : ({ x with st := SS.reset } : Sub) = x := by cases x; simp_all
      rw [e] at this
      exact mk _ rfl rfl rfl rfl rfl this.1 this.2
    · have := closeReset_ent ({ s0 with inq := rest } : State) rid.mirror x .reset hx (by simp [SS.recvOpen])
      exact mk _ rfl rfl rfl rfl rfl this.1 this.2

end C26
