import Libp2pModel.Proofs.C24Sys5
/-!
# C24 — the two-endpoint system and the end-to-end theorem

Two mplex endpoints `a`, `b`; the connection `a → b` is `a.s.wire` (written, not yet delivered)
followed, on the other side, by `b.s.inq`; a delivery moves the `k` oldest written frames across
(C25's split independence lets the connection be treated at frame granularity).  Any interleaving
of endpoint operations and deliveries in both directions is a schedule.
-/
namespace C24
open C26
open C25 (Sid Role Frame)

/-- two endpoints and the frames in flight -/
structure Sys where
  a : MState
  b : MState

inductive SysOp
  | atA (op : Op)
  | atB (op : Op)
  | deliverAB (k : Nat)     -- the connection hands the next `k` frames written by A to B
  | deliverBA (k : Nat)

def sysStep (y : Sys) : SysOp → Sys
  | .atA op => { y with a := (step y.a op).1 }
  | .atB op => { y with b := (step y.b op).1 }
  | .deliverAB k =>
    { a := { y.a with s := { y.a.s with wire := y.a.s.wire.drop k } },
      b := { y.b with s := { y.b.s with inq := y.b.s.inq ++ (y.a.s.wire.take k).map .frame } } }
  | .deliverBA k =>
    { b := { y.b with s := { y.b.s with wire := y.b.s.wire.drop k } },
      a := { y.a with s := { y.a.s with inq := y.a.s.inq ++ (y.b.s.wire.take k).map .frame } } }

def harmless : SysOp → Bool
  | .atA (.drop _) | .atB (.drop _) | .atA .closeConn | .atB .closeConn
  | .atA (.wire _) | .atB (.wire _) => false
  | _ => true

/-- a fresh endpoint -/
def fresh (c : Cfg) : MState := { s := { cfg := c } }

/-- the invariant of the whole system -/
structure SysInv (y : Sys) : Prop where
  full : Full y.a.s y.b.s
  ia : Inv y.a.s
  ib : Inv y.b.s
  ba : y.a.s.cfg.block = true
  bb : y.b.s.cfg.block = true

theorem dir_fresh (ca cb : Cfg) : DirInv (fresh ca).s (fresh cb).s := by
  have hc : chan (fresh ca).s (fresh cb).s = [] := rfl
  have hc2 : chan (fresh cb).s (fresh ca).s = [] := rfl
  have he : ∀ (c : Cfg) id, entOf (fresh c).s id = none := fun _ _ => rfl
  refine { k0 := ?_, k1 := ?_, k2 := ?_, k3 := ?_, k4 := ?_, k5 := ?_, k6 := ?_, k7 := ?_, k8 := ?_, k9 := ?_, k10 := ?_ }
  · intro id hid; rw [hc] at hid; cases hid
  · intro f hf; rw [hc] at hf; cases hf
  · intro id e he'; rw [he] at he'; cases he'
  · rw [hc]; trivial
  · intro id hid; rw [hc] at hid; cases hid
  · intro i ex ey hx; rw [he] at hx; cases hx
  · intro id hid; rw [hc2] at hid; cases hid
  · intro id hid; rw [hc] at hid; cases hid
  · intro f hf; rw [hc] at hf; cases hf
  · intro f hf; cases hf
  · intro id e he'; rw [he] at he'; cases he'

theorem sysInv_fresh (ca cb : Cfg) (ha : ca.block = true) (hb : cb.block = true) :
    SysInv { a := fresh ca, b := fresh cb } :=
  { full := ⟨dir_fresh ca cb, dir_fresh cb ca⟩
    ia := by simp [C26.Inv, fresh]
    ib := by simp [C26.Inv, fresh]
    ba := ha
    bb := hb }

/-- `DirInv` only looks at the two channels, the pending queue, the counters and the entries -/
theorem dir_congr {X Y X' Y' : State} (h : DirInv X Y) (c1 : chan X' Y' = chan X Y) (c2 : chan Y' X' = chan Y X)
    (hp : X'.pendQ = X.pendQ) (n1 : X'.nextId = X.nextId) (n2 : Y'.nextId = Y.nextId)
    (e1 : ∀ id, entOf X' id = entOf X id) (e2 : ∀ id, entOf Y' id = entOf Y id) : DirInv X' Y' := by
  refine { k0 := ?_, k1 := ?_, k2 := ?_, k3 := ?_, k4 := ?_, k5 := ?_, k6 := ?_, k7 := ?_, k8 := ?_, k9 := ?_, k10 := ?_ }
  · rw [c1]; exact h.k0
  · rw [c1, hp, n1]; exact h.k1
  · intro id e he; rw [e2] at he; rw [n1]; exact h.k2 id e he
  · rw [c1]; exact h.k3
  · intro id hid e he; rw [c1] at hid ⊢; rw [e1] at he; exact h.k4 id hid e he
  · intro i ex ey hx hy; rw [e1] at hx; rw [e2] at hy; rw [c1]; exact h.k5 i ex ey hx hy
  · intro id hid
    rw [c2] at hid
    have := h.k6 id hid
    rw [c1, hp]
    exact ⟨this.1, fun e he => this.2 e (by rw [← e2]; exact he)⟩
  · intro id hid; rw [c1] at hid; rw [e2]; exact h.k7 id hid
  · rw [c1, hp, n2]; exact h.k8
  · rw [hp]; exact h.k9
  · intro id e he; rw [e1] at he; rw [n1]; exact h.k10 id e he

theorem inFrames_append_frames (s : State) (l : List Frame) :
    inFrames ({ s with inq := s.inq ++ l.map .frame } : State) = inFrames s ++ l := by
  unfold inFrames
  simp only [List.filterMap_append]
  congr 1
  induction l with
  | nil => rfl
  | cons f fs ih => simp [itemFrame, ih]

/-- a delivery changes nothing the invariant looks at -/
theorem full_deliver {X Y : State} (h : Full X Y) (k : Nat) :
    Full ({ X with wire := X.wire.drop k } : State)
      ({ Y with inq := Y.inq ++ (X.wire.take k).map .frame } : State) := by
  have c1 : chan ({ X with wire := X.wire.drop k } : State)
      ({ Y with inq := Y.inq ++ (X.wire.take k).map .frame } : State) = chan X Y := by
    unfold chan
    rw [inFrames_append_frames]
    simp [State.emitted, List.append_assoc]
    rw [← List.append_assoc (List.take k X.wire), List.take_append_drop]
  have c2 : chan ({ Y with inq := Y.inq ++ (X.wire.take k).map .frame } : State)
      ({ X with wire := X.wire.drop k } : State) = chan Y X := rfl
  exact ⟨dir_congr h.xy c1 c2 rfl rfl rfl (fun _ => rfl) (fun _ => rfl),
    dir_congr h.yx c2 c1 rfl rfl rfl (fun _ => rfl) (fun _ => rfl)⟩

theorem harmless_atA {op : Op} (h : harmless (.atA op) = true) : op.harmless = true := by
  cases op <;> simp_all [harmless, Op.harmless]

theorem harmless_atB {op : Op} (h : harmless (.atB op) = true) : op.harmless = true := by
  cases op <;> simp_all [harmless, Op.harmless]

/-- **Every transition of the system preserves the invariant.** -/
theorem sysInv_step (y : Sys) (o : SysOp) (h : SysInv y) (ho : harmless o = true) : SysInv (sysStep y o) := by
  cases o with
  | atA op =>
    have hop := harmless_atA ho
    have hs := step_steps y.a op hop h.ia h.ba
    exact { full := full_steps h.full hs
            ia := Inv_step y.a op h.ia
            ib := h.ib
            ba := by show (step y.a op).1.s.cfg.block = true; rw [step_cfg y.a op h.ia]; exact h.ba
            bb := h.bb }
  | atB op =>
    have hop := harmless_atB ho
    have hs := step_steps y.b op hop h.ib h.bb
    exact { full := (full_steps h.full.symm hs).symm
            ia := h.ia
            ib := Inv_step y.b op h.ib
            ba := h.ba
            bb := by show (step y.b op).1.s.cfg.block = true; rw [step_cfg y.b op h.ib]; exact h.bb }
  | deliverAB k =>
    exact { full := full_deliver h.full k
            ia := Inv_congr h.ia rfl rfl rfl rfl
            ib := Inv_congr h.ib rfl rfl rfl rfl
            ba := h.ba
            bb := h.bb }
  | deliverBA k =>
    exact { full := (full_deliver h.full.symm k).symm
            ia := Inv_congr h.ia rfl rfl rfl rfl
            ib := Inv_congr h.ib rfl rfl rfl rfl
            ba := h.ba
            bb := h.bb }

/-- the invariant holds after every schedule -/
theorem sysInv_run : ∀ (ops : List SysOp) (y : Sys), SysInv y → ops.all harmless = true →
    SysInv (ops.foldl sysStep y) := by
  intro ops
  induction ops with
  | nil => intro y h _; exact h
  | cons o os ih =>
    intro y h ho
    simp only [List.all_cons, Bool.and_eq_true] at ho
    exact ih _ (sysInv_step y o h ho.1) ho.2

theorem flatten_prefix {a b : List (List Nat)} (h : a <+: b) : a.flatten <+: b.flatten := by
  obtain ⟨t, rfl⟩ := h
  rw [List.flatten_append]
  exact List.prefix_append _ _

/-- what the invariant says about one direction, in terms of the table entries -/
theorem SysInv.prefix_ab {y : Sys} (h : SysInv y) (id : Sid) (x z : Sub)
    (hx : y.a.s.get id = some x) (hz : y.b.s.get id.mirror = some z) :
    z.dl.flatten <+: x.acc.flatten := by
  have h5 := h.full.xy.k5 id ⟨x.st.recvOpen, x.rx, x.acc⟩ ⟨z.st.recvOpen, z.rx, z.acc⟩
    (by simp [entOf, hx]) (by simp [entOf, hz])
  have hfifo : z.rx = z.dl ++ z.buf := ((h.ib.2.2 z (getSub_mem hz).1)).2.1
  have h1 : z.dl <+: z.rx := by rw [hfifo]; exact List.prefix_append _ _
  exact flatten_prefix (h1.trans h5.2)

end C24
