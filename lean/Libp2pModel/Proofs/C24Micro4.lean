import Libp2pModel.Proofs.C24Micro3
/-! refinement, part 4: the public methods and the driver step -/
namespace C26
open C25 (Sid Role Frame)

theorem pollNextStream_steps {s : State} (hi : Inv s) (hb : s.cfg.block = true) :
    Steps s (pollNextStream s).1 := by
  unfold pollNextStream
  split
  · exact .refl _
  · split
    · exact silent_of_fields rfl rfl rfl rfl rfl rfl
    · exact nextStreamLoop_steps _ s 0 hi hb

theorem pollOpenStream_steps (s : State) : Steps s (pollOpenStream s).1 := by
  unfold pollOpenStream
  split
  · exact .refl _
  · split
    · exact .refl _
    · have h := sinkReady_steps s
      have hc := sinkReady_core s
      have hn := sinkReady_nextId s
      have he := sinkReady_emitted s
      rcases hsr : sinkReady s with ⟨s1, b⟩
      rw [hsr] at h hc hn he
      cases b with
      | false => exact h
      | true =>
        simp only
        split
        · exact h
        · refine h.trans (.single (.emitOpen rfl rfl rfl rfl ?_ ?_ ?_))
          · simp [State.emitted, State.put]
          · show entOf (State.put _ _) _ = _
            rw [entOf_put]; simp [SS.recvOpen]
          · intro j hj
            show entOf (State.put _ _) j = _
            rw [entOf_put]
            have : ¬ ((⟨s1.nextId, .dialer⟩ : Sid) = j) := fun e => hj e.symm
            simp only [this, ↓reduceIte]
            rfl

theorem writeOpen_steps {s : State} {x : Sub} {id : Sid} (hx : s.get id = some x) (data : List Nat) :
    Steps s (writeOpen s x id data).1 := by
  have hid : x.id = id := (getSub_mem hx).2
  unfold writeOpen
  simp only
  have hv := sendFrame_view s (.data id (data.take (min data.length s.cfg.split)))
  rcases hsf : sendFrame s (.data id (data.take (min data.length s.cfg.split))) with ⟨s1, r⟩
  rw [hsf] at hv
  obtain ⟨hc, hn, hi, hok, hpend, herr⟩ := hv
  simp only at hc hn hi hok hpend herr
  cases r with
  | pending =>
    obtain ⟨h1, h2, h3⟩ := hpend rfl
    exact silent_of_fields hc hn hi h2 h3 h1
  | ready e =>
    cases e with
    | error k =>
      obtain ⟨h1, h2, h3⟩ := herr k rfl
      exact fail_of hc hn hi h2 h3 h1
    | ok u =>
      obtain ⟨h1, h2, h3⟩ := hok rfl
      have hent1 : ∀ j, entOf s1 j = entOf s j := by intro j; unfold entOf State.get; rw [h1]
      refine .single (.emitData id (data.take (min data.length s.cfg.split)) ⟨x.st.recvOpen, x.rx, x.acc⟩
        hc hn (by unfold inFrames; exact congrArg _ hi) h2 h3 (by simp [entOf, hx]) ?_ ?_)
      · rw [entOf_put]; simp [hid]
      · intro j hj
        rw [entOf_put]
        have : ¬ (x.id = j) := by rw [hid]; exact fun e => hj e.symm
        simp only [this, ↓reduceIte]
        exact hent1 j

theorem pollWriteStream_steps (s : State) (id : Sid) (data : List Nat) :
    Steps s (pollWriteStream s id data).1 := by
  unfold pollWriteStream
  split
  · exact .refl _
  · split
    · exact .refl _
    · rename_i x hx
      split <;> first | exact .refl _ | exact writeOpen_steps hx data

theorem readFromBuf_steps {s s' : State} {id : Sid} {d : List Nat} (h : readFromBuf s id = some (s', d)) :
    Steps s s' := by
  unfold readFromBuf at h
  cases hx : s.get id with
  | none => rw [hx] at h; simp at h
  | some x =>
    rw [hx] at h
    simp only at h
    have hid : x.id = id := (getSub_mem hx).2
    cases hb : x.buf with
    | nil => rw [hb] at h; simp at h
    | cons d0 rest =>
      rw [hb] at h
      simp only [Option.some.injEq, Prod.mk.injEq] at h
      rw [← h.1]
      have key : ∀ s0 : State, s0.subs = s.subs → ∀ j,
          entOf (s0.put { x with buf := rest, dl := x.dl ++ [d0] }) j = entOf s j := by
        intro s0 hs j
        rw [entOf_put]
        by_cases hj : x.id = j
        · simp only [hj, ↓reduceIte]
          rw [← hj, hid]; simp [entOf, hx]
        · simp only [hj, ↓reduceIte]
          unfold entOf State.get; rw [hs]
      split
      · exact .single (.silent rfl rfl rfl rfl rfl (key _ rfl))
      · exact .single (.silent rfl rfl rfl rfl rfl (key _ rfl))

theorem pollReadStream_steps {s : State} (hi : Inv s) (hb : s.cfg.block = true) (id : Sid) :
    Steps s (pollReadStream s id).1 := by
  unfold pollReadStream
  split
  · exact .refl _
  · split
    · rename_i s' d h; exact readFromBuf_steps h
    · exact readStreamLoop_steps _ s id 0 hi hb

theorem substreamRead_steps : ∀ (fuel : Nat) (s : State) (h : Handle) (n : Nat), Inv s → s.cfg.block = true →
    Steps s (substreamRead fuel s h n).1 := by
  intro fuel
  induction fuel with
  | zero => intro s h n _ _; exact .refl _
  | succ fuel ih =>
    intro s h n hi hb
    simp only [substreamRead]
    split
    · exact .refl _
    · have hr := Inv_pollReadStream hi h.id
      have hs := pollReadStream_steps hi hb h.id
      rcases hp : pollReadStream s h.id with ⟨s1, r⟩
      rw [hp] at hr hs
      cases r with
      | pending => exact hs
      | ready e =>
        cases e with
        | error k => exact hs
        | ok o =>
          cases o with
          | none => exact hs
          | some d => exact hs.trans (ih s1 _ n hr.1 (by rw [hr.2]; exact hb))

theorem pollFlushStream_steps (s : State) : Steps s (pollFlushStream s).1 := by
  unfold pollFlushStream
  split
  · exact .refl _
  · exact pollFlush_steps s

theorem closeOpen_steps {s : State} {x : Sub} {id : Sid} (hx : s.get id = some x)
    (hst : x.st = .opn ∨ x.st = .recvClosed) : Steps s (closeOpen s x id).1 := by
  have hid : x.id = id := (getSub_mem hx).2
  unfold closeOpen
  have hv := sendFrame_view (s.del id) (.close id)
  rcases hsf : sendFrame (s.del id) (.close id) with ⟨s1, r⟩
  rw [hsf] at hv
  obtain ⟨hc, hn, hi, hok, hpend, herr⟩ := hv
  simp only at hc hn hi hok hpend herr
  -- re-inserting an entry with the same id / readability / histories restores the view
  have back : ∀ (y : Sub), y.id = id → y.st.recvOpen = x.st.recvOpen → y.rx = x.rx → y.acc = x.acc →
      s1.subs = (s.del id).subs → ∀ j, entOf (s1.put y) j = entOf s j := by
    intro y hy h1 h2 h3 hs j
    rw [entOf_put]
    by_cases hj : y.id = j
    · simp only [hj, ↓reduceIte]
      rw [← hj, hy]; simp [entOf, hx, h1, h2, h3]
    · simp only [hj, ↓reduceIte]
      have hne : j ≠ id := fun e => hj (by rw [hy, e])
      unfold entOf State.get; rw [hs]
      show (getSub (removeSub s.subs id) j).map _ = _
      rw [getSub_removeSub_ne _ _ _ hne]
  cases r with
  | pending =>
    obtain ⟨h1, h2, h3⟩ := hpend rfl
    exact .single (.silent hc hn (by unfold inFrames; exact congrArg _ hi) h2 h3 (back x hid rfl rfl rfl h1))
  | ready e =>
    cases e with
    | error k =>
      obtain ⟨h1, h2, h3⟩ := herr k rfl
      exact fail_of hc hn hi h2 h3 h1
    | ok u =>
      obtain ⟨h1, h2, h3⟩ := hok rfl
      refine .single (.emitClose id hc hn (by unfold inFrames; exact congrArg _ hi) h2 h3 (by simp [entOf, hx]) ?_)
      refine back _ hid ?_ rfl rfl h1
      rcases hst with hst | hst <;> simp [hst, SS.recvOpen]

theorem pollCloseStream_steps (s : State) (id : Sid) : Steps s (pollCloseStream s id).1 := by
  unfold pollCloseStream
  split
  · exact .refl _
  · split
    · exact .refl _
    · rename_i x hx
      split
      · exact .refl _
      · exact .refl _
      · exact .refl _
      · rename_i hst; exact closeOpen_steps hx (.inl hst)
      · rename_i hst; exact closeOpen_steps hx (.inr hst)

theorem substreamClose_steps (s : State) (id : Sid) : Steps s (substreamClose s id).1 := by
  unfold substreamClose
  have h := pollCloseStream_steps s id
  rcases hp : pollCloseStream s id with ⟨s1, r⟩
  rw [hp] at h
  cases r with
  | pending => exact h
  | ready e =>
    cases e with
    | error k => exact h
    | ok u => exact h.trans (pollFlushStream_steps s1)

/-- the operations the end-to-end theorem quantifies over -/
def Op.harmless : Op → Bool
  | .drop _ | .closeConn | .wire _ => false
  | _ => true

/-- **Refinement**: every (harmless) driver operation of an endpoint in `Block` mode is a finite
sequence of atomic frame events. -/
theorem step_steps (m : MState) (op : Op) (hop : op.harmless = true) (hi : Inv m.s)
    (hb : m.s.cfg.block = true) : Steps m.s (step m op).1.s := by
  cases op with
  | wire items => simp [Op.harmless] at hop
  | drop id => simp [Op.harmless] at hop
  | closeConn => simp [Op.harmless] at hop
  | wblock b => exact silent_of_fields rfl rfl rfl rfl rfl rfl
  | inbound =>
    simp only [step]
    have := pollNextStream_steps hi hb
    rcases hp : pollNextStream m.s with ⟨s1, r⟩
    rw [hp] at this
    cases r with
    | pending => exact this
    | ready e => cases e <;> exact this
  | outbound =>
    simp only [step]
    have := pollOpenStream_steps m.s
    rcases hp : pollOpenStream m.s with ⟨s1, r⟩
    rw [hp] at this
    cases r with
    | pending => exact this
    | ready e => cases e <;> exact this
  | read id n => simp only [step]; exact substreamRead_steps _ m.s _ n hi hb
  | write id d => simp only [step]; exact pollWriteStream_steps _ _ _
  | flush id => simp only [step]; exact pollFlushStream_steps _
  | close id => simp only [step]; exact substreamClose_steps _ _

end C26
