import Libp2pModel.Proofs.C25Drain
namespace C25

theorem accum_eq (acc k i : Nat) (ha : acc < 2 ^ (7 * i)) (hk : k * 2 ^ (7 * i) < U64) :
    accum acc k i = acc + k * 2 ^ (7 * i) := by
  unfold accum
  rw [Nat.shiftLeft_eq, Nat.mod_eq_of_lt hk, Nat.or_comm, ← Nat.shiftLeft_eq,
    ← Nat.shiftLeft_add_eq_or_of_lt ha, Nat.shiftLeft_eq, Nat.add_comm]

theorem uviGo_encode (rest : List Nat) (m : Nat) : ∀ (i acc : Nat),
    i ≤ 9 → acc < 2 ^ (7 * i) → m * 2 ^ (7 * i) < U64 → (0 < i → 0 < m) →
    uviGo i acc (Varint.encode m ++ rest) = .ok (acc + m * 2 ^ (7 * i)) rest := by
  fun_induction Varint.encode m with
  | case1 m hm =>
    intro i acc hi ha hk hpos
    have h7 : ¬ 64 ≤ 7 * i := by omega
    have hnm : ¬ (m = 0 ∧ 0 < i) := by intro ⟨h1, h2⟩; have := hpos h2; omega
    simp only [List.cons_append, List.nil_append, uviGo, h7, ↓reduceIte, hm, hnm,
      Nat.mod_eq_of_lt hm]
    rw [accum_eq acc m i ha hk]
  | case2 m hm ih =>
    intro i acc hi ha hk hpos
    have hP : 0 < 2 ^ (7 * i) := Nat.pow_pos (by omega)
    -- m ≥ 128 forces i ≤ 8
    have hi8 : i ≠ 9 := by
      intro h9; subst h9
      have h2 : (2 : Nat) ^ (7 * 9) = 9223372036854775808 := by decide
      rw [h2] at hk
      unfold U64 at hk
      omega
    have h7 : ¬ 64 ≤ 7 * i := by omega
    have hb : ¬ (m % 128 + 128 < 128) := by omega
    have hmod : (m % 128 + 128) % 128 = m % 128 := by omega
    simp only [List.cons_append, uviGo, h7, ↓reduceIte, hb, hi8, hmod]
    have hpow : 2 ^ (7 * (i + 1)) = 128 * 2 ^ (7 * i) := by
      rw [Nat.mul_add, Nat.pow_add]; simp [Nat.mul_comm]
    have hsplit : m * 2 ^ (7 * i) = (m % 128) * 2 ^ (7 * i) + (m / 128) * (128 * 2 ^ (7 * i)) := by
      conv => lhs; rw [← Nat.div_add_mod m 128]
      rw [Nat.add_mul, Nat.add_comm, Nat.mul_comm 128 (m / 128), Nat.mul_assoc]
    have hk1 : (m % 128) * 2 ^ (7 * i) < U64 := by
      have : (m % 128) * 2 ^ (7 * i) ≤ m * 2 ^ (7 * i) := Nat.mul_le_mul_right _ (Nat.mod_le _ _)
      omega
    rw [accum_eq acc (m % 128) i ha hk1]
    have hacc' : acc + m % 128 * 2 ^ (7 * i) < 2 ^ (7 * (i + 1)) := by
      rw [hpow]
      have : m % 128 * 2 ^ (7 * i) ≤ 127 * 2 ^ (7 * i) := Nat.mul_le_mul_right _ (by omega)
      omega
    have hk' : m / 128 * 2 ^ (7 * (i + 1)) < U64 := by
      rw [hpow]; omega
    rw [ih (i + 1) _ (by omega) hacc' hk' (by intro _; omega), hpow, hsplit]
    simp [Nat.add_assoc]

/-- the crate's `u64` varint decoder inverts LEB128 on the whole `u64` range -/
theorem uvi64_encode (n : Nat) (hn : n < U64) (rest : List Nat) :
    uvi64 (Varint.encode n ++ rest) = .ok n rest := by
  have := uviGo_encode rest n 0 0 (by omega) (by simp) (by simpa using hn) (by omega)
  simpa [uvi64] using this

end C25
