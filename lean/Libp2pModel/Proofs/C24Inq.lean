import Libp2pModel.Proofs.C26Cfg
namespace C26
open C25 (Sid Role Frame)

/-! ### the inbound queue is only ever consumed from the front, one item per `poll_read_frame` -/

theorem sinkReady_inq (s : State) : (sinkReady s).1.inq = s.inq := (sinkReady_core s).2.2.2.2.1

theorem sendFrame_inq (s : State) (f : Frame) : (sendFrame s f).1.inq = s.inq := by
  unfold sendFrame
  have h := sinkReady_inq s
  rcases hsr : sinkReady s with ⟨s1, b⟩
  rw [hsr] at h
  cases b with
  | false => exact h
  | true =>
    simp only
    split
    · simp [onError]; exact h
    · exact h

theorem sendPendingGo_inq : ∀ (l : List Frame) (s : State), (sendPendingGo s l).1.inq = s.inq := by
  intro l
  induction l with
  | nil => intro s; rfl
  | cons f rest ih =>
    intro s
    simp only [sendPendingGo]
    have h := sendFrame_inq { s with pendQ := rest } f
    rcases hsf : sendFrame { s with pendQ := rest } f with ⟨s', r⟩
    rw [hsf] at h
    simp only at h
    cases r with
    | pending => exact h
    | ready e =>
      cases e with
      | error k => exact h
      | ok u => rw [ih s', h]

theorem pollFlush_inq (s : State) : (pollFlush s).1.inq = s.inq := by
  unfold pollFlush
  split
  · rfl
  · rfl
  · have h := sendPendingGo_inq s.pendQ s
    unfold sendPending
    rcases hsp : sendPendingGo s s.pendQ with ⟨s1, r⟩
    rw [hsp] at h
    simp only at h
    cases r with
    | pending => exact h
    | ready e =>
      cases e with
      | error k => exact h
      | ok u =>
        simp only
        split
        · exact h
        · exact h

theorem readFlush_inq (s : State) (sid : Option Sid) : (readFlush s sid).1.inq = s.inq := by
  unfold readFlush
  split
  · split
    · have hp := pollFlush_inq s
      rcases hpf : pollFlush s with ⟨s2, r2⟩
      rw [hpf] at hp
      cases r2 with
      | pending => exact hp
      | ready e => cases e with
        | error k => exact hp
        | ok u => exact hp
    · rfl
  · rfl

/-- a frame returned by `poll_read_frame` was the head of the inbound queue, and the rest stays -/
theorem readFrame_inq (s : State) (sid : Option Sid) :
    (∀ f, (readFrame s sid).2 = .ready (.ok f) → s.inq = .frame f :: (readFrame s sid).1.inq) ∧
    (∃ pre, s.inq = pre ++ (readFrame s sid).1.inq) := by
  unfold readFrame
  have h := sendPendingGo_inq s.pendQ s
  unfold sendPending
  rcases hsp : sendPendingGo s s.pendQ with ⟨s1, r⟩
  rw [hsp] at h
  simp only at h
  have rest :
      (∀ f, (match readFlush s1 sid with
        | (s, some r) => (s, r)
        | (s, none) => readTail s : State × R Frame).2 = .ready (.ok f) →
        s.inq = .frame f :: (match readFlush s1 sid with
        | (s, some r) => (s, r)
        | (s, none) => readTail s : State × R Frame).1.inq) ∧
      (∃ pre, s.inq = pre ++ (match readFlush s1 sid with
        | (s, some r) => (s, r)
        | (s, none) => readTail s : State × R Frame).1.inq) := by
    have hf := readFlush_inq s1 sid
    have hfl := (Inv_readFlush (s := s1))
    rcases hrf : readFlush s1 sid with ⟨s2, o⟩
    rw [hrf] at hf
    simp only at hf
    cases o with
    | some r =>
      simp only
      refine ⟨?_, ⟨[], by simp [hf, h]⟩⟩
      intro f hr
      -- the flush step never yields a frame
      unfold readFlush at hrf
      split at hrf
      · split at hrf
        · rcases hpf : pollFlush s1 with ⟨s3, r3⟩
          rw [hpf] at hrf
          cases r3 with
          | pending => simp at hrf; rw [← hrf.2] at hr; simp at hr
          | ready e => cases e with
            | error k => simp at hrf; rw [← hrf.2] at hr; simp at hr
            | ok u => simp at hrf
        · simp at hrf
      · simp at hrf
    | none =>
      simp only
      unfold readTail
      split
      · exact ⟨by simp, ⟨[], by simp [hf, h]⟩⟩
      · split
        · exact ⟨by simp, ⟨[], by simp [hf, h]⟩⟩
        · rename_i f0 rest0 hq
          refine ⟨?_, ⟨[.frame f0], by simp [← h, ← hf, hq]⟩⟩
          intro f hr
          simp only [P.ready.injEq, Except.ok.injEq] at hr
          subst hr
          simp [← h, ← hf, hq]
        · rename_i k0 rest0 hq
          exact ⟨by simp, ⟨[.bad k0], by simp [onError, ← h, ← hf, hq]⟩⟩
        · rename_i rest0 hq
          exact ⟨by simp, ⟨[.eof], by simp [onError, ← h, ← hf, hq]⟩⟩
  cases r with
  | pending => exact rest
  | ready e =>
    cases e with
    | error k => exact ⟨by simp, ⟨[], by simp [h]⟩⟩
    | ok u => exact rest

end C26
