import Libp2pModel.Proofs.C24Micro4
/-!
# C24 — the two-endpoint system: the directional invariant

`chan X Y` = the frames travelling from endpoint `X` to endpoint `Y`, oldest first: what waits in
`Y`'s inbound queue, then what `X` has written to the connection, then what is still in `X`'s sink.
`DirInv X Y` relates, for the direction `X → Y`, per substream: what `X`'s writes were reported to accept
(`acc`), the Data frames of that substream still in flight, and what `Y` has taken for it (`rx`).
-/
namespace C24
open C26
open C25 (Sid Role Frame)

/-- payloads of the Data frames of substream `i` in a frame sequence, in order -/
def dataOf (i : Sid) : List Frame → List (List Nat)
  | [] => []
  | .data j d :: fs => if j = i then d :: dataOf i fs else dataOf i fs
  | .opn _ :: fs => dataOf i fs
  | .close _ :: fs => dataOf i fs
  | .reset _ :: fs => dataOf i fs

theorem dataOf_append (i : Sid) (a b : List Frame) : dataOf i (a ++ b) = dataOf i a ++ dataOf i b := by
  induction a with
  | nil => rfl
  | cons f fs ih =>
    cases f with
    | data j d =>
      simp only [List.cons_append, dataOf]
      split <;> simp [ih]
    | opn j => simpa [dataOf] using ih
    | close j => simpa [dataOf] using ih
    | reset j => simpa [dataOf] using ih

theorem dataOf_nil_of (i : Sid) : ∀ (l : List Frame), (∀ f ∈ l, f.id ≠ i) → dataOf i l = [] := by
  intro l
  induction l with
  | nil => intro _; rfl
  | cons f fs ih =>
    intro h
    have h1 := ih (fun g hg => h g (List.mem_cons_of_mem _ hg))
    have h0 := h f List.mem_cons_self
    cases f with
    | data j d =>
      have : ¬ (j = i) := h0
      simp [dataOf, this, h1]
    | opn j => simpa [dataOf] using h1
    | close j => simpa [dataOf] using h1
    | reset j => simpa [dataOf] using h1

/-- dropping a head frame that is not a Data frame of `i` -/
theorem dataOf_cons_ne (i : Sid) (f : Frame) (fs : List Frame) (h : ∀ d, f ≠ .data i d) :
    dataOf i (f :: fs) = dataOf i fs := by
  cases f with
  | data j d =>
    have : ¬ (j = i) := fun e => h d (by rw [e])
    simp [dataOf, this]
  | opn j => rfl
  | close j => rfl
  | reset j => rfl

theorem dataOf_cons_eq (i : Sid) (d : List Nat) (fs : List Frame) :
    dataOf i (.data i d :: fs) = d :: dataOf i fs := by simp [dataOf]

/-- no frame is followed by an `Open` for its own substream id -/
def OrdOK : List Frame → Prop
  | [] => True
  | f :: fs => (∀ id, Frame.opn id ∈ fs → f.id ≠ id) ∧ OrdOK fs

theorem OrdOK_snoc : ∀ (l : List Frame) (g : Frame), OrdOK l → (∀ id, g = .opn id → ∀ f ∈ l, f.id ≠ id) →
    OrdOK (l ++ [g]) := by
  intro l
  induction l with
  | nil => intro g _ _; simp [OrdOK]
  | cons f fs ih =>
    intro g h hg
    refine ⟨?_, ih g h.2 (fun id e f' hf' => hg id e f' (List.mem_cons_of_mem _ hf'))⟩
    intro id hid
    rcases List.mem_append.1 hid with h1 | h1
    · exact h.1 id h1
    · simp only [List.mem_singleton] at h1
      exact hg id h1.symm f List.mem_cons_self

theorem mirror_mirror (i : Sid) : i.mirror.mirror = i := by
  cases i with
  | mk n r => cases r <;> rfl

theorem mirror_inj {i j : Sid} (h : i.mirror = j.mirror) : i = j := by
  rw [← mirror_mirror i, h, mirror_mirror]

theorem mirror_role_dialer {i : Sid} (h : i.role = .dialer) : i.mirror.role = .listener := by
  cases i with
  | mk n r => simp at h; subst h; rfl

theorem mirror_role_listener {i : Sid} (h : i.role = .listener) : i.mirror.role = .dialer := by
  cases i with
  | mk n r => simp at h; subst h; rfl

theorem mirror_num (i : Sid) : i.mirror.num = i.num := rfl

/-- frames travelling from `X` to `Y`, oldest first -/
def chan (X Y : State) : List Frame := inFrames Y ++ X.emitted

/-- the directional invariant (`X` emits, `Y` receives) -/
structure DirInv (X Y : State) : Prop where
  /-- `Open` frames carry the initiator role -/
  k0 : ∀ id, Frame.opn id ∈ chan X Y → id.role = .dialer
  /-- initiator-side ids on the way are below `X`'s counter -/
  k1 : ∀ f, f ∈ chan X Y ++ X.pendQ → f.id.role = .dialer → f.id.num < X.nextId
  /-- substreams `Y` accepted from `X` are below `X`'s counter -/
  k2 : ∀ id e, entOf Y id = some e → id.role = .listener → id.num < X.nextId
  k3 : OrdOK (chan X Y)
  /-- while its `Open` is on the way, everything `X` accepted for a substream is still on the way -/
  k4 : ∀ id, Frame.opn id ∈ chan X Y → ∀ e, entOf X id = some e → e.acc = dataOf id (chan X Y)
  /-- **the accounting**: accepted by `X` = taken by `Y` ++ in flight (while `Y` reads), and always
  taken-by-`Y` is a prefix of accepted-by-`X` -/
  k5 : ∀ i ex ey, entOf X i = some ex → entOf Y i.mirror = some ey →
        (ey.ro = true → ex.acc = ey.rx ++ dataOf i (chan X Y)) ∧ ey.rx <+: ex.acc
  /-- while `Y`'s `Open` is on its way to `X`, nothing for that substream travels `X → Y` -/
  k6 : ∀ id, Frame.opn id ∈ chan Y X →
        (∀ f, f ∈ chan X Y ++ X.pendQ → f.id ≠ id.mirror) ∧ (∀ e, entOf Y id = some e → e.rx = [])
  /-- `Y` has no entry for an `Open` that is still on the way -/
  k7 : ∀ id, Frame.opn id ∈ chan X Y → entOf Y id.mirror = none
  /-- responder-side ids on the way are below `Y`'s counter -/
  k8 : ∀ f, f ∈ chan X Y ++ X.pendQ → f.id.role = .listener → f.id.num < Y.nextId
  /-- only `Reset` frames wait in the pending queue -/
  k9 : ∀ f, f ∈ X.pendQ → ∃ id, f = .reset id
  /-- `X`'s own initiator-side substreams are below its counter -/
  k10 : ∀ id e, entOf X id = some e → id.role = .dialer → id.num < X.nextId

/-- both directions -/
structure Full (X Y : State) : Prop where
  xy : DirInv X Y
  yx : DirInv Y X

theorem Full.symm {X Y : State} (h : Full X Y) : Full Y X := ⟨h.yx, h.xy⟩

end C24
