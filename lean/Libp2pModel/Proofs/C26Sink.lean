import Libp2pModel.Proofs.C26Inv
namespace C26
open C25 (Sid Role Frame)

theorem Inv_checkMaxPending {s : State} (hi : Inv s) :
    Inv (checkMaxPending s).1 ∧
    ((checkMaxPending s).2 = .ok () → (checkMaxPending s).1 = s ∧ s.pendQ.length < s.cfg.maxSubs + EXTRA_PENDING_FRAMES) := by
  unfold checkMaxPending
  split
  · exact ⟨Inv_onError _ _, by simp⟩
  · exact ⟨hi, fun _ => ⟨rfl, by omega⟩⟩

theorem Inv_push_pend {s : State} (hi : Inv s) (hlt : s.pendQ.length < s.cfg.maxSubs + EXTRA_PENDING_FRAMES)
    (f : Frame) : Inv { s with pendQ := s.pendQ ++ [f] } := by
  obtain ⟨h1, h2, h3⟩ := hi
  refine ⟨h1, ?_, h3⟩
  simp; omega

theorem sinkReady_core (s : State) :
    (sinkReady s).1.cfg = s.cfg ∧ (sinkReady s).1.subs = s.subs ∧ (sinkReady s).1.pendQ = s.pendQ ∧
    (sinkReady s).1.blocking = s.blocking ∧ (sinkReady s).1.inq = s.inq ∧ (sinkReady s).1.status = s.status := by
  unfold sinkReady
  split
  · split <;> simp
  · simp

theorem Inv_sinkReady {s : State} (hi : Inv s) : Inv (sinkReady s).1 :=
  let h := sinkReady_core s
  Inv_congr hi h.1 h.2.1 h.2.2.1 h.2.2.2.1

theorem Inv_sendFrame {s : State} (hi : Inv s) (f : Frame) : Inv (sendFrame s f).1 := by
  unfold sendFrame
  have h := Inv_sinkReady hi
  rcases hsr : sinkReady s with ⟨s1, b⟩
  rw [hsr] at h
  cases b with
  | false => exact h
  | true =>
    simp only
    split
    · exact Inv_onError _ _
    · exact Inv_congr h rfl rfl rfl rfl

/-- `sendFrame` leaves `blocking`/`cfg` alone, and either keeps `subs`/`pendQ`/`inq` or fails the connection -/
theorem sendFrame_core (s : State) (f : Frame) :
    (sendFrame s f).1.cfg = s.cfg ∧ (sendFrame s f).1.blocking = s.blocking := by
  unfold sendFrame
  have h := sinkReady_core s
  rcases hsr : sinkReady s with ⟨s1, b⟩
  rw [hsr] at h
  cases b with
  | false => exact ⟨h.1, h.2.2.2.1⟩
  | true =>
    simp only
    split
    · simp only [onError]; exact ⟨h.1, h.2.2.2.1⟩
    · exact ⟨h.1, h.2.2.2.1⟩

theorem Inv_sendPendingGo : ∀ (l : List Frame) (s : State), Inv s →
    l.length ≤ s.cfg.maxSubs + EXTRA_PENDING_FRAMES →
    Inv (sendPendingGo s l).1 ∧ (sendPendingGo s l).1.cfg = s.cfg ∧ (sendPendingGo s l).1.blocking = s.blocking := by
  intro l
  induction l with
  | nil =>
    intro s hi _
    simp only [sendPendingGo]
    exact ⟨⟨hi.1, by simp, hi.2.2⟩, by simp⟩
  | cons f rest ih =>
    intro s hi hl
    simp only [sendPendingGo]
    have hi0 : Inv { s with pendQ := rest } := ⟨hi.1, by simp at hl ⊢; omega, hi.2.2⟩
    have h1 := Inv_sendFrame hi0 f
    have hc := sendFrame_core { s with pendQ := rest } f
    rcases hsf : sendFrame { s with pendQ := rest } f with ⟨s', r⟩
    rw [hsf] at h1 hc
    simp only at hc
    cases r with
    | pending =>
      simp only
      refine ⟨⟨h1.1, ?_, h1.2.2⟩, hc.1, hc.2⟩
      simp only [hc.1]; exact hl
    | ready e =>
      cases e with
      | error k => exact ⟨h1, hc.1, hc.2⟩
      | ok u =>
        have := ih s' h1 (by rw [hc.1]; simp at hl; omega)
        exact ⟨this.1, by rw [this.2.1, hc.1], by rw [this.2.2, hc.2]⟩

theorem Inv_sendPending {s : State} (hi : Inv s) :
    Inv (sendPending s).1 ∧ (sendPending s).1.cfg = s.cfg ∧ (sendPending s).1.blocking = s.blocking :=
  Inv_sendPendingGo s.pendQ s hi hi.2.1

theorem Inv_pollFlush {s : State} (hi : Inv s) :
    Inv (pollFlush s).1 ∧ (pollFlush s).1.cfg = s.cfg ∧ (pollFlush s).1.blocking = s.blocking := by
  unfold pollFlush
  split
  · exact ⟨hi, rfl, rfl⟩
  · exact ⟨hi, rfl, rfl⟩
  · have h := Inv_sendPending hi
    rcases hsp : sendPending s with ⟨s1, r⟩
    rw [hsp] at h
    simp only at h
    cases r with
    | pending => exact h
    | ready e =>
      cases e with
      | error k => exact h
      | ok u =>
        simp only
        split
        · exact h
        · exact ⟨Inv_congr h.1 rfl rfl rfl rfl, h.2.1, h.2.2⟩

theorem Inv_pollClose {s : State} (hi : Inv s) : Inv (pollClose s).1 := by
  unfold pollClose
  split
  · exact hi
  · exact hi
  · split
    · exact hi
    · simp [Inv]

end C26
