import Libp2pModel.Model.C14
import Libp2pModel.Props.C15
/-!
# C14 helper: byte level — a reader driven over the wire image of a message sequence consumes
exactly these frames (transparency of the read path)
-/
namespace C14
open Mss

/-- the automaton is not finished before the last of `ms` has been consumed, and is finished then -/
def ConsumesExactly {σ : Type} (step : σ → RdEv → σ × List Msg) (isDone : σ → Bool) : σ → List Msg → Prop
  | s, [] => isDone s = true
  | s, m :: ms => isDone s = false ∧ ConsumesExactly step isDone (step s (.msg m)).1 ms

/-- a message that goes through the `Sink` and comes back unchanged -/
def wireOk (m : Msg) : Prop := C15.valid m = true ∧ (encodeMsg m).length ≤ MAX_FRAME_SIZE

theorem wireOf_frame (m : Msg) (h : wireOk m) (rest : Bytes) :
    ∃ w, wireOf m = some w ∧ 0 < w.length ∧ frameDec (w ++ rest) = some (.data (encodeMsg m), rest) ∧
      frameEvent (.data (encodeMsg m)) = .msg m := by
  obtain ⟨pre, h1, h2, _, h4, h5⟩ := C15.frame_prefix m rest h.1 h.2
  refine ⟨pre ++ encodeMsg m, by simp [wireOf, h1], by simp; omega, h4, h5⟩

/-- **Exact consumption.** Reading the wire image of `ms` followed by ANY bytes `rest`, an
automaton that finishes exactly on the last message ends in the state the message-level run
gives, has sent the same messages, and has left `rest` untouched. -/
theorem runBytes_exact {σ : Type} (step : σ → RdEv → σ × List Msg) (isDone : σ → Bool) :
    ∀ (ms : List Msg) (s : σ) (rest : Bytes) (fuel : Nat),
      (∀ m ∈ ms, wireOk m) → ms.length < fuel → ConsumesExactly step isDone s ms →
      runBytes step isDone fuel s (wireOfAll ms ++ rest) =
        ((runSteps step s (ms.map .msg)).1, (runSteps step s (ms.map .msg)).2, rest) := by
  intro ms
  induction ms with
  | nil =>
    intro s rest fuel _ hf hc
    cases fuel with
    | zero => simp at hf
    | succ f =>
      simp only [ConsumesExactly] at hc
      simp [runBytes, hc, wireOfAll, runSteps]
  | cons m ms ih =>
    intro s rest fuel hw hf hc
    cases fuel with
    | zero => simp at hf
    | succ f =>
      obtain ⟨hnd, hc'⟩ := hc
      obtain ⟨w, hw1, _, hw3, hw4⟩ := wireOf_frame m (hw m (by simp)) (wireOfAll ms ++ rest)
      have hwire : wireOfAll (m :: ms) ++ rest = w ++ (wireOfAll ms ++ rest) := by
        simp [wireOfAll, hw1]
      rw [hwire, runBytes]
      simp only [hnd, Bool.false_eq_true, ↓reduceIte, hw3, hw4]
      rw [ih _ rest f (fun x hx => hw x (by simp [hx])) (by simp at hf; omega) hc']
      simp [runSteps]

end C14
