import Libp2pModel.Model.C32
/-!
# C32 — helper lemmas: sets, ring slots, `retain`, the ring-consistency invariant
-/
namespace C32

theorem mem_setInsert (l : List Key) (k x : Key) : x ∈ setInsert l k ↔ x ∈ l ∨ x = k := by
  unfold setInsert
  by_cases h : k ∈ l
  · simp only [h, ↓reduceIte]
    constructor
    · intro hx; exact Or.inl hx
    · rintro (hx | rfl)
      · exact hx
      · exact h
  · simp [h]

theorem mem_setRemove (l : List Key) (k x : Key) : x ∈ setRemove l k ↔ x ∈ l ∧ x ≠ k := by
  unfold setRemove
  simp

/-- the slot `i` of the ring (`[]` out of range) -/
abbrev slot (r : List (List Key)) (i : Nat) : List Key := r.getD i []

theorem slot_set (r : List (List Key)) (i j : Nat) (v : List Key) :
    slot (r.set i v) j = if i = j ∧ i < r.length then v else slot r j := by
  unfold slot
  simp only [List.getD_eq_getElem?_getD, List.getElem?_set]
  by_cases hij : i = j
  · subst hij
    by_cases hlt : i < r.length
    · simp [hlt]
    · simp [hlt]
  · simp [hij]

theorem slot_replicate (n i : Nat) : slot (List.replicate n ([] : List Key)) i = [] := by
  unfold slot
  simp only [List.getD_eq_getElem?_getD, List.getElem?_replicate]
  split <;> rfl

theorem keepOf_none (ovf : Bool) (limit sd now : Nat) : keepOf ovf limit sd now none = false := rfl

theorem setMap_same (b : Key → Option (Nat × Nat)) (k : Key) (v) : setMap b k v k = v := by
  simp [setMap]

theorem setMap_other (b : Key → Option (Nat × Nat)) (k k' : Key) (v) (h : k' ≠ k) :
    setMap b k v k' = b k' := by
  simp [setMap, h]

/-! ### `retain` in closed form -/

theorem retain_backoffs (ovf : Bool) (limit sd now : Nat) (l : List Key)
    (b : Key → Option (Nat × Nat)) (k : Key) :
    (retain ovf limit sd now l b).2 k =
      if k ∈ l ∧ keepOf ovf limit sd now (b k) = false then none else b k := by
  induction l generalizing b with
  | nil => simp [retain]
  | cons a l ih =>
    unfold retain
    by_cases hk : keepOf ovf limit sd now (b a) = true
    · simp only [hk, ↓reduceIte]
      rw [ih]
      by_cases hka : k = a
      · subst hka
        simp [hk]
      · simp [hka]
    · simp only [hk]
      rw [if_neg (by simp)]
      rw [ih]
      by_cases hka : k = a
      · subst hka
        have hk' : keepOf ovf limit sd now (b k) = false := by simpa using hk
        simp [setMap_same, hk', keepOf_none]
      · simp [setMap_other _ _ _ _ hka, hka]

theorem retain_mem (ovf : Bool) (limit sd now : Nat) (l : List Key)
    (b : Key → Option (Nat × Nat)) (k : Key) :
    k ∈ (retain ovf limit sd now l b).1 ↔ k ∈ l ∧ keepOf ovf limit sd now (b k) = true := by
  induction l generalizing b with
  | nil => simp [retain]
  | cons a l ih =>
    unfold retain
    by_cases hk : keepOf ovf limit sd now (b a) = true
    · simp only [hk, ↓reduceIte, List.mem_cons]
      rw [ih]
      constructor
      · rintro (rfl | ⟨h1, h2⟩)
        · exact ⟨Or.inl rfl, hk⟩
        · exact ⟨Or.inr h1, h2⟩
      · rintro ⟨rfl | h1, h2⟩
        · exact Or.inl rfl
        · exact Or.inr ⟨h1, h2⟩
    · have hk' : keepOf ovf limit sd now (b a) = false := by simpa using hk
      rw [if_neg (by simp [hk'])]
      rw [ih]
      by_cases hka : k = a
      · subst hka
        simp [setMap_same, hk', keepOf_none]
      · simp [setMap_other _ _ _ _ hka, hka]

/-! ### fields that no op changes -/

theorem update_params (s : State) (now : Nat) (k : Key) (d : Nat) :
    (update s now k d).hb = s.hb ∧ (update s now k d).slack = s.slack ∧
    (update s now k d).limit = s.limit ∧ (update s now k d).hi = s.hi ∧
    (update s now k d).ring.length = s.ring.length := by
  unfold update
  cases checkedAdd s.limit now d with
  | none => simp
  | some inst =>
    cases hb : s.backoffs k with
    | none => simp [insertIntoRing]
    | some p =>
      obtain ⟨bo, ix⟩ := p
      by_cases hlt : bo < inst <;> simp [hlt, insertIntoRing]

theorem update_other (s : State) (now : Nat) (k k' : Key) (d : Nat) (h : k' ≠ k) :
    (update s now k d).backoffs k' = s.backoffs k' := by
  unfold update
  cases checkedAdd s.limit now d with
  | none => rfl
  | some inst =>
    cases hb : s.backoffs k with
    | none => simp [setMap, h]
    | some p =>
      obtain ⟨bo, ix⟩ := p
      by_cases hlt : bo < inst <;> simp [hlt, setMap, h]

theorem heartbeat_some (s : State) (now : Nat) (h : s.hb * s.slack < durLimit) :
    heartbeat s now = some
      { s with
        ring := s.ring.set s.hi (retain true s.limit (s.hb * s.slack) now (slot s.ring s.hi) s.backoffs).1
        backoffs := (retain true s.limit (s.hb * s.slack) now (slot s.ring s.hi) s.backoffs).2
        hi := (s.hi + 1) % s.ring.length } := by
  unfold heartbeat heartbeatG
  rw [if_neg (Nat.not_le_of_lt h)]

theorem heartbeat_none (s : State) (now : Nat) (h : durLimit ≤ s.hb * s.slack) :
    heartbeat s now = none := by
  unfold heartbeat heartbeatG
  rw [if_pos h]

theorem step_params (s : State) (o : Nat × Op) :
    (step s o).hb = s.hb ∧ (step s o).slack = s.slack ∧ (step s o).limit = s.limit ∧
    (step s o).ring.length = s.ring.length := by
  obtain ⟨now, op⟩ := o
  cases op with
  | update k d =>
    have := update_params s now k d
    simp only [step]; exact ⟨this.1, this.2.1, this.2.2.1, this.2.2.2.2⟩
  | heartbeat =>
    simp only [step]
    by_cases h : s.hb * s.slack < durLimit
    · rw [heartbeat_some s now h]; simp
    · rw [heartbeat_none s now (Nat.le_of_not_lt h)]; simp
  | query => simp [step]

/-! ### the ring-consistency invariant -/

structure Inv (s : State) : Prop where
  len_pos : 0 < s.ring.length
  hi_lt : s.hi < s.ring.length
  /-- a stored pair sits in the slot its index names -/
  fwd : ∀ k bt i, s.backoffs k = some (bt, i) → i < s.ring.length ∧ k ∈ slot s.ring i
  /-- a pair sitting in a slot is stored with exactly that index -/
  bwd : ∀ i k, k ∈ slot s.ring i → ∃ bt, s.backoffs k = some (bt, i)

theorem inv_new (limit prune hb slack : Nat) (s : State) (h : new limit prune hb slack = some s) :
    Inv s := by
  unfold new at h
  by_cases hz : hb = 0
  · simp [hz] at h
  · simp only [hz, ↓reduceIte, Option.some.injEq] at h
    subst h
    constructor
    · simp
    · simp
    · intro k bt i hk; simp at hk
    · intro i k hk
      rw [slot_replicate] at hk
      simp at hk

/-- inserting the pair `k` (not present in any slot of `ring`, stored nowhere) -/
theorem inv_insert (s : State) (ring : List (List Key)) (k : Key) (d inst : Nat)
    (hlen : 0 < ring.length) (hhi : s.hi < ring.length)
    (hf : ∀ k' bt i, k' ≠ k → s.backoffs k' = some (bt, i) → i < ring.length ∧ k' ∈ slot ring i)
    (hb : ∀ i k', k' ∈ slot ring i → k' ≠ k ∧ ∃ bt, s.backoffs k' = some (bt, i)) :
    Inv { s with ring := (insertIntoRing s.hi s.hb s.slack k d ring).1,
                 backoffs := setMap s.backoffs k (some (inst, (insertIntoRing s.hi s.hb s.slack k d ring).2)) } := by
  have hidx : (s.hi + heartbeats d s.hb + s.slack) % ring.length < ring.length := Nat.mod_lt _ hlen
  constructor
  · simpa [insertIntoRing] using hlen
  · simpa [insertIntoRing] using hhi
  · intro k' bt i hk'
    simp only [insertIntoRing, List.length_set] at *
    by_cases hkk : k' = k
    · subst hkk
      simp only [setMap_same, Option.some.injEq, Prod.mk.injEq] at hk'
      obtain ⟨_, rfl⟩ := hk'
      refine ⟨hidx, ?_⟩
      rw [slot_set]
      simp [hidx, mem_setInsert]
    · rw [setMap_other _ _ _ _ hkk] at hk'
      obtain ⟨h1, h2⟩ := hf k' bt i hkk hk'
      refine ⟨h1, ?_⟩
      rw [slot_set]
      split
      · rename_i hc
        rw [mem_setInsert]
        left
        rw [hc.1]
        exact h2
      · exact h2
  · intro i k' hk'
    simp only [insertIntoRing] at *
    rw [slot_set] at hk'
    split at hk'
    · rename_i hc
      rw [mem_setInsert] at hk'
      rcases hk' with hk' | rfl
      · obtain ⟨hne, bt, hbt⟩ := hb _ _ hk'
        refine ⟨bt, ?_⟩
        rw [setMap_other _ _ _ _ hne, hbt, hc.1]
      · exact ⟨inst, by rw [setMap_same, hc.1]⟩
    · obtain ⟨hne, bt, hbt⟩ := hb _ _ hk'
      exact ⟨bt, by rw [setMap_other _ _ _ _ hne, hbt]⟩

theorem inv_update (s : State) (now : Nat) (k : Key) (d : Nat) (h : Inv s) :
    Inv (update s now k d) := by
  unfold update
  cases checkedAdd s.limit now d with
  | none => exact h
  | some inst =>
    cases hbk : s.backoffs k with
    | none =>
      simp only
      apply inv_insert s s.ring k d inst h.len_pos h.hi_lt
      · intro k' bt i _ hk'; exact h.fwd k' bt i hk'
      · intro i k' hk'
        obtain ⟨bt, hbt⟩ := h.bwd i k' hk'
        refine ⟨?_, bt, hbt⟩
        rintro rfl
        rw [hbk] at hbt
        cases hbt
    | some p =>
      obtain ⟨bo, ix⟩ := p
      by_cases hlt : bo < inst
      · simp only [hlt, ↓reduceIte]
        obtain ⟨hix, _⟩ := h.fwd k bo ix hbk
        apply inv_insert s (s.ring.set ix (setRemove (s.ring.getD ix []) k)) k d inst
        · simpa using h.len_pos
        · simpa using h.hi_lt
        · intro k' bt i hne hk'
          obtain ⟨h1, h2⟩ := h.fwd k' bt i hk'
          refine ⟨by simpa using h1, ?_⟩
          rw [slot_set]
          split
          · rename_i hc
            rw [mem_setRemove]
            refine ⟨?_, hne⟩
            rw [hc.1]; exact h2
          · exact h2
        · intro i k' hk'
          rw [slot_set] at hk'
          split at hk'
          · rename_i hc
            rw [mem_setRemove] at hk'
            obtain ⟨bt, hbt⟩ := h.bwd ix k' hk'.1
            exact ⟨hk'.2, bt, by rw [← hc.1]; exact hbt⟩
          · rename_i hc
            obtain ⟨bt, hbt⟩ := h.bwd i k' hk'
            refine ⟨?_, bt, hbt⟩
            rintro rfl
            rw [hbk] at hbt
            simp only [Option.some.injEq, Prod.mk.injEq] at hbt
            exact hc ⟨hbt.2, hix⟩
      · simp only [hlt, ↓reduceIte]
        exact h

theorem inv_heartbeat (s s' : State) (now : Nat) (h : Inv s) (hs : heartbeat s now = some s') :
    Inv s' := by
  by_cases hd : s.hb * s.slack < durLimit
  · rw [heartbeat_some s now hd] at hs
    simp only [Option.some.injEq] at hs
    subst hs
    constructor
    · simpa using h.len_pos
    · simp only [List.length_set]; exact Nat.mod_lt _ h.len_pos
    · intro k bt i hk
      simp only at hk
      rw [retain_backoffs] at hk
      split at hk
      · cases hk
      · rename_i hc
        obtain ⟨h1, h2⟩ := h.fwd k bt i hk
        refine ⟨by simpa using h1, ?_⟩
        simp only
        rw [slot_set]
        split
        · rename_i hc2
          rw [retain_mem]
          rw [← hc2.1] at h2
          refine ⟨h2, ?_⟩
          cases hkeep : keepOf true s.limit (s.hb * s.slack) now (s.backoffs k) with
          | true => rfl
          | false => exact absurd ⟨h2, hkeep⟩ hc
        · exact h2
    · intro i k hk
      simp only at hk ⊢
      rw [slot_set] at hk
      split at hk
      · rename_i hc
        rw [retain_mem] at hk
        obtain ⟨bt, hbt⟩ := h.bwd s.hi k hk.1
        refine ⟨bt, ?_⟩
        rw [retain_backoffs, if_neg (by simp [hk.2]), hbt, hc.1]
      · rename_i hc
        obtain ⟨bt, hbt⟩ := h.bwd i k hk
        refine ⟨bt, ?_⟩
        rw [retain_backoffs, if_neg, hbt]
        rintro ⟨hmem, _⟩
        obtain ⟨bt', hbt'⟩ := h.bwd s.hi k hmem
        rw [hbt] at hbt'
        simp only [Option.some.injEq, Prod.mk.injEq] at hbt'
        exact hc ⟨hbt'.2.symm, h.hi_lt⟩
  · rw [heartbeat_none s now (Nat.le_of_not_lt hd)] at hs
    cases hs

theorem inv_step (s : State) (o : Nat × Op) (h : Inv s) : Inv (step s o) := by
  obtain ⟨now, op⟩ := o
  cases op with
  | update k d => exact inv_update s now k d h
  | heartbeat =>
    simp only [step]
    cases hs : heartbeat s now with
    | none => exact h
    | some s' => exact inv_heartbeat s s' now h hs
  | query => exact h

theorem inv_exec (ops : List (Nat × Op)) (s : State) (h : Inv s) : Inv (exec s ops) := by
  induction ops generalizing s with
  | nil => exact h
  | cons o os ih => exact ih _ (inv_step s o h)

end C32
