import Libp2pModel.Model.C46
/-!
# C46 — helper lemmas: characterisations of the record path of `Info::try_from`
-/
namespace C46
variable {K E : Type}

/-- "`e` is a peer record validly signed by peer `p`" (Prop form of `authentic`): legacy payload
type, the signature verifies under the legacy domain, the payload decodes to a record naming `p`
whose addresses all decode, and the signing key itself derives `p`. -/
def Authentic (env : Env K E) (p : Bytes) (e : E) : Prop :=
  env.envPayloadType e = legacyPayloadType ∧ env.verify e legacyDomain = true ∧
  (∃ r as, env.decodeRecord (env.envPayload e) = some r ∧ env.decodePeerId r.peerId = some p ∧
     r.addresses.mapM env.decodeAddr = some as) ∧
  env.peerIdOf (env.envKey e) = p

theorem fromSignedEnvelope_some_iff (env : Env K E) (e : E) (pr : PeerRecord E) :
    fromSignedEnvelope env e = some pr ↔
      env.envPayloadType e = legacyPayloadType ∧ env.verify e legacyDomain = true ∧
      ∃ r as, env.decodeRecord (env.envPayload e) = some r ∧
        env.decodePeerId r.peerId = some (env.peerIdOf (env.envKey e)) ∧
        r.addresses.mapM env.decodeAddr = some as ∧
        pr = ⟨env.peerIdOf (env.envKey e), r.seq, as, e⟩ := by
  unfold fromSignedEnvelope payloadAndSigningKey
  by_cases ht : env.envPayloadType e = legacyPayloadType
  · by_cases hv : env.verify e legacyDomain = true
    · simp only [ht, hv, ne_eq, not_true_eq_false, ↓reduceIte, Bool.not_true, Bool.false_eq_true, true_and]
      cases hr : env.decodeRecord (env.envPayload e) with
      | none => simp
      | some r =>
        cases hp : env.decodePeerId r.peerId with
        | none => simp [hp]
        | some pid =>
          by_cases hpe : pid = env.peerIdOf (env.envKey e)
          · subst hpe
            cases hm : r.addresses.mapM env.decodeAddr with
            | none => simp [hm, hp]
            | some as => simp [hm, hp, eq_comm]
          · simp [hpe, hp]
    · simp [ht, hv]
  · simp [ht]

/-- a record accepted by `PeerRecord::from_signed_envelope` is authentic for the peer it names,
that peer is the signer, and its addresses are the decoded record addresses -/
theorem fromSignedEnvelope_sound (env : Env K E) (e : E) (pr : PeerRecord E)
    (h : fromSignedEnvelope env e = some pr) :
    Authentic env pr.peerId e ∧ recordAddrs env e = some pr.addresses ∧ pr.envelope = e ∧
      pr.peerId = env.peerIdOf (env.envKey e) := by
  obtain ⟨ht, hv, r, as, hr, hp, hm, rfl⟩ := (fromSignedEnvelope_some_iff env e pr).1 h
  refine ⟨⟨ht, hv, ⟨r, as, hr, hp, hm⟩, rfl⟩, ?_, rfl, rfl⟩
  simp [recordAddrs, hr, hm]

/-- conversely every authentic record is accepted -/
theorem fromSignedEnvelope_complete (env : Env K E) (q : Bytes) (e : E) (h : Authentic env q e) :
    ∃ pr, fromSignedEnvelope env e = some pr ∧ pr.peerId = q ∧ pr.envelope = e ∧
      recordAddrs env e = some pr.addresses := by
  obtain ⟨ht, hv, ⟨r, as, hr, hp, hm⟩, hk⟩ := h
  subst hk
  refine ⟨⟨env.peerIdOf (env.envKey e), r.seq, as, e⟩, ?_, rfl, rfl, ?_⟩
  · exact (fromSignedEnvelope_some_iff env e _).2 ⟨ht, hv, r, as, hr, hp, hm, rfl⟩
  · simp [recordAddrs, hr, hm]

/-- The record branch of `Info::try_from` is taken exactly when the field decodes to an envelope
that is authentic for the peer id of the identify key; it then yields the record's addresses and
that envelope. -/
theorem recordFor_some_iff (env : Env K E) (key : K) (spr : Option Bytes) (x : List Maddr × Option E) :
    recordFor env key spr = some x ↔
      ∃ b e as, spr = some b ∧ env.decodeEnvelope b = some e ∧
        Authentic env (env.peerIdOf key) e ∧ recordAddrs env e = some as ∧ x = (as, some e) := by
  unfold recordFor
  cases spr with
  | none => simp
  | some b =>
    cases he : env.decodeEnvelope b with
    | none => simp [he]
    | some e =>
      cases hf : fromSignedEnvelope env e with
      | none =>
        simp only [Option.bind_some, he, hf, Option.bind_none, Option.some.injEq, reduceCtorEq, false_iff]
        rintro ⟨b', e', as, hb, he', ha, _, _⟩
        subst hb
        rw [he] at he'
        cases he'
        obtain ⟨pr, hpr, _⟩ := fromSignedEnvelope_complete env _ e ha
        rw [hf] at hpr
        cases hpr
      | some pr =>
        obtain ⟨ha, hra, hpe, hps⟩ := fromSignedEnvelope_sound env e pr hf
        simp only [Option.bind_some, he, hf, Option.some.injEq]
        constructor
        · intro h
          by_cases hq : pr.peerId = env.peerIdOf key
          · rw [if_pos hq] at h
            refine ⟨b, e, pr.addresses, rfl, he, hq ▸ ha, hra, ?_⟩
            rw [← hpe]
            exact (Option.some.inj h).symm
          · rw [if_neg hq] at h
            cases h
        · rintro ⟨b', e', as, hb, he', ha', hra', rfl⟩
          cases hb
          rw [he] at he'
          cases he'
          have hq : pr.peerId = env.peerIdOf key := by rw [hps]; exact ha'.2.2.2
          rw [if_pos hq, hpe]
          rw [hra] at hra'
          cases hra'
          rfl

theorem recordFor_snd (env : Env K E) (key : K) (spr : Option Bytes) (x : List Maddr × Option E)
    (h : recordFor env key spr = some x) : ∃ e, x.2 = some e := by
  obtain ⟨_, e, _, _, _, _, _, rfl⟩ := (recordFor_some_iff env key spr x).1 h
  exact ⟨e, rfl⟩

/-- `tryFrom` in closed form -/
theorem tryFrom_some_iff (env : Env K E) (msg : Msg) (info : Info K E) :
    tryFrom env msg = some info ↔
      ∃ key, msgKey env msg = some key ∧
        info = { publicKey := key
                 protocolVersion := msg.protocolVersion.getD []
                 agentVersion := msg.agentVersion.getD []
                 listenAddrs := ((recordFor env key msg.signedPeerRecord).getD
                    (parseListenAddrs env msg.listenAddrs, none)).1
                 protocols := parseProtocols msg.protocols
                 observedAddr := (parseObservedAddr env msg.observedAddr).getD []
                 signedPeerRecord := ((recordFor env key msg.signedPeerRecord).getD
                    (parseListenAddrs env msg.listenAddrs, none)).2 } := by
  unfold tryFrom
  cases hk : msgKey env msg with
  | none => simp
  | some key =>
    simp only [Option.some.injEq, exists_eq_left']
    constructor <;> intro h <;> exact h.symm

theorem authentic_iff (env : Env K E) (p : Bytes) (e : E) :
    authentic env p e = true ↔ Authentic env p e := by
  unfold authentic Authentic
  cases hr : env.decodeRecord (env.envPayload e) with
  | none => simp
  | some r =>
    cases hm : r.addresses.mapM env.decodeAddr with
    | none => simp [hm]
    | some as => simp [hm, and_assoc]

end C46
