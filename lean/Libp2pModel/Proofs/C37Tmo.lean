import Libp2pModel.Proofs.C37Cap
/-!
# C37 — the timeout of a bucket is the configured bucket size, forever
-/
namespace C37
/- (generated from C37Cap.lean by renaming capacity → timeout) -/

theorem insert_tmo (b : Bucket) (node : Node) (st : Status) (now : Nat) :
    (b.insert node st now).1.timeout = b.timeout := by
  unfold Bucket.insert
  cases st <;> simp only <;> (repeat' split) <;> rfl

theorem remove_tmo (b : Bucket) (key : Nat) : (b.remove key).1.timeout = b.timeout := by
  unfold Bucket.remove
  cases b.position key with
  | none => rfl
  | some pos =>
    simp only
    cases b.nodes[pos]? with
    | none => rfl
    | some node =>
      simp only
      cases b.status pos <;> simp only <;> (repeat' split) <;> rfl

theorem update_tmo (b : Bucket) (key : Nat) (st : Status) (now tick : Nat) :
    (b.update key st now tick).timeout = b.timeout := by
  unfold Bucket.update
  have hr := remove_tmo b key
  revert hr
  generalize b.remove key = res
  intro hr
  obtain ⟨b1, r⟩ := res
  cases r with
  | none => exact hr
  | some x =>
    obtain ⟨node, s0, pos⟩ := x
    simp only at hr ⊢
    have h2 : (if pos = 0 ∧ st = .connected then { b1 with pending := none } else b1).timeout = b.timeout := by
      split <;> exact hr
    have hi := insert_tmo (if pos = 0 ∧ st = .connected then { b1 with pending := none } else b1)
      { node with gst := st, stamp := tick } st now
    revert hi
    generalize (if pos = 0 ∧ st = .connected then { b1 with pending := none } else b1).insert
      { node with gst := st, stamp := tick } st now = res2
    intro hi
    obtain ⟨b3, r3⟩ := res2
    simp only at hi
    cases r3 <;> simp only [Bucket.poison] <;> rw [hi, h2]

theorem applyPending_tmo (b : Bucket) (now tick : Nat) : (b.applyPending now tick).1.timeout = b.timeout := by
  unfold Bucket.applyPending
  cases hp : b.pending with
  | none => rfl
  | some pn =>
    simp only
    by_cases hdue : pn.replace ≤ now
    · simp only [hdue, if_true]
      by_cases hfull : b.capacity ≤ b.nodes.length
      · simp only [hfull, if_true]
        (repeat' split) <;> rfl
      · simp only [hfull, if_false]
        have hi := insert_tmo { b with pending := none }
          { pn.node with gst := pn.status, stamp := tick } pn.status now
        revert hi
        generalize ({ b with pending := none } : Bucket).insert
          { pn.node with gst := pn.status, stamp := tick } pn.status now = res
        intro hi
        obtain ⟨b1, r⟩ := res
        simp only at hi
        cases r <;> simp only [Bucket.poison] <;> exact hi
    · simp only [hdue, if_false]

theorem setBucket_tmo (t : Table) (i : Nat) (b' : Bucket) (h : b'.timeout = (t.bucket i).timeout) (j : Nat) :
    ((t.setBucket i b').bucket j).timeout = (t.bucket j).timeout := by
  by_cases hi : i < t.buckets.length
  · rw [bucket_setBucket t i j b' hi]
    by_cases hji : j = i
    · subst hji; simp only [if_true]; exact h
    · simp only [hji, if_false]
  · have : t.setBucket i b' = t := by
      unfold Table.setBucket
      rw [List.set_eq_of_length_le (by omega)]
    rw [this]

theorem access_tmo {t : Table} {key i : Nat} {t1 : Table} (ha : t.access key = some (i, t1)) (j : Nat) :
    (t1.bucket j).timeout = (t.bucket j).timeout := by
  unfold Table.access at ha
  cases hbi : bucketIndex (t.localKey ^^^ key) with
  | none => simp [hbi] at ha
  | some k =>
    simp only [hbi, Option.some.injEq, Prod.mk.injEq] at ha
    obtain ⟨hk, ht1⟩ := ha
    subst hk
    subst ht1
    have := setBucket_tmo t k ((t.bucket k).applyPending t.now (2 * t.ops)).1 (applyPending_tmo _ _ _) j
    cases ((t.bucket k).applyPending t.now (2 * t.ops)).2 <;> exact this

theorem iterFrom_tmo : ∀ (n : Nat) (t : Table) (i j : Nat),
    ((t.iterFrom i n).bucket j).timeout = (t.bucket j).timeout
  | 0, _, _, _ => rfl
  | n + 1, t, i, j => by
    rw [iterFrom_succ, iterFrom_tmo n, record_bucket]
    exact setBucket_tmo t i _ (applyPending_tmo _ _ _) j


/-- no API call changes the timeout of any bucket -/
theorem step_tmo (t : Table) (op : Op) (j : Nat) :
    ((t.step op).1.bucket j).timeout = (t.bucket j).timeout := by
  cases op with
  | insert key value st =>
    cases ha : t.access key with
    | none => simp only [Table.step, ha]; rfl
    | some it1 =>
      obtain ⟨i, t1⟩ := it1
      have hc := access_tmo ha
      simp only [Table.step, ha]
      cases hek : (t1.bucket i).entryKind key <;> simp only [bump_bucket]
      · exact hc j
      · rw [setBucket_tmo t1 i _ (insert_tmo _ _ _ _) j]; exact hc j
      · exact hc j
      · exact hc j
  | update key st =>
    cases ha : t.access key with
    | none => simp only [Table.step, ha]; rfl
    | some it1 =>
      obtain ⟨i, t1⟩ := it1
      have hc := access_tmo ha
      simp only [Table.step, ha]
      cases hek : (t1.bucket i).entryKind key <;> simp only [bump_bucket]
      · exact hc j
      · exact hc j
      · rw [setBucket_tmo t1 i _ (update_tmo _ _ _ _ _) j]; exact hc j
      · rw [setBucket_tmo t1 i _ (by unfold Bucket.updatePending; split <;> rfl) j]; exact hc j
  | remove key =>
    cases ha : t.access key with
    | none => simp only [Table.step, ha]; rfl
    | some it1 =>
      obtain ⟨i, t1⟩ := it1
      have hc := access_tmo ha
      simp only [Table.step, ha]
      cases hek : (t1.bucket i).entryKind key <;> simp only
      · exact hc j
      · exact hc j
      · have hr := remove_tmo (t1.bucket i) key
        revert hr
        generalize (t1.bucket i).remove key = res
        intro hr
        obtain ⟨b', r⟩ := res
        simp only at hr
        cases r with
        | none => simp only [bump_bucket]; rw [setBucket_tmo t1 i _ (by simpa [Bucket.poison] using hr) j]; exact hc j
        | some x =>
          obtain ⟨node, s, p⟩ := x
          simp only [bump_bucket]; rw [setBucket_tmo t1 i _ hr j]; exact hc j
      · unfold Bucket.removePending
        cases hp : (t1.bucket i).pending <;> simp only [bump_bucket] <;>
          (rw [setBucket_tmo t1 i _ (by rfl) j]; exact hc j)
  | lookup key =>
    cases ha : t.access key with
    | none => simp only [Table.step, ha]; rfl
    | some it1 =>
      obtain ⟨i, t1⟩ := it1
      simp only [Table.step, ha, bump_bucket]
      exact access_tmo ha j
  | bucketInfo key =>
    cases ha : t.access key with
    | none => simp only [Table.step, ha]; rfl
    | some it1 =>
      obtain ⟨i, t1⟩ := it1
      simp only [Table.step, ha, bump_bucket]
      exact access_tmo ha j
  | iter => simp only [Table.step, bump_bucket]; exact iterFrom_tmo _ _ _ _
  | advance n => rfl

theorem run_tmo (ops : List Op) : ∀ (t : Table) (j : Nat), ((t.run ops).bucket j).timeout = (t.bucket j).timeout := by
  induction ops with
  | nil => intro t j; rfl
  | cons o os ih =>
    intro t j
    show (((t.step o).1.run os).bucket j).timeout = _
    rw [ih, step_tmo]

end C37
