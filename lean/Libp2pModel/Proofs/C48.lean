import Libp2pModel.Model.C48
/-!
# C48 — helper lemmas: the per-key projection of `GenericRateLimiter`

`view st id = some (balance, lastRefill)` is all the limiter knows about one key.  Under the
well-formedness invariant `WF` (one schedule entry per bucket, schedule sorted, balances below the
limit) a call `try_next(id', now)` acts on every key's view as the small function `stepV`.
-/
namespace C48

/-! ## association-list lemmas -/

theorem lookup_erase (m : List (Id × Nat)) (id id' : Id) :
    lookup (erase m id) id' = if id' = id then none else lookup m id' := by
  induction m with
  | nil => simp [erase, lookup]
  | cons kv rest ih =>
    obtain ⟨k, v⟩ := kv
    by_cases hk : k = id
    · subst hk
      by_cases h' : id' = k
      · subst h'; simp [erase, ih]
      · have : ¬ k = id' := fun h => h' h.symm
        simp [erase, lookup, ih, h', this]
    · by_cases h' : id' = id
      · subst h'; simp [erase, lookup, hk, ih]
      · by_cases hk' : k = id' <;> simp [erase, lookup, hk, hk', ih, h']

theorem lookup_insert (m : List (Id × Nat)) (id : Id) (v : Nat) (id' : Id) :
    lookup (insert m id v) id' = if id' = id then some v else lookup m id' := by
  unfold insert
  by_cases h : id' = id
  · subst h; simp [lookup]
  · have : ¬ id = id' := fun e => h e.symm
    simp [lookup, this, lookup_erase, h]

/-! ## the schedule as a partial map key ↦ time of last refill -/

def sfind : List (Nat × Id) → Id → Option Nat
  | [], _ => none
  | (t, k) :: rest, id => if k = id then some t else sfind rest id

def NoDupIds : List (Nat × Id) → Prop
  | [] => True
  | (_, k) :: rest => sfind rest k = none ∧ NoDupIds rest

theorem sfind_append (a b : List (Nat × Id)) (id : Id) :
    sfind (a ++ b) id = match sfind a id with | some t => some t | none => sfind b id := by
  induction a with
  | nil => simp [sfind]
  | cons e rest ih =>
    obtain ⟨t, k⟩ := e
    by_cases hk : k = id <;> simp [sfind, hk, ih]

theorem sfind_mem {l : List (Nat × Id)} {id : Id} {s : Nat} (h : sfind l id = some s) : (s, id) ∈ l := by
  induction l with
  | nil => simp [sfind] at h
  | cons e rest ih =>
    obtain ⟨t, k⟩ := e
    by_cases hk : k = id
    · simp [sfind, hk] at h; subst hk; subst h; simp
    · simp [sfind, hk] at h; exact List.mem_cons_of_mem _ (ih h)

theorem nodup_snoc (l : List (Nat × Id)) (t : Nat) (id : Id) (hn : NoDupIds l) (hf : sfind l id = none) :
    NoDupIds (l ++ [(t, id)]) := by
  induction l with
  | nil => simp [NoDupIds, sfind]
  | cons e rest ih =>
    obtain ⟨t', k⟩ := e
    simp only [NoDupIds] at hn
    by_cases hk : k = id
    · simp [sfind, hk] at hf
    · simp only [sfind, hk, ↓reduceIte] at hf
      have hk' : ¬ id = k := fun e => hk e.symm
      simp only [List.cons_append, NoDupIds, sfind_append, hn.1, sfind, hk', ↓reduceIte, true_and]
      exact ih hn.2 hf

/-- what the limiter knows about key `id`: `(balance, time of last refill)` -/
def view (sch : List (Nat × Id)) (bk : List (Id × Nat)) (id : Id) : Option (Nat × Nat) :=
  match sfind sch id, lookup bk id with
  | some s, some b => some (b, s)
  | _, _ => none

def St.view (st : St) (id : Id) : Option (Nat × Nat) := C48.view st.schedule st.buckets id

/-- well-formed limiter state, all recorded times `≤ t` -/
structure WF (c : Cfg) (st : St) (t : Nat) : Prop where
  nodup : NoDupIds st.schedule
  cover : ∀ id, (lookup st.buckets id).isSome = (sfind st.schedule id).isSome
  sorted : st.schedule.Pairwise (fun a b => a.1 ≤ b.1)
  times : ∀ e ∈ st.schedule, e.1 ≤ t
  bal : ∀ id b, lookup st.buckets id = some b → b < c.limit

theorem WF.empty (c : Cfg) (t : Nat) : WF c St.empty t :=
  ⟨trivial, fun _ => rfl, List.Pairwise.nil, by simp [St.empty], by simp [St.empty, lookup]⟩

/-- the effect of `refill(now)` on one key -/
def refillView (c : Cfg) (tk : Nat → Nat → Nat) (now : Nat) : Option (Nat × Nat) → Option (Nat × Nat)
  | none => none
  | some (b, s) =>
    if c.interval ≤ now - s then
      let nb := sat32 (b + tk c.interval (now - s))
      if nb < c.limit then some (nb, now) else none
    else some (b, s)

/-- taking a token (the `match self.buckets.get_mut(&id)` of `try_next`) on the key's view -/
def takeView (c : Cfg) (now : Nat) : Option (Nat × Nat) → Option (Nat × Nat) × Bool
  | none => (some (c.limit - 1, now), true)
  | some (b, s) => if 1 ≤ b then (some (b - 1, s), true) else (some (b, s), false)

/-- one `try_next(_, now)` seen from one key; `mine` = the request is for this key -/
def stepV (c : Cfg) (tk : Nat → Nat → Nat) (now : Nat) (mine : Bool) (v : Option (Nat × Nat)) :
    Option (Nat × Nat) × Bool :=
  if mine then takeView c now (refillView c tk now v) else (refillView c tk now v, false)

/-- loop invariant of `refill` -/
structure LI (c : Cfg) (now : Nat) (q app : List (Nat × Id)) (bk : List (Id × Nat)) : Prop where
  nodup : NoDupIds (q ++ app)
  cover : ∀ id, (lookup bk id).isSome = (sfind (q ++ app) id).isSome
  sorted : q.Pairwise (fun a b => a.1 ≤ b.1)
  qtimes : ∀ e ∈ q, e.1 ≤ now
  atimes : ∀ e ∈ app, e.1 = now
  bal : ∀ id b, lookup bk id = some b → b < c.limit

theorem refillView_fresh (c : Cfg) (tk : Nat → Nat → Nat) (now b : Nat) (hI : 0 < c.interval) :
    refillView c tk now (some (b, now)) = some (b, now) := by
  simp only [refillView]
  rw [if_neg (by omega)]

theorem refillLoop_spec (c : Cfg) (tk : Nat → Nat → Nat) (now : Nat) (hI : 0 < c.interval) :
    ∀ (q app : List (Nat × Id)) (bk : List (Id × Nat)), LI c now q app bk →
      ∃ st', refillLoop c tk now q app bk = some st' ∧ WF c st' now ∧
        ∀ id, st'.view id = refillView c tk now (view (q ++ app) bk id) := by
  intro q
  induction q with
  | nil =>
    intro app bk h
    refine ⟨⟨app, bk⟩, rfl, ⟨by simpa using h.nodup, by simpa using h.cover, ?_, ?_, h.bal⟩, ?_⟩
    · apply List.Pairwise.imp_of_mem (R := fun _ _ => True)
      · intro a b ha hb _
        rw [h.atimes a ha, h.atimes b hb]; exact Nat.le_refl _
      · exact List.pairwise_of_forall (fun _ _ => trivial)
    · intro e he; rw [h.atimes e he]; exact Nat.le_refl _
    · intro id
      simp only [St.view, List.nil_append, view]
      cases hs : sfind app id with
      | none => simp [refillView]
      | some s =>
        cases hb : lookup bk id with
        | none => simp [refillView]
        | some b =>
          have := h.atimes _ (sfind_mem hs)
          simp only at this
          subst this
          simp [refillView_fresh c tk s b hI]
  | cons e rest ih =>
    intro app bk h
    obtain ⟨last, id0⟩ := e
    have hnd := h.nodup
    simp only [List.cons_append, NoDupIds] at hnd
    have hsorted := List.pairwise_cons.1 h.sorted
    by_cases hready : c.interval ≤ now - last
    · -- the front entry is ready
      have hcov0 := h.cover id0
      simp only [List.cons_append, sfind, ↓reduceIte, Option.isSome_some] at hcov0
      cases hb : lookup bk id0 with
      | none => simp [hb] at hcov0
      | some b =>
        simp only [refillLoop, hready, ↓reduceIte, hb]
        by_cases hlt : sat32 (b + tk c.interval (now - last)) < c.limit
        · simp only [hlt, ↓reduceIte]
          have hLI : LI c now rest (app ++ [(now, id0)])
              (insert bk id0 (sat32 (b + tk c.interval (now - last)))) := by
            refine ⟨?_, ?_, hsorted.2, fun e he => h.qtimes e (List.mem_cons_of_mem _ he), ?_, ?_⟩
            · rw [← List.append_assoc]; exact nodup_snoc _ _ _ hnd.2 hnd.1
            · intro id
              rw [← List.append_assoc, lookup_insert, sfind_append]
              by_cases hid : id = id0
              · subst hid; simp [hnd.1, sfind]
              · have hid' : ¬ id0 = id := fun e => hid e.symm
                have := h.cover id
                simp only [List.cons_append, sfind, hid', ↓reduceIte] at this
                simp only [hid, ↓reduceIte, this, sfind, hid']
                cases sfind (rest ++ app) id <;> simp
            · intro e he
              rcases List.mem_append.1 he with he | he
              · exact h.atimes e he
              · simp at he; subst he; rfl
            · intro id b' hb'
              rw [lookup_insert] at hb'
              by_cases hid : id = id0
              · simp [hid] at hb'; omega
              · simp only [hid, ↓reduceIte] at hb'; exact h.bal id b' hb'
          obtain ⟨st', hrun, hwf, hview⟩ := ih _ _ hLI
          refine ⟨st', hrun, hwf, ?_⟩
          intro id
          rw [hview id]
          by_cases hid : id = id0
          · subst hid
            have h1 : view (rest ++ (app ++ [(now, id)])) (insert bk id (sat32 (b + tk c.interval (now - last)))) id
                = some (sat32 (b + tk c.interval (now - last)), now) := by
              simp [view, ← List.append_assoc, sfind_append, hnd.1, sfind, lookup_insert]
            have h2 : view ((last, id) :: rest ++ app) bk id = some (b, last) := by
              simp [view, sfind, hb]
            rw [h1, h2, refillView_fresh c tk now _ hI]
            simp [refillView, hready, hlt]
          · have hid' : ¬ id0 = id := fun e => hid e.symm
            have : view (rest ++ (app ++ [(now, id0)])) (insert bk id0 (sat32 (b + tk c.interval (now - last)))) id
                = view ((last, id0) :: rest ++ app) bk id := by
              simp only [view, ← List.append_assoc, sfind_append, sfind, hid', ↓reduceIte, lookup_insert, hid,
                List.cons_append]
              cases sfind rest id <;> cases sfind app id <;> first | rfl | simp
            rw [this]
        · simp only [hlt, ↓reduceIte]
          have hLI : LI c now rest app (erase bk id0) := by
            refine ⟨hnd.2, ?_, hsorted.2, fun e he => h.qtimes e (List.mem_cons_of_mem _ he), h.atimes, ?_⟩
            · intro id
              rw [lookup_erase]
              by_cases hid : id = id0
              · subst hid; simp [hnd.1]
              · have hid' : ¬ id0 = id := fun e => hid e.symm
                have := h.cover id
                simp only [List.cons_append, sfind, hid', ↓reduceIte] at this
                simp [hid, this]
            · intro id b' hb'
              rw [lookup_erase] at hb'
              by_cases hid : id = id0
              · simp [hid] at hb'
              · simp only [hid, ↓reduceIte] at hb'; exact h.bal id b' hb'
          obtain ⟨st', hrun, hwf, hview⟩ := ih _ _ hLI
          refine ⟨st', hrun, hwf, ?_⟩
          intro id
          rw [hview id]
          by_cases hid : id = id0
          · subst hid
            have h1 : view (rest ++ app) (erase bk id) id = none := by
              simp [view, hnd.1]
            have h2 : view ((last, id) :: rest ++ app) bk id = some (b, last) := by
              simp [view, sfind, hb]
            rw [h1, h2]
            simp [refillView, hready, hlt]
          · have hid' : ¬ id0 = id := fun e => hid e.symm
            have : view (rest ++ app) (erase bk id0) id = view ((last, id0) :: rest ++ app) bk id := by
              simp [view, sfind, hid', lookup_erase, hid]
            rw [this]
    · -- the front entry is not ready: nothing in the queue is
      simp only [refillLoop, hready, ↓reduceIte]
      refine ⟨_, rfl, ⟨h.nodup, h.cover, ?_, ?_, h.bal⟩, ?_⟩
      · apply List.pairwise_append.2
        refine ⟨h.sorted, ?_, ?_⟩
        · apply List.Pairwise.imp_of_mem (R := fun _ _ => True)
          · intro a b ha hb _
            rw [h.atimes a ha, h.atimes b hb]; exact Nat.le_refl _
          · exact List.pairwise_of_forall (fun _ _ => trivial)
        · intro a ha b hb
          rw [h.atimes b hb]; exact h.qtimes a ha
      · intro e he
        rcases List.mem_append.1 he with he | he
        · exact h.qtimes e he
        · rw [h.atimes e he]; exact Nat.le_refl _
      · intro id
        simp only [St.view, view]
        cases hs : sfind ((last, id0) :: rest ++ app) id with
        | none => simp [refillView]
        | some s =>
          cases hb : lookup bk id with
          | none => simp [refillView]
          | some b =>
            have hmem := sfind_mem hs
            have hs' : ¬ c.interval ≤ now - s := by
              rcases List.mem_append.1 hmem with hm | hm
              · rcases List.mem_cons.1 hm with hm | hm
                · cases hm; exact hready
                · have := hsorted.1 _ hm
                  simp only at this
                  omega
              · have := h.atimes _ hm
                simp only at this
                omega
            simp [refillView, hs']

/-- **Projection theorem**: from a well-formed state and a timestamp not before the recorded
ones, `try_next(id, now)` does not panic, keeps the state well-formed, and acts on every key's
view as `stepV`. -/
theorem tryNextG_spec (c : Cfg) (tk : Nat → Nat → Nat) (hI : 0 < c.interval) (hL : 1 ≤ c.limit)
    (st : St) (t0 : Nat) (hwf : WF c st t0) (id now : Nat) (ht : t0 ≤ now) :
    ∃ st' r, tryNextG c tk st id now = (st', .accept r) ∧ WF c st' now ∧
      r = (stepV c tk now true (st.view id)).2 ∧
      ∀ id', st'.view id' = (stepV c tk now (decide (id' = id)) (st.view id')).1 := by
  have hLI : LI c now st.schedule [] st.buckets :=
    ⟨by simpa using hwf.nodup, by simpa using hwf.cover, hwf.sorted,
     fun e he => Nat.le_trans (hwf.times e he) ht, by simp, hwf.bal⟩
  obtain ⟨st1, hrun, hwf1, hview⟩ := refillLoop_spec c tk now hI _ _ _ hLI
  simp only [List.append_nil] at hview
  have hview' : ∀ id, st1.view id = refillView c tk now (st.view id) := hview
  unfold tryNextG refillG
  rw [hrun]
  simp only
  have hcov := hwf1.cover id
  cases hb : lookup st1.buckets id with
  | some b =>
    rw [hb] at hcov
    cases hs : sfind st1.schedule id with
    | none => simp [hs] at hcov
    | some s =>
      have hv1 : st1.view id = some (b, s) := by simp [St.view, view, hs, hb]
      by_cases hb1 : 1 ≤ b
      · simp only [hb1, ↓reduceIte]
        refine ⟨_, true, rfl, ⟨hwf1.nodup, ?_, hwf1.sorted, hwf1.times, ?_⟩, ?_, ?_⟩
        · intro id'
          simp only [lookup_insert]
          by_cases hid : id' = id
          · subst hid; simp [hs]
          · simp only [hid, ↓reduceIte]; exact hwf1.cover id'
        · intro id' b' hb'
          simp only [lookup_insert] at hb'
          by_cases hid : id' = id
          · simp [hid] at hb'; have := hwf1.bal id b hb; omega
          · simp only [hid, ↓reduceIte] at hb'; exact hwf1.bal id' b' hb'
        · simp [stepV, ← hview', hv1, takeView, hb1]
        · intro id'
          by_cases hid : id' = id
          · subst hid
            have e : refillView c tk now (st.view id') = some (b, s) := by rw [← hview', hv1]
            have l : St.view ⟨st1.schedule, insert st1.buckets id' (b - 1)⟩ id' = some (b - 1, s) := by
              simp [St.view, view, hs, lookup_insert]
            rw [l]; simp [stepV, e, takeView, hb1]
          · simp only [stepV, hid, decide_false, Bool.false_eq_true, ↓reduceIte, ← hview']
            simp [St.view, view, lookup_insert, hid]
      · simp only [hb1, ↓reduceIte]
        refine ⟨_, false, rfl, hwf1, ?_, ?_⟩
        · simp [stepV, ← hview', hv1, takeView, hb1]
        · intro id'
          by_cases hid : id' = id
          · subst hid
            simp [stepV, ← hview', hv1, takeView, hb1]
          · simp [stepV, hid, ← hview']
  | none =>
    rw [hb] at hcov
    have hs : sfind st1.schedule id = none := by
      cases h : sfind st1.schedule id with
      | none => rfl
      | some s => simp [h] at hcov
    have hv1 : st1.view id = none := by simp [St.view, view, hs]
    refine ⟨_, true, rfl, ⟨nodup_snoc _ _ _ hwf1.nodup hs, ?_, ?_, ?_, ?_⟩, ?_, ?_⟩
    · intro id'
      simp only [lookup_insert, sfind_append, sfind]
      by_cases hid : id' = id
      · subst hid; simp [hs]
      · have hid' : ¬ id = id' := fun e => hid e.symm
        simp only [hid, ↓reduceIte, hid', hwf1.cover id']
        cases sfind st1.schedule id' <;> rfl
    · apply List.pairwise_append.2
      refine ⟨hwf1.sorted, List.pairwise_singleton _ _, ?_⟩
      intro a ha b hb
      simp at hb; subst hb
      exact hwf1.times a ha
    · intro e he
      rcases List.mem_append.1 he with he | he
      · exact hwf1.times e he
      · simp at he; subst he; exact Nat.le_refl _
    · intro id' b' hb'
      simp only [lookup_insert] at hb'
      by_cases hid : id' = id
      · simp [hid] at hb'; omega
      · simp only [hid, ↓reduceIte] at hb'; exact hwf1.bal id' b' hb'
    · simp [stepV, ← hview', hv1, takeView]
    · intro id'
      by_cases hid : id' = id
      · subst hid
        have e : refillView c tk now (st.view id') = none := by rw [← hview', hv1]
        have l : St.view ⟨st1.schedule ++ [(now, id')], insert st1.buckets id' (c.limit - 1)⟩ id'
            = some (c.limit - 1, now) := by
          simp [St.view, view, sfind_append, hs, sfind, lookup_insert]
        rw [l]; simp [stepV, e, takeView]
      · have hid' : ¬ id = id' := fun e => hid e.symm
        simp only [stepV, hid, decide_false, Bool.false_eq_true, ↓reduceIte, ← hview']
        simp only [St.view, view, sfind_append, sfind, hid', ↓reduceIte, lookup_insert, hid]
        cases sfind st1.schedule id' <;> rfl

/-! ## arithmetic of one key's view -/

/-- a view as it can occur in a well-formed state with all times `≤ t` -/
def ValidV (c : Cfg) (t : Nat) : Option (Nat × Nat) → Prop
  | none => True
  | some (b, s) => b < c.limit ∧ s ≤ t

theorem WF.validV {c : Cfg} {st : St} {t : Nat} (h : WF c st t) (id : Id) : ValidV c t (st.view id) := by
  unfold St.view view
  cases hs : sfind st.schedule id with
  | none => simp [ValidV]
  | some s =>
    cases hb : lookup st.buckets id with
    | none => simp [ValidV]
    | some b => exact ⟨h.bal id b hb, h.times _ (sfind_mem hs)⟩

/-- potential of a key at time `t`, in token·nanoseconds: what it could spend right now plus the
progress towards its next token; a key without bucket has a full bucket -/
def phi (c : Cfg) (t : Nat) : Option (Nat × Nat) → Nat
  | none => c.limit * c.interval
  | some (b, s) => min (c.limit * c.interval) (b * c.interval + (t - s))

/-- "has a token or was not refilled since `tl`" — kept by refills, gives `idle_accept` -/
def J (tl : Nat) : Option (Nat × Nat) → Prop
  | none => True
  | some (b, s) => 1 ≤ b ∨ s ≤ tl

theorem sat32_le (n : Nat) : sat32 n ≤ n := by unfold sat32 u32max; split <;> omega
theorem sat32_pos {n : Nat} (h : 1 ≤ n) : 1 ≤ sat32 n := by unfold sat32 u32max; split <;> omega

theorem mul_succ_le {b L : Nat} (I : Nat) (h : b < L) : b * I + I ≤ L * I := by
  have := Nat.mul_le_mul_right I (Nat.succ_le_of_lt h)
  rwa [Nat.succ_mul] at this

theorem newTokens_mul_le {I : Nat} (hI : 0 < I) (dur : Nat) : newTokens I dur * I ≤ dur := by
  have hne : ¬ I = 0 := by omega
  simp only [newTokens, hne, ↓reduceIte]
  exact Nat.le_trans (Nat.mul_le_mul_right I (sat32_le _)) (Nat.div_mul_le_self dur I)

theorem newTokens_pos {I dur : Nat} (hI : 0 < I) (h : I ≤ dur) : 1 ≤ newTokens I dur := by
  have hne : ¬ I = 0 := by omega
  simp only [newTokens, hne, ↓reduceIte]
  exact sat32_pos (Nat.div_pos h hI)

theorem newTokens_le_div {I : Nat} (hI : 0 < I) (dur : Nat) : newTokens I dur ≤ dur / I := by
  have hne : ¬ I = 0 := by omega
  simp only [newTokens, hne, ↓reduceIte]
  exact sat32_le _

/-- a view right after `refill(now)`: the entry is younger than one interval -/
def FreshV (c : Cfg) (now : Nat) : Option (Nat × Nat) → Prop
  | none => True
  | some (b, s) => b < c.limit ∧ s ≤ now ∧ now - s < c.interval

theorem refillView_phi (c : Cfg) (hI : 0 < c.interval) (t now : Nat) (ht : t ≤ now)
    (v : Option (Nat × Nat)) (hv : ValidV c t v) :
    FreshV c now (refillView c newTokens now v) ∧
    phi c now (refillView c newTokens now v) ≤ min (c.limit * c.interval) (phi c t v + (now - t)) := by
  match v, hv with
  | none, _ => simp [refillView, FreshV, phi]
  | some (b, s), hv =>
    obtain ⟨hb, hs⟩ := hv
    simp only [refillView]
    by_cases hready : c.interval ≤ now - s
    · simp only [hready, ↓reduceIte]
      have hq := newTokens_mul_le hI (now - s)
      have hnb := sat32_le (b + newTokens c.interval (now - s))
      by_cases hlt : sat32 (b + newTokens c.interval (now - s)) < c.limit
      · simp only [hlt, ↓reduceIte, FreshV, phi]
        have h1 := Nat.mul_le_mul_right c.interval hnb
        rw [Nat.add_mul] at h1
        refine ⟨⟨trivial, Nat.le_refl _, by omega⟩, ?_⟩
        omega
      · simp only [hlt, ↓reduceIte, FreshV, phi, true_and]
        -- limit ≤ b + dur / interval, hence limit·interval ≤ b·interval + dur
        have h2 : c.limit - b ≤ (now - s) / c.interval := by
          have := newTokens_le_div hI (now - s)
          omega
        have h3 := (Nat.le_div_iff_mul_le hI).1 h2
        have h4 : c.limit * c.interval = b * c.interval + (c.limit - b) * c.interval := by
          rw [← Nat.add_mul]; congr 1; omega
        omega
    · simp only [hready, ↓reduceIte, FreshV, phi]
      refine ⟨⟨hb, by omega, by omega⟩, ?_⟩
      omega

theorem refillView_J (c : Cfg) (hI : 0 < c.interval) (now tl : Nat) (v : Option (Nat × Nat)) (hj : J tl v) :
    J tl (refillView c newTokens now v) := by
  match v, hj with
  | none, _ => simp [refillView, J]
  | some (b, s), hj =>
    simp only [refillView]
    by_cases hready : c.interval ≤ now - s
    · simp only [hready, ↓reduceIte]
      have := newTokens_pos hI hready
      have hnb : 1 ≤ sat32 (b + newTokens c.interval (now - s)) := sat32_pos (by omega)
      split
      · exact Or.inl hnb
      · trivial
    · simpa [hready] using hj

/-- with a token or an entry at least `interval` old, the refilled view can pay -/
theorem take_of_J (c : Cfg) (hI : 0 < c.interval) (now tl : Nat) (v : Option (Nat × Nat)) (hj : J tl v)
    (hidle : c.interval ≤ now - tl) :
    (takeView c now (refillView c newTokens now v)).2 = true := by
  match v, hj with
  | none, _ => simp [refillView, takeView]
  | some (b, s), hj =>
    simp only [refillView]
    by_cases hready : c.interval ≤ now - s
    · simp only [hready, ↓reduceIte]
      have := newTokens_pos hI hready
      have hnb : 1 ≤ sat32 (b + newTokens c.interval (now - s)) := sat32_pos (by omega)
      split <;> simp [takeView, hnb]
    · have hb : 1 ≤ b := by
        rcases hj with h | h
        · exact h
        · omega
      simp [hready, takeView, hb]

/-- the accounting of one `try_next` on one key -/
theorem stepV_phi (c : Cfg) (hI : 0 < c.interval) (hL : 1 ≤ c.limit) (t now : Nat) (ht : t ≤ now)
    (mine : Bool) (v : Option (Nat × Nat)) (hv : ValidV c t v) :
    ValidV c now (stepV c newTokens now mine v).1 ∧
    phi c now (stepV c newTokens now mine v).1 + (if (stepV c newTokens now mine v).2 then c.interval else 0)
      ≤ min (c.limit * c.interval) (phi c t v + (now - t)) ∧
    ((stepV c newTokens now mine v).2 = true →
      c.interval ≤ min (c.limit * c.interval) (phi c t v + (now - t))) := by
  obtain ⟨hf, hp⟩ := refillView_phi c hI t now ht v hv
  cases mine with
  | false =>
    simp only [stepV, Bool.false_eq_true, ↓reduceIte, Nat.add_zero]
    refine ⟨?_, hp, by simp⟩
    cases h : refillView c newTokens now v with
    | none => trivial
    | some p => obtain ⟨b, s⟩ := p; rw [h] at hf; exact ⟨hf.1, hf.2.1⟩
  | true =>
    simp only [stepV, ↓reduceIte]
    cases h : refillView c newTokens now v with
    | none =>
      rw [h] at hp
      have h1 := mul_succ_le c.interval (show c.limit - 1 < c.limit by omega)
      have h2 : c.limit * c.interval = (c.limit - 1) * c.interval + c.interval := by
        rw [← Nat.succ_mul]; congr 1; omega
      simp only [takeView, ValidV, phi, ↓reduceIte] at hp ⊢
      refine ⟨⟨by omega, Nat.le_refl _⟩, by omega, fun _ => by omega⟩
    | some p =>
      obtain ⟨b, s⟩ := p
      rw [h] at hf hp
      obtain ⟨hb, hs, hfresh⟩ := hf
      have h1 := mul_succ_le c.interval hb
      by_cases hb1 : 1 ≤ b
      · have h2 : b * c.interval = (b - 1) * c.interval + c.interval := by
          rw [← Nat.succ_mul]; congr 1; omega
        simp only [takeView, hb1, ↓reduceIte, ValidV, phi] at hp ⊢
        refine ⟨⟨by omega, hs⟩, by omega, fun _ => by omega⟩
      · simp only [takeView, hb1, ↓reduceIte, ValidV, phi, Bool.false_eq_true, Nat.add_zero] at hp ⊢
        exact ⟨⟨hb, hs⟩, hp, by simp⟩

end C48
