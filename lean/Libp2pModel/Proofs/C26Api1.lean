import Libp2pModel.Proofs.C26Buffer
namespace C26
open C25 (Sid Role Frame)

theorem Inv_nextStreamLoop : ∀ (fuel : Nat) (s : State) (k : Nat), Inv s →
    Inv (nextStreamLoop fuel s k).1 ∧ (nextStreamLoop fuel s k).1.cfg = s.cfg := by
  intro fuel
  induction fuel with
  | zero => intro s k hi; exact ⟨hi, rfl⟩
  | succ fuel ih =>
    intro s k hi
    simp only [nextStreamLoop]
    split
    · exact ⟨hi, rfl⟩
    · have hr := Inv_readFrame hi none
      rcases hrf : readFrame s none with ⟨s1, r⟩
      rw [hrf] at hr
      simp only at hr
      obtain ⟨h1, h2, h3, h4⟩ := hr
      cases r with
      | pending => exact ⟨h1, h2⟩
      | ready e =>
        cases e with
        | error k' => exact ⟨h1, h2⟩
        | ok f =>
          have hbn : s1.blocking = none := by rw [h3]; exact h4 f rfl
          cases f with
          | opn rid =>
            simp only
            have ho := Inv_onOpen h1 rid
            rcases hoo : onOpen s1 rid with ⟨s2, r2⟩
            rw [hoo] at ho
            simp only at ho
            cases r2 with
            | error e => exact ⟨ho.1, by rw [ho.2.1, h2]⟩
            | ok o =>
              cases o with
              | some id => exact ⟨ho.1, by rw [ho.2.1, h2]⟩
              | none =>
                have := ih s2 k ho.1
                exact ⟨this.1, by rw [this.2, ho.2.1, h2]⟩
          | data rid d =>
            simp only
            have hb := Inv_buffer h1 hbn rid.mirror d
            rcases hbb : buffer s1 rid.mirror d with ⟨s2, r2⟩
            rw [hbb] at hb
            simp only at hb
            cases r2 with
            | error e => exact ⟨hb.1, by rw [hb.2.1, h2]⟩
            | ok u =>
              have := ih s2 (k + 1) hb.1
              exact ⟨this.1, by rw [this.2, hb.2.1, h2]⟩
          | close rid =>
            simp only
            have hc := Inv_onClose h1 rid.mirror
            have := ih _ k hc.1
            exact ⟨this.1, by rw [this.2, hc.2.1, h2]⟩
          | reset rid =>
            simp only
            have hc := Inv_onReset h1 rid.mirror
            have := ih _ k hc.1
            exact ⟨this.1, by rw [this.2, hc.2.1, h2]⟩

theorem Inv_pollNextStream {s : State} (hi : Inv s) : Inv (pollNextStream s).1 := by
  unfold pollNextStream
  split
  · exact hi
  · split
    · exact Inv_congr hi rfl rfl rfl rfl
    · exact (Inv_nextStreamLoop _ s 0 hi).1

theorem Inv_of_insert_new {s S : State} {x : Sub} (hi : Inv s) (hc : S.cfg = s.cfg)
    (hs : S.subs = insertSub s.subs x) (hp : S.pendQ = s.pendQ) (hb : S.blocking = s.blocking)
    (hroom : s.subs.length < s.cfg.maxSubs) (hx : SubOk s.cfg s.blocking x) : Inv S :=
  Inv_congr (Inv_put_new hi hroom hx) hc hs hp hb

theorem Inv_pollOpenStream {s : State} (hi : Inv s) : Inv (pollOpenStream s).1 := by
  unfold pollOpenStream
  split
  · exact hi
  · split
    · exact hi
    · rename_i hroom
      have h := Inv_sinkReady hi
      have hc := sinkReady_core s
      rcases hsr : sinkReady s with ⟨s1, b⟩
      rw [hsr] at h hc
      simp only at hc
      cases b with
      | false => exact h
      | true =>
        simp only
        split
        · exact h
        · refine Inv_of_insert_new (x := { id := ⟨s1.nextId, .dialer⟩, st := .opn, buf := [] }) h rfl rfl rfl rfl ?_ (SubOk_new _ _ _)
          simp only [hc.2.1, hc.1]; omega

/-- `drop_stream` never hits the `max_substreams - 1` underflow -/
theorem Inv_dropStream {s : State} (hi : Inv s) (id : Sid) :
    Inv (dropStream s id).1 ∧ (dropStream s id).2 = false := by
  unfold dropStream
  split
  · exact ⟨hi, rfl⟩
  · exact ⟨hi, rfl⟩
  · split
    · exact ⟨hi, rfl⟩
    · rename_i x hx
      have hd := Inv_del hi id
      have hpos : s.cfg.maxSubs ≠ 0 := by
        obtain ⟨hm, _⟩ := getSub_mem hx
        have : 0 < s.subs.length := List.length_pos_of_mem hm
        have := hi.1
        omega
      simp only [del_cfg, hpos, ↓reduceIte]
      split
      · exact ⟨hd, rfl⟩
      · exact ⟨hd, rfl⟩
      · exact ⟨hd, rfl⟩
      · have hc := Inv_checkMaxPending hd
        rcases hcm : checkMaxPending (s.del id) with ⟨s1, r⟩
        rw [hcm] at hc
        cases r with
        | error k => exact ⟨hc.1, rfl⟩
        | ok u =>
          obtain ⟨h2a, h2b⟩ := hc.2 rfl
          simp only at h2a; subst h2a
          exact ⟨Inv_push_pend hd h2b _, rfl⟩
      · have hc := Inv_checkMaxPending hd
        rcases hcm : checkMaxPending (s.del id) with ⟨s1, r⟩
        rw [hcm] at hc
        cases r with
        | error k => exact ⟨hc.1, rfl⟩
        | ok u =>
          obtain ⟨h2a, h2b⟩ := hc.2 rfl
          simp only at h2a; subst h2a
          exact ⟨Inv_push_pend hd h2b _, rfl⟩

end C26
