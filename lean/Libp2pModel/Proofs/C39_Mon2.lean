import Libp2pModel.Proofs.C39_Mon
/-!
# C39 — the monitor's derived progress state (`shadow`, `st`, `nw`) follows the iterator
-/
namespace C39

theorem keys_ins_congr : ∀ (a b : List (Nat × PState)) (p : Nat), keys a = keys b →
    keys (ins a p) = keys (ins b p) := by
  intro a
  induction a with
  | nil =>
    intro b p h
    cases b with
    | nil => rfl
    | cons _ _ => simp [keys] at h
  | cons x t ih =>
    intro b p h
    cases b with
    | nil => simp [keys] at h
    | cons y t' =>
      obtain ⟨q, st⟩ := x
      obtain ⟨q', st'⟩ := y
      simp only [keys, List.map_cons, List.cons.injEq] at h
      obtain ⟨hq, ht⟩ := h
      subst hq
      have := ih t' p ht
      simp only [ins]
      split
      · simp [keys, ht]
      · split
        · simp [keys, ht]
        · simp only [keys, List.map_cons] at this ⊢
          rw [this]

theorem find_isSome_congr {a b : List (Nat × PState)} (h : keys a = keys b) (q : Nat) :
    (find a q).isSome = (find b q).isSome := by
  rw [Bool.eq_iff_iff, find_isSome_iff, find_isSome_iff, h]

theorem addCloser_congr (cr : Nat) (a b : List (Nat × PState) × Bool) (q : Nat)
    (hk : keys a.1 = keys b.1) (hb : a.2 = b.2) :
    keys (addCloser cr a q).1 = keys (addCloser cr b q).1 ∧ (addCloser cr a q).2 = (addCloser cr b q).2 := by
  have hs := find_isSome_congr hk q
  unfold addCloser
  cases ha : find a.1 q with
  | some x =>
    cases hb' : find b.1 q with
    | some y => exact ⟨hk, hb⟩
    | none => rw [ha, hb'] at hs; simp at hs
  | none =>
    cases hb' : find b.1 q with
    | some y => rw [ha, hb'] at hs; simp at hs
    | none => exact ⟨keys_ins_congr _ _ q hk, by simp [hb]⟩

theorem fold_addCloser_congr (cr : Nat) (closer : List Nat) : ∀ (a b : List (Nat × PState) × Bool),
    keys a.1 = keys b.1 → a.2 = b.2 →
    keys (closer.foldl (addCloser cr) a).1 = keys (closer.foldl (addCloser cr) b).1 ∧
    (closer.foldl (addCloser cr) a).2 = (closer.foldl (addCloser cr) b).2 := by
  induction closer with
  | nil => intro a b hk hb; exact ⟨hk, hb⟩
  | cons q t ih =>
    intro a b hk hb
    obtain ⟨h1, h2⟩ := addCloser_congr cr a b q hk hb
    exact ih _ _ h1 h2

theorem curRange_congr {a b : List (Nat × PState)} (h : keys a = keys b) (nr p : Nat) :
    curRange a nr p = curRange b nr p := by
  have h1 : ∀ i : Nat, (a[i]?).map (fun e : Nat × PState => e.1) = (b[i]?).map (fun e : Nat × PState => e.1) := by
    intro i
    have := congrArg (fun l => l[i]?) h
    simpa [keys, List.getElem?_map] using this
  have h2 : (a.getLast?).map (fun e : Nat × PState => e.1) = (b.getLast?).map (fun e : Nat × PState => e.1) := by
    have := congrArg List.getLast? h
    simpa [keys, List.getLast?_map] using this
  unfold curRange
  have h1' := h1 (nr - 1)
  cases ha : a[nr - 1]? with
  | some e =>
    cases hb : b[nr - 1]? with
    | some e' => rw [ha, hb] at h1'; simpa using h1'
    | none => rw [ha, hb] at h1'; simp at h1'
  | none =>
    cases hb : b[nr - 1]? with
    | some e' => rw [ha, hb] at h1'; simp at h1'
    | none =>
      simp only
      cases hla : a.getLast? with
      | some e =>
        cases hlb : b.getLast? with
        | some e' => rw [hla, hlb] at h2; simpa using h2
        | none => rw [hla, hlb] at h2; simp at h2
      | none =>
        cases hlb : b.getLast? with
        | some e' => rw [hla, hlb] at h2; simp at h2
        | none => rfl

theorem monCore_fields (m : Mon) (op : Op) (out : Out) (o : Obs) :
    (monCore m op out o).1.shadow = m.shadow ∧ (monCore m op out o).1.st = m.st ∧
    (monCore m op out o).1.cfg = m.cfg := by
  cases op <;> rcases out with ⟨_ | p⟩ | _ | _ | b | _ | _ <;> (try cases b) <;>
    simp only [monCore] <;> (repeat' split) <;> simp

/-- **the derived state follows the iterator** -/
theorem r2_step {m : Mon} {s : Iter} (h : Inv s) (hr : R m s) (hr2 : R2 m s) (op : Op) :
    R2 (monStep m op (step s op).2 (observe (step s op).1)).1 (step s op).1 := by
  obtain ⟨f1, f2, f3⟩ := monCore_fields m op (step s op).2 (observe (step s op).1)
  have hnw : (monStep m op (step s op).2 (observe (step s op).1)).1.nw = (step s op).1.numWaiting := rfl
  have hsh : (monStep m op (step s op).2 (observe (step s op).1)).1.shadow =
      (shadowStep (monCore m op (step s op).2 (observe (step s op).1)).1 op (step s op).2).shadow := rfl
  have hst : (monStep m op (step s op).2 (observe (step s op).1)).1.st =
      (shadowStep (monCore m op (step s op).2 (observe (step s op).1)).1 op (step s op).2).st := rfl
  refine ⟨?_, ?_, hnw⟩
  · rw [hsh]
    cases op with
    | next now =>
      show keys (monCore m _ _ _).1.shadow = _
      rw [f1, hr2.keys]
      by_cases hf : s.state = .finished
      · simp [step, next_finished hf]
      · simp only [step]
        rw [(next_fields hf now).1, nextLoop_keys]
    | failure p =>
      show keys (monCore m _ _ _).1.shadow = _
      rw [f1, hr2.keys]
      simp only [step]
      rcases onFailure_cases h p with heq | ⟨_, s0, nw, _, _, heq⟩
      · rw [heq]
      · rw [heq]; exact (keys_setSt _ _ _).symm
    | finish =>
      show keys (monCore m _ _ _).1.shadow = _
      rw [f1, hr2.keys]; rfl
    | success p closer =>
      simp only [step] at f1 f2 f3 ⊢
      rcases onSuccess_cases h p closer with heq | ⟨hfin, s0, nw, hf, _, heq⟩
      · rw [heq] at f1 ⊢
        show keys (monCore m _ _ _).1.shadow = _
        rw [f1, hr2.keys]
      · have ho := (succeed_fields s p closer nw).1
        rw [heq] at f1 f2 f3 ⊢
        rw [ho] at f1 f2 f3 ⊢
        simp only [shadowStep, f1, f3]
        rw [(succeed_fields s p closer nw).2.2.2]
        have hk : keys m.shadow = keys (setSt s.closest p .succeeded) := by
          rw [keys_setSt]; exact hr2.keys
        have hlen : m.shadow.length = (setSt s.closest p .succeeded).length := by
          have := congrArg List.length hk; simpa [keys] using this
        rw [curRange_congr hk, hr.cfg, hlen]
        exact (fold_addCloser_congr (curRange (setSt s.closest p .succeeded) s.cfg.numResults p) closer
          (m.shadow, decide ((setSt s.closest p .succeeded).length < s.cfg.numResults))
          (setSt s.closest p .succeeded, decide ((setSt s.closest p .succeeded).length < s.cfg.numResults)) hk rfl).1
  · intro hnf
    rw [hst]
    cases op with
    | next now =>
      show (monCore m _ _ _).1.st = _
      rw [f2]
      simp only [step] at hnf ⊢
      by_cases hf : s.state = .finished
      · rw [next_finished hf] at hnf ⊢; exact hr2.st hnf
      · rcases (next_fields hf now).2.2.2 with hs | hs
        · rw [hs]; exact hr2.st hf
        · exact absurd hs hnf
    | failure p =>
      show (monCore m _ _ _).1.st = _
      rw [f2]
      simp only [step] at hnf ⊢
      rcases onFailure_cases h p with heq | ⟨hfin, s0, nw, _, _, heq⟩
      · rw [heq] at hnf ⊢; exact hr2.st hnf
      · rw [heq]; exact hr2.st hfin
    | finish => exact absurd rfl hnf
    | success p closer =>
      simp only [step] at f1 f2 f3 hnf ⊢
      rcases onSuccess_cases h p closer with heq | ⟨hfin, s0, nw, hf, _, heq⟩
      · rw [heq] at f2 hnf ⊢
        show (monCore m _ _ _).1.st = _
        rw [f2]; exact hr2.st hnf
      · have ho := (succeed_fields s p closer nw).1
        rw [heq] at f1 f2 f3 ⊢
        rw [ho] at f1 f2 f3 ⊢
        simp only [shadowStep, f1, f2, f3]
        have hk : keys m.shadow = keys (setSt s.closest p .succeeded) := by
          rw [keys_setSt]; exact hr2.keys
        have hlen : m.shadow.length = (setSt s.closest p .succeeded).length := by
          have := congrArg List.length hk; simpa [keys] using this
        simp only [succeed]
        rw [curRange_congr hk, hr.cfg, hlen, hr2.st hfin]
        rw [(fold_addCloser_congr (curRange (setSt s.closest p .succeeded) s.cfg.numResults p) closer
          (m.shadow, decide ((setSt s.closest p .succeeded).length < s.cfg.numResults))
          (setSt s.closest p .succeeded, decide ((setSt s.closest p .succeeded).length < s.cfg.numResults)) hk rfl).2]

theorem R2.init (cfg : Cfg) (k n : Nat) (known : List Nat) : R2 (monInit cfg k n known) (init cfg k known) :=
  ⟨rfl, fun _ => rfl, rfl⟩

end C39
