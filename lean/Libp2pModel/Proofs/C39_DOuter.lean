import Libp2pModel.Proofs.C39_Disjoint
/-!
# C39 — generic reasoning about the outer loop of `ClosestDisjointPeersIter::next` and about the
"all other paths" loops of `on_success`/`on_failure`: what happens to the path at a given index
-/
namespace C39.Disjoint
open C39 (Out Cfg Inv)

theorem getElem?_mapOthers (f : C39.Iter → C39.Iter) (skip : Nat) :
    ∀ (l : List C39.Iter) (j i : Nat),
      (mapOthers f skip j l)[i]? = (l[i]?).map (fun x => if j + i = skip then x else f x) := by
  intro l
  induction l with
  | nil => intro j i; simp [mapOthers]
  | cons a t ih =>
    intro j i
    cases i with
    | zero => simp [mapOthers]
    | succ i =>
      simp only [mapOthers, List.getElem?_cons_succ, ih]
      have : j + 1 + i = j + (i + 1) := by omega
      rw [this]

theorem set_of_getElem? {α : Type} : ∀ (l : List α) (i : Nat) (a : α), l[i]? = some a → l.set i a = l := by
  intro l
  induction l with
  | nil => intro i a h; simp at h
  | cons b t ih =>
    intro i a h
    cases i with
    | zero => simp at h; simp [h]
    | succ i => simp at h; simp [ih i a h]

/-- what the inner loop does to one path, lifted to every index of the outer loop -/
theorem outer_rel {cfg : Cfg} (Rel : C39.Iter → C39.Iter → Prop) (hrefl : ∀ x, Rel x x)
    (htrans : ∀ a b c, Rel a b → Rel b c → Rel a c) (now : Nat)
    (hinner : ∀ ct fuel it acc, Inv it → C39.countNC it.closest < fuel →
      Rel it (innerLoop now ct fuel it acc).1) :
    ∀ (rounds : Nat) (d : DIter) (acc : Acc), DInv cfg d → ∀ (i : Nat) (it : C39.Iter), d.iters[i]? = some it →
      ∃ it', (outer now rounds d acc).1.iters[i]? = some it' ∧ Rel it it' := by
  intro rounds
  induction rounds with
  | zero => intro d acc _ i it hi; exact ⟨it, hi, hrefl it⟩
  | succ r ih =>
    intro d acc h i it hi
    simp only [outer]
    have hpos := h.pos
    have hget : d.iters[d.pos]? = some d.iters[d.pos] := List.getElem?_eq_getElem hpos
    rw [hget]
    simp only
    have hit := h.paths d.iters[d.pos] (List.getElem_mem hpos)
    have hfuel : C39.countNC d.iters[d.pos].closest < d.iters[d.pos].closest.length + 2 := by
      have := countNC_le_length d.iters[d.pos].closest; omega
    obtain ⟨a, b, c⟩ := innerLoop_ok now d.contacted (d.iters[d.pos].closest.length + 2) d.iters[d.pos] acc
      hit.1 hfuel
    have hrel := hinner d.contacted (d.iters[d.pos].closest.length + 2) d.iters[d.pos] acc hit.1 hfuel
    have hd2 : ∀ ct, (∀ e ∈ ct, e.2.1 < d.iters.length) → DInv cfg (⟨d.iters.set d.pos
        (innerLoop now d.contacted (d.iters[d.pos].closest.length + 2) d.iters[d.pos] acc).1,
        (d.pos + 1) % d.iters.length, ct⟩ : DIter) := by
      intro ct hct
      refine ⟨?_, ?_, ?_⟩
      · intro it hmem
        rcases mem_set hmem with rfl | hm
        · exact ⟨a, b.trans hit.2⟩
        · exact h.paths it hm
      · simp only [List.length_set]
        exact Nat.mod_lt _ (by omega)
      · simp only [List.length_set]; exact hct
    -- the path at index `i` after this round
    have hmid : ∃ itm, (d.iters.set d.pos
        (innerLoop now d.contacted (d.iters[d.pos].closest.length + 2) d.iters[d.pos] acc).1)[i]? = some itm ∧
        Rel it itm := by
      rw [List.getElem?_set]
      by_cases hip : d.pos = i
      · subst hip
        rw [hget] at hi; cases hi
        simp only [hpos, if_true]
        exact ⟨_, rfl, hrel⟩
      · simp only [hip, if_false]
        exact ⟨it, hi, hrefl it⟩
    obtain ⟨itm, hm1, hm2⟩ := hmid
    cases hres : (innerLoop now d.contacted (d.iters[d.pos].closest.length + 2) d.iters[d.pos] acc).2 with
    | brk acc' =>
      obtain ⟨it', h1, h2⟩ := ih _ acc' (hd2 d.contacted h.by_ok) i itm hm1
      exact ⟨it', h1, htrans _ _ _ hm2 h2⟩
    | ret p => exact ⟨itm, hm1, hm2⟩
    | panic => exact ⟨itm, hm1, hm2⟩

/-- the round that hands out a peer: the path it came from satisfies `Strict` -/
theorem outer_issue {cfg : Cfg} (Rel : C39.Iter → C39.Iter → Prop) (Strict : Nat → C39.Iter → C39.Iter → Prop)
    (hrefl : ∀ x, Rel x x)
    (hcomp : ∀ p a b c, Rel a b → Strict p b c → Strict p a c) (now : Nat)
    (hinner : ∀ ct fuel it acc, Inv it → C39.countNC it.closest < fuel →
      Rel it (innerLoop now ct fuel it acc).1)
    (hstrict : ∀ ct fuel it acc p, Inv it → C39.countNC it.closest < fuel →
      (innerLoop now ct fuel it acc).2 = .ret p → Strict p it (innerLoop now ct fuel it acc).1) :
    ∀ (rounds : Nat) (d : DIter) (acc : Acc) (p : Nat), DInv cfg d →
      (outer now rounds d acc).2 = .waiting (some p) →
      ∃ (i : Nat) (it it' : C39.Iter), d.iters[i]? = some it ∧ (outer now rounds d acc).1.iters[i]? = some it' ∧ Strict p it it' := by
  intro rounds
  induction rounds with
  | zero =>
    intro d acc p _ hout
    simp only [outer] at hout
    cases acc <;> simp at hout
  | succ r ih =>
    intro d acc p h hout
    simp only [outer] at hout ⊢
    have hpos := h.pos
    have hget : d.iters[d.pos]? = some d.iters[d.pos] := List.getElem?_eq_getElem hpos
    rw [hget] at hout ⊢
    simp only at hout ⊢
    have hit := h.paths d.iters[d.pos] (List.getElem_mem hpos)
    have hfuel : C39.countNC d.iters[d.pos].closest < d.iters[d.pos].closest.length + 2 := by
      have := countNC_le_length d.iters[d.pos].closest; omega
    obtain ⟨a, b, c⟩ := innerLoop_ok now d.contacted (d.iters[d.pos].closest.length + 2) d.iters[d.pos] acc
      hit.1 hfuel
    have hrel := hinner d.contacted (d.iters[d.pos].closest.length + 2) d.iters[d.pos] acc hit.1 hfuel
    have hd2 : DInv cfg (⟨d.iters.set d.pos
        (innerLoop now d.contacted (d.iters[d.pos].closest.length + 2) d.iters[d.pos] acc).1,
        (d.pos + 1) % d.iters.length, d.contacted⟩ : DIter) := by
      refine ⟨?_, ?_, ?_⟩
      · intro it hmem
        rcases mem_set hmem with rfl | hm
        · exact ⟨a, b.trans hit.2⟩
        · exact h.paths it hm
      · simp only [List.length_set]
        exact Nat.mod_lt _ (by omega)
      · simp only [List.length_set]; exact h.by_ok
    cases hres : (innerLoop now d.contacted (d.iters[d.pos].closest.length + 2) d.iters[d.pos] acc).2 with
    | brk acc' =>
      rw [hres] at hout
      simp only at hout
      obtain ⟨i, itm, it', h1, h2, h3⟩ := ih _ acc' p hd2 hout
      simp only at h1
      rw [List.getElem?_set] at h1
      by_cases hip : d.pos = i
      · subst hip
        simp only [hpos, if_true] at h1
        cases h1
        exact ⟨d.pos, _, it', hget, h2, hcomp _ _ _ _ hrel h3⟩
      · simp only [hip, if_false] at h1
        exact ⟨i, itm, it', h1, h2, hcomp _ _ _ _ (hrefl _) h3⟩
    | ret q =>
      rw [hres] at hout
      simp only at hout
      have hqp : q = p := by simpa using hout
      subst hqp
      refine ⟨d.pos, _, _, hget, ?_, hstrict _ _ _ _ q hit.1 hfuel hres⟩
      simp [List.getElem?_set, hpos]
    | panic => exact absurd hres c

end C39.Disjoint
