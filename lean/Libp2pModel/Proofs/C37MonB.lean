import Libp2pModel.Proofs.C37MonA
/-!
# C37 — monitor proof, part B: the relation between monitor and model, one `apply_pending` event
-/
namespace C37

/-- the monitor's `assigned` map agrees with the ghost fields of every stored node of a bucket -/
def AsgOK (asg : List (Nat × Bool × Nat)) (b : Bucket) : Prop :=
  ∀ n ∈ b.nodes, lookupA asg n.key = some (n.gst == .connected, n.stamp)

def AsgT (asg : List (Nat × Bool × Nat)) (t : Table) : Prop := ∀ i, i < 256 → AsgOK asg (t.bucket i)

/-- the monitor knows when every currently pending key became pending: `replace = created + timeout`
(an abstraction: `replace` itself is not observable) -/
def CreT (cr : List (Nat × Nat)) (T : Nat) (t : Table) : Prop :=
  ∀ i, i < 256 → ∀ p, (t.bucket i).pending = some p → ∃ c, lookupA cr p.node.key = some c ∧ c + T = p.replace

/-- **the relation** between the monitor's state and the model's state -/
structure MonR (m : Mon) (t : Table) : Prop where
  localKey : m.localKey = t.localKey
  cap : ∀ i, i < 256 → (t.bucket i).capacity = m.bsize
  tmo : ∀ i, i < 256 → (t.bucket i).timeout = m.timeout
  now : m.now = t.now
  step : m.step = t.ops
  prev : m.prev = t.mdump
  applied : t.applied = []
  asg : AsgT m.assigned t
  cre : CreT m.created m.timeout t

/-- how an applied record is observed -/
def obsAp (a : Applied) : Nat × Option Nat := (a.inserted.key, a.evicted.map (·.key))

theorem dump_nodes_cons {b : Bucket} {ev : Node} {rest : List Node} (h : b.nodes = ev :: rest) (i : Nat) :
    ∃ tl, (b.dump i).nodes = (ev.key, b.status 0 == .connected) :: tl := by
  unfold Bucket.dump
  simp only [h, List.length_cons, List.range_succ_eq_map, List.zipWith_cons_cons]
  exact ⟨_, rfl⟩

theorem dump_nodes_length (b : Bucket) (i : Nat) : (b.dump i).nodes.length = b.nodes.length := by
  unfold Bucket.dump
  simp

theorem lookup_applyAp (prev : List MBucket) (step : Nat) (asg : List (Nat × Bool × Nat)) (k : Nat)
    (e : Option Nat) (k' : Nat) :
    lookupA (applyAp prev step asg (k, e)) k' =
      if k' = k then some ((match findPending prev k with
        | some b => (match b.pending with | some p => p.2 | none => true)
        | none => true), 2 * step)
      else if some k' = e then none else lookupA asg k' := by
  unfold applyAp
  simp only
  rw [lookupA_setA]
  by_cases h : k' = k
  · simp only [h, if_true]; rfl
  · simp only [h, if_false]
    cases e with
    | none => simp
    | some e =>
      simp only [lookupA_eraseA, Option.some.injEq]

/-- one `apply_pending` event in bucket `j` of a table whose bucket `j` is still the one of `t0`:
the monitor accepts the applied record (if any) and its updated bookkeeping matches the new table -/
theorem apply_event {m : Mon} {t0 : Table} (hR : MonR m t0) (h0 : TInv t0) {j : Nat} (hj : j < 256)
    (asg : List (Nat × Bool × Nat)) (t : Table) (hbj : t.bucket j = t0.bucket j)
    (hinv : ∀ i, i < 256 → BInv t0.localKey i (2 * t0.ops + 1) (t.bucket i))
    (hasg : AsgT asg t) (hlen : t.buckets.length = 256) :
    (∀ a, ((t0.bucket j).applyPending t0.now (2 * t0.ops)).2 = some a → pendingRule m (obsAp a) = none) ∧
    AsgT (match ((t0.bucket j).applyPending t0.now (2 * t0.ops)).2 with
          | some a => applyAp m.prev m.step asg (obsAp a)
          | none => asg)
      ((t.setBucket j ((t0.bucket j).applyPending t0.now (2 * t0.ops)).1).record
        ((t0.bucket j).applyPending t0.now (2 * t0.ops)).2) ∧
    (((t0.bucket j).applyPending t0.now (2 * t0.ops)).1.pending = none ∨
      ((t0.bucket j).applyPending t0.now (2 * t0.ops)).1.pending = (t0.bucket j).pending) := by
  have hb0 := h0.buckets j hj
  have hspec := applyPending_spec hb0 t0.now (Nat.le_refl _)
  have hbk : ∀ (b' : Bucket) (ap : Option Applied) (i : Nat),
      ((t.setBucket j b').record ap).bucket i = if i = j then b' else t.bucket i := by
    intro b' ap i
    rw [record_bucket, bucket_setBucket t j i b' (by rw [hlen]; exact hj)]
  revert hspec
  generalize (t0.bucket j).applyPending t0.now (2 * t0.ops) = res
  intro hspec
  cases hspec with
  | kept _ =>
    refine ⟨fun a ha => (by cases ha), ?_, Or.inr rfl⟩
    intro i hi n hn
    rw [hbk] at hn
    by_cases hij : i = j
    · subst hij
      simp only [if_true] at hn
      exact hasg i hi n (by rw [hbj]; exact hn)
    · simp only [hij, if_false] at hn
      exact hasg i hi n hn
  | dropped pn _ _ _ _ =>
    refine ⟨fun a ha => (by cases ha), ?_, Or.inl rfl⟩
    intro i hi n hn
    rw [hbk] at hn
    by_cases hij : i = j
    · subst hij
      simp only [if_true] at hn
      exact hasg i hi n (by rw [hbj]; exact hn)
    · simp only [hij, if_false] at hn
      exact hasg i hi n hn
  | evicted pn ev rest b' hp hdue hfull hst hnodes hevd hevmin hinv' hpend hperm hcap =>
    have hfind := findPending_mdump h0 hj hp
    obtain ⟨c, hc, hcT⟩ := hR.cre j hj pn hp
    refine ⟨?_, ?_, Or.inl hpend⟩
    · intro a ha
      simp only [Option.some.injEq] at ha
      subst ha
      obtain ⟨tl, htl⟩ := dump_nodes_cons hnodes j
      have hlenD := dump_nodes_length (t0.bucket j) j
      simp only [pendingRule, obsAp, appliedNode, hR.prev, hfind, hc, Option.map_some]
      have h1 : ¬ m.now < c + m.timeout := by rw [hR.now, hcT]; omega
      simp only [h1, if_false, Bucket.mdump, htl, hst]
      have h2 : ¬ (tl.length + 1 < m.bsize) := by
        have : tl.length + 1 = (t0.bucket j).nodes.length := by
          rw [← hlenD, htl]; rfl
        rw [this, ← hR.cap j hj]; omega
      simp [h2]
    · intro i hi n hn
      rw [hbk] at hn
      simp only [obsAp, appliedNode, Option.map_some]
      rw [lookup_applyAp, hR.prev, hfind]
      by_cases hij : i = j
      · subst hij
        simp only [if_true] at hn
        rcases List.mem_cons.1 (hperm.mem_iff.1 hn) with rfl | hr
        · simp [appliedNode, Bucket.mdump, hp, hR.step]
        · have hnb : n ∈ (t0.bucket i).nodes := by rw [hnodes]; exact List.mem_cons_of_mem _ hr
          have hk1 : n.key ≠ pn.node.key := by
            intro e
            exact hb0.pendingNotIn pn hp (e ▸ List.mem_map.2 ⟨n, hnb, rfl⟩)
          have hk2 : n.key ≠ ev.key := by
            have hnd := hb0.nodup
            rw [hnodes] at hnd
            simp only [keysOf, List.map_cons, List.nodup_cons] at hnd
            intro e
            exact hnd.1 (e ▸ List.mem_map.2 ⟨n, hr, rfl⟩)
          have hk2' : ¬ some n.key = some ev.key := fun e => hk2 (Option.some.inj e)
          simp only [hk1, if_false, hk2']
          exact hasg i hi n (by rw [hbj]; exact hnb)
      · simp only [hij, if_false] at hn
        have hidx := (hinv i hi).index n hn
        have hk1 : n.key ≠ pn.node.key := by
          intro e
          have := hb0.pendingIndex pn hp
          rw [← e, hidx] at this
          exact hij (Option.some.inj this)
        have hk2 : n.key ≠ ev.key := by
          intro e
          have := hb0.index ev (by rw [hnodes]; simp)
          rw [← e, hidx] at this
          exact hij (Option.some.inj this)
        have hk2' : ¬ some n.key = some ev.key := fun e => hk2 (Option.some.inj e)
        simp only [hk1, if_false, hk2']
        exact hasg i hi n hn
  | room pn b' hp hdue hroom hinv' hpend hperm hcap =>
    have hfind := findPending_mdump h0 hj hp
    obtain ⟨c, hc, hcT⟩ := hR.cre j hj pn hp
    refine ⟨?_, ?_, Or.inl hpend⟩
    · intro a ha
      simp only [Option.some.injEq] at ha
      subst ha
      have hlenD := dump_nodes_length (t0.bucket j) j
      simp only [pendingRule, obsAp, appliedNode, hR.prev, hfind, hc, Option.map_none]
      have h1 : ¬ m.now < c + m.timeout := by rw [hR.now, hcT]; omega
      have h2 : ((t0.bucket j).mdump j).nodes.length < m.bsize := by
        show ((t0.bucket j).dump j).nodes.length < m.bsize
        rw [hlenD, ← hR.cap j hj]; exact hroom
      simp only [h1, if_false, h2, if_true]
    · intro i hi n hn
      rw [hbk] at hn
      simp only [obsAp, appliedNode, Option.map_none]
      rw [lookup_applyAp, hR.prev, hfind]
      by_cases hij : i = j
      · subst hij
        simp only [if_true] at hn
        rcases List.mem_cons.1 (hperm.mem_iff.1 hn) with rfl | hr
        · simp [appliedNode, Bucket.mdump, hp, hR.step]
        · have hk1 : n.key ≠ pn.node.key := by
            intro e
            exact hb0.pendingNotIn pn hp (e ▸ List.mem_map.2 ⟨n, hr, rfl⟩)
          simp only [hk1, if_false]
          have : ¬ some n.key = (none : Option Nat) := by simp
          simp only [this, if_false]
          exact hasg i hi n (by rw [hbj]; exact hr)
      · simp only [hij, if_false] at hn
        have hidx := (hinv i hi).index n hn
        have hk1 : n.key ≠ pn.node.key := by
          intro e
          have := hb0.pendingIndex pn hp
          rw [← e, hidx] at this
          exact hij (Option.some.inj this)
        simp only [hk1, if_false]
        have : ¬ some n.key = (none : Option Nat) := by simp
        simp only [this, if_false]
        exact hasg i hi n hn

end C37
