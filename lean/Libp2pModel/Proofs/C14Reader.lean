import Libp2pModel.Model.C14_Reader
import Libp2pModel.Proofs.C15Frame
/-!
# C14 helper: the incremental reader (`pollNext`) refines the batch decoder `frameDec`
-/
namespace C14
open Mss C15

theorem frameDec_encode (len : Nat) (X : Bytes) (h1 : 1 ≤ len) (h2 : len < 16384) :
    frameDec (Varint.encode len ++ X) =
      if len ≤ X.length then some (.data (X.take len), X.drop len) else none := by
  by_cases hs : len < 128
  · rw [encode_small _ hs]
    simp [frameDec, hs, h1]
  · have hn : ¬ (len % 128 + 128 < 128) := by omega
    have hd : len / 128 < 128 := by omega
    have hd0 : len / 128 ≠ 0 := by omega
    rw [encode_two _ (by omega) h2]
    simp only [List.cons_append, List.nil_append, frameDec, hn, hd, hd0, ↓reduceIte,
      prefix2 len (by omega) h2]

theorem held_two (b0 b : Nat) (h0 : 128 ≤ b0) (h0' : b0 < 256) (hb : b < 128) (hb0 : b ≠ 0) :
    let len := (b0 % 128) ||| (b <<< 7)
    1 ≤ len ∧ len < 16384 ∧ Varint.encode len = [b0, b] := by
  intro len
  have e : len = b0 % 128 + b * 128 := by
    show (b0 % 128) ||| (b <<< 7) = _
    rw [Nat.or_comm, ← Nat.shiftLeft_add_eq_or_of_lt (by omega : b0 % 128 < 2 ^ 7), Nat.shiftLeft_eq]
    omega
  refine ⟨by omega, by omega, ?_⟩
  rw [encode_two len (by omega) (by omega)]
  have a1 : len % 128 + 128 = b0 := by omega
  have a2 : len / 128 = b := by omega
  rw [a1, a2]

/-- **Refinement.** From any reader state, with any bytes ready and any chunk-size behaviour of
the stream, one `poll_next` yields exactly the frame (or error) that the batch decoder finds in
"bytes already pulled for this frame ++ bytes ready", leaving exactly the decoder's remainder; and
when the batch decoder needs more input it is `Pending`, having pulled everything that was ready. -/
theorem pollNext_refines : ∀ (fuel : Nat) (st : RState) (avail : Bytes) (lim : List Nat),
    st.WF → (∀ x ∈ avail, x < 256) → avail.length < fuel →
    match frameDec (held st ++ avail) with
    | some (f, rest) => ∃ lim', pollNext fuel st avail lim = (.frame f, .readLength none, rest, lim')
    | none => ∃ st' lim', pollNext fuel st avail lim = (.pending, st', [], lim') ∧ st'.WF ∧
        held st' = held st ++ avail := by
  intro fuel
  induction fuel with
  | zero => intro st avail lim _ _ h; omega
  | succ f ih =>
    intro st avail lim hwf hb hf
    cases st with
    | readLength b0o =>
      cases avail with
      | nil =>
        cases b0o with
        | none => exact ⟨_, _, rfl, trivial, rfl⟩
        | some b0 =>
          have : ¬ b0 < 128 := by have := hwf.1; omega
          simp only [held, List.append_nil, frameDec, this, ↓reduceIte]
          exact ⟨_, _, rfl, hwf, rfl⟩
      | cons b rest =>
        have hb256 : b < 256 := hb b (by simp)
        have hbr : ∀ x ∈ rest, x < 256 := fun x hx => hb x (by simp [hx])
        have hfr : rest.length < f := by simp at hf; omega
        cases b0o with
        | none =>
          simp only [held, List.nil_append]
          by_cases hlt : b < 128
          · by_cases h1 : b ≥ 1
            · have key := ih (.readData b []) rest lim ⟨h1, by omega, h1, by simp⟩ hbr hfr
              simp only [held, List.append_nil, encode_small b hlt] at key
              simp only [pollNext, hlt, ↓reduceIte, h1]
              exact key
            · have hb0 : b = 0 := by omega
              subst hb0
              simp [frameDec, pollNext]
          · have key := ih (.readLength (some b)) rest lim ⟨by omega, hb256⟩ hbr hfr
            simp only [held] at key
            simp only [pollNext, hlt, ↓reduceIte]
            exact key
        | some b0 =>
          obtain ⟨h0, h0'⟩ := hwf
          have hn0 : ¬ b0 < 128 := by omega
          simp only [held, List.cons_append, List.nil_append]
          by_cases hlt : b < 128
          · by_cases hz : b = 0
            · subst hz
              simp [frameDec, hn0, pollNext]
            · obtain ⟨l1, l2, l3⟩ := held_two b0 b h0 h0' hlt hz
              have key := ih (.readData ((b0 % 128) ||| (b <<< 7)) []) rest lim
                ⟨l1, l2, l1, by simp⟩ hbr hfr
              simp only [held, List.append_nil, l3, List.cons_append, List.nil_append] at key
              simp only [pollNext, hlt, ↓reduceIte, hz, l1]
              exact key
          · simp [frameDec, hn0, hlt, pollNext]
    | readData len acc =>
      obtain ⟨h1, h2, h3, h4⟩ := hwf
      simp only [held, List.append_assoc]
      rw [frameDec_encode len (acc ++ avail) h1 h2]
      cases avail with
      | nil =>
        have : ¬ len ≤ (acc ++ ([] : Bytes)).length := by simp; omega
        simp only [this, ↓reduceIte]
        exact ⟨_, _, rfl, ⟨h1, h2, h3, h4⟩, by simp [held]⟩
      | cons a as =>
        -- abbreviations for the quantities of this iteration
        have hwant : 1 ≤ len - acc.length := by omega
        have hlen : (a :: as).length = as.length + 1 := rfl
        simp only [pollNext]
        generalize hl : readLimit lim (len - acc.length) = l
        have hl1 : 1 ≤ l := by
          cases lim with
          | nil => simp [readLimit] at hl; omega
          | cons k ks => simp [readLimit] at hl; omega
        generalize hn : min (len - acc.length) (min (a :: as).length l) = n
        have hn1 : 1 ≤ n := by rw [← hn]; omega
        have hnw : n ≤ len - acc.length := by rw [← hn]; omega
        have hna : n ≤ (a :: as).length := by rw [← hn]; omega
        have htake : ((a :: as).take n).length = n := by simp; omega
        by_cases hfull : (acc ++ (a :: as).take n).length = len
        · have hnn : n = len - acc.length := by
            rw [List.length_append, htake] at hfull; omega
          have hle : len ≤ (acc ++ a :: as).length := by
            rw [List.length_append]; omega
          simp only [hfull, ↓reduceIte, hle]
          refine ⟨lim.tail, ?_⟩
          have e1 : (acc ++ a :: as).take len = acc ++ (a :: as).take n := by
            rw [List.take_append, hnn]
            have : List.take len acc = acc := List.take_of_length_le (by omega)
            rw [this]
          have e2 : (acc ++ a :: as).drop len = (a :: as).drop n := by
            rw [List.drop_append, hnn]
            have : List.drop len acc = [] := List.drop_of_length_le (by omega)
            rw [this]; rfl
          rw [e1, e2]
        · have hlt : (acc ++ (a :: as).take n).length < len := by
            rw [List.length_append, htake] at hfull ⊢; omega
          simp only [hfull, ↓reduceIte]
          have hbr : ∀ x ∈ (a :: as).drop n, x < 256 := fun x hx => hb x (List.mem_of_mem_drop hx)
          have hfr : ((a :: as).drop n).length < f := by
            rw [List.length_drop]; simp at hf ⊢; omega
          have key := ih (.readData len (acc ++ (a :: as).take n)) ((a :: as).drop n) lim.tail
            ⟨h1, h2, hlt, by
              intro x hx
              rw [List.mem_append] at hx
              rcases hx with hx | hx
              · exact h4 x hx
              · exact hb x (List.mem_of_mem_take hx)⟩ hbr hfr
          have hrejoin : acc ++ (a :: as).take n ++ (a :: as).drop n = acc ++ a :: as := by
            rw [List.append_assoc, List.take_append_drop]
          simp only [held, List.append_assoc] at key
          rw [frameDec_encode len _ h1 h2] at key
          rw [← List.append_assoc, hrejoin] at key
          split
          · rename_i hle
            simp only [hle, ↓reduceIte] at key
            exact key
          · rename_i hle
            simp only [hle, ↓reduceIte] at key
            obtain ⟨st', lim', k1, k2, k3⟩ := key
            refine ⟨st', lim', k1, k2, ?_⟩
            rw [k3]

theorem frameDec_rest_mem (b : Bytes) (f : Frame) (r : Bytes) (h : frameDec b = some (f, r)) :
    ∀ x ∈ r, x ∈ b := by
  intro x hx
  unfold frameDec at h
  split at h
  · simp at h
  · rename_i b0 r0
    split at h
    · split at h
      · split at h
        · simp at h; obtain ⟨_, rfl⟩ := h
          exact List.mem_cons_of_mem _ (List.mem_of_mem_drop hx)
        · simp at h
      · simp at h; obtain ⟨_, rfl⟩ := h; exact List.mem_cons_of_mem _ hx
    · split at h
      · simp at h
      · rename_i b1 r1
        split at h
        · split at h
          · simp at h; obtain ⟨_, rfl⟩ := h
            exact List.mem_cons_of_mem _ (List.mem_cons_of_mem _ hx)
          · simp only at h
            split at h
            · simp at h; obtain ⟨_, rfl⟩ := h
              exact List.mem_cons_of_mem _ (List.mem_cons_of_mem _ (List.mem_of_mem_drop hx))
            · simp at h
        · simp at h; obtain ⟨_, rfl⟩ := h
          exact List.mem_cons_of_mem _ (List.mem_cons_of_mem _ hx)

theorem held_bytes (st : RState) (h : st.WF) : ∀ x ∈ held st, x < 256 := by
  intro x hx
  cases st with
  | readLength b0o =>
    cases b0o with
    | none => simp [held] at hx
    | some b0 => simp [held] at hx; subst hx; exact h.2
  | readData len acc =>
    simp only [held, List.mem_append] at hx
    rcases hx with hx | hx
    · exact Varint.encode_bytes_lt len x hx
    · exact h.2.2.2 x hx

theorem drain_succ_some (buf : Bytes) (k : Nat) (f : Frame) (r : Bytes)
    (h : frameDec buf = some (f, r)) :
    Framed.drain frameDec (k + 1) buf =
      (f :: (Framed.drain frameDec k r).1, (Framed.drain frameDec k r).2) := by
  simp only [Framed.drain, h]

/-- polling until `Pending` on the bytes ready = draining the batch decoder on
"held ++ ready"; the reader is left holding exactly the decoder's residual -/
theorem readerFeed_eq_drain : ∀ (k : Nat) (st : RState) (avail : Bytes) (lim : List Nat),
    st.WF → (∀ x ∈ avail, x < 256) → (held st ++ avail).length ≤ k →
    ∃ st', readerFeed (k + 1) st avail lim =
        ((Framed.drain frameDec (k + 1) (held st ++ avail)).1, st') ∧
      st'.WF ∧ held st' = (Framed.drain frameDec (k + 1) (held st ++ avail)).2 := by
  intro k
  induction k with
  | zero =>
    intro st avail lim hwf hb hk
    have hnil : held st ++ avail = [] := by
      cases h : held st ++ avail with
      | nil => rfl
      | cons a as => rw [h] at hk; simp at hk
    have havail : avail = [] := (List.append_eq_nil_iff.1 hnil).2
    subst havail
    have := pollNext_refines 1 st [] lim hwf hb (by simp)
    rw [hnil] at this
    simp only [frameDec] at this
    obtain ⟨st', lim', h1, h2, h3⟩ := this
    refine ⟨st', ?_, h2, ?_⟩
    · simp [readerFeed, h1, hnil, Framed.drain, frameDec]
    · rw [h3]; simp [Framed.drain, hnil, frameDec]
  | succ k ih =>
    intro st avail lim hwf hb hk
    have href := pollNext_refines (avail.length + 1) st avail lim hwf hb (by omega)
    cases hdec : frameDec (held st ++ avail) with
    | none =>
      rw [hdec] at href
      obtain ⟨st', lim', h1, h2, h3⟩ := href
      refine ⟨st', ?_, h2, ?_⟩
      · simp [readerFeed, h1, Framed.drain, hdec]
      · rw [h3]; simp [Framed.drain, hdec]
    | some p =>
      obtain ⟨f, rest⟩ := p
      rw [hdec] at href
      obtain ⟨lim', h1⟩ := href
      have hprog := frameDec_progress _ _ _ hdec
      have hbr : ∀ x ∈ rest, x < 256 := by
        intro x hx
        have := frameDec_rest_mem _ _ _ hdec x hx
        rw [List.mem_append] at this
        rcases this with h | h
        · exact held_bytes st hwf x h
        · exact hb x h
      obtain ⟨st', e1, e2, e3⟩ := ih (.readLength none) rest lim' trivial hbr
        (by simp [held]; omega)
      have hh : held (.readLength none) ++ rest = rest := by simp [held]
      rw [hh] at e1 e3
      refine ⟨st', ?_, e2, ?_⟩
      · rw [readerFeed, h1]
        simp only [e1]
        rw [drain_succ_some _ _ _ _ hdec]
      · rw [e3, drain_succ_some _ (k + 1) _ _ hdec]

/-- `readerFeed` with the fuel the harness-facing definition uses -/
theorem readerFeed_eq_feed (st : RState) (c : Bytes) (lim : List Nat) (hwf : st.WF)
    (hb : ∀ x ∈ c, x < 256) (hres : frameDec (held st) = none ∨ True) :
    ∃ st', readerFeed ((held st ++ c).length + 1) st c lim =
        ((Framed.feed frameDec (held st) c).1, st') ∧ st'.WF ∧
      held st' = (Framed.feed frameDec (held st) c).2 := by
  obtain ⟨st', h1, h2, h3⟩ := readerFeed_eq_drain (held st ++ c).length st c lim hwf hb (Nat.le_refl _)
  have e := Framed.drain_fuel_irrel frameDec frameDec_good ((held st ++ c).length + 1)
    (held st ++ c).length (held st ++ c) (by omega) (Nat.le_refl _)
  refine ⟨st', ?_, h2, ?_⟩
  · rw [h1, e]; rfl
  · rw [h3, e]; rfl

/-- feeding chunk after chunk to the incremental reader = `Framed.feedMany` of the batch decoder -/
theorem readerFeedMany_eq : ∀ (chunks : List Bytes) (st : RState) (lims : List (List Nat)),
    st.WF → (∀ c ∈ chunks, ∀ x ∈ c, x < 256) →
    ∃ st', readerFeedMany st chunks lims = ((Framed.feedMany frameDec (held st) chunks).1, st') ∧
      st'.WF ∧ held st' = (Framed.feedMany frameDec (held st) chunks).2 := by
  intro chunks
  induction chunks with
  | nil => intro st lims hwf _; exact ⟨st, rfl, hwf, rfl⟩
  | cons c cs ih =>
    intro st lims hwf hb
    obtain ⟨st1, h1, h2, h3⟩ := readerFeed_eq_feed st c (lims.headD []) hwf (hb c (by simp)) (Or.inr trivial)
    obtain ⟨st2, g1, g2, g3⟩ := ih st1 lims.tail h2 (fun c' hc' => hb c' (by simp [hc']))
    refine ⟨st2, ?_, g2, ?_⟩
    · simp only [readerFeedMany, h1, g1, Framed.feedMany, h3]
    · simp only [Framed.feedMany, g3, h3]

/-- **The real, incremental reader is chunking-independent**: however the byte stream is cut
into deliveries and whatever sizes the individual `poll_read`s return, the frames (and errors)
`LengthDelimited::poll_next` yields are those of the batch decoder on the whole stream, and the
bytes it holds for the unfinished frame are the decoder's residual. -/
theorem reader_chunk_independent (chunks : List Bytes) (lims : List (List Nat))
    (hb : ∀ c ∈ chunks, ∀ x ∈ c, x < 256) :
    ∃ st', readerFeedMany (.readLength none) chunks lims =
        ((Framed.drainAll frameDec chunks.flatten).1, st') ∧
      st'.WF ∧ held st' = (Framed.drainAll frameDec chunks.flatten).2 := by
  obtain ⟨st', h1, h2, h3⟩ := readerFeedMany_eq chunks (.readLength none) lims trivial hb
  have e : Framed.feedMany frameDec (held (.readLength none)) chunks =
      Framed.drainAll frameDec chunks.flatten := by
    simpa [held] using Framed.feedMany_nil_start frameDec frameDec_good chunks
  rw [e] at h1 h3
  exact ⟨st', h1, h2, h3⟩

/-- at EOF the incremental reader reports what `Mss.eofEvent` says about the residual -/
theorem atEof_eq (st : RState) (hwf : st.WF) : atEof st = eofEvent (held st) := by
  cases st with
  | readLength b0o => cases b0o <;> simp [atEof, eofEvent, held]
  | readData len acc =>
    have := Varint.encode_ne_nil len
    simp [atEof, eofEvent, held, this]

end C14
