import Libp2pModel.Model.C57
/-!
# C57 — helper lemmas about the varint loop and the frame decoder
-/
namespace C57

/-! ## the varint loop -/

theorem uviGo_no_panic (buf : List Nat) : ∀ (i n : Nat), i ≤ 9 → uviGo i n buf ≠ .panic := by
  induction buf with
  | nil => intro i n _; simp [uviGo]
  | cons b rest ih =>
    intro i n hi
    unfold uviGo
    have h1 : ¬ (64 ≤ i * 7) := by omega
    simp only [h1, ↓reduceIte]
    split
    · split <;> simp
    · split
      · simp
      · exact ih _ _ (by omega)

/-- a successful varint consumed a non-empty prefix of at most `10 - i` bytes -/
theorem uviGo_ok_split (buf : List Nat) : ∀ (i n v : Nat) (r : List Nat), uviGo i n buf = .ok v r →
    ∃ pre, buf = pre ++ r ∧ 0 < pre.length ∧ pre.length + i ≤ 10 := by
  induction buf with
  | nil => intro i n v r h; simp [uviGo] at h
  | cons b rest ih =>
    intro i n v r h
    unfold uviGo at h
    split at h
    · simp at h
    · split at h
      · split at h
        · simp at h
        · simp only [Uvi.ok.injEq] at h
          refine ⟨[b], ?_, by simp, ?_⟩
          · simp [h.2]
          · simp; omega
      · split at h
        · simp at h
        · obtain ⟨pre, hp, hl, hle⟩ := ih _ _ _ _ h
          refine ⟨b :: pre, by simp [hp], by simp, ?_⟩
          simp; omega

theorem uviGo_ok_append (buf x : List Nat) : ∀ (i n v : Nat) (r : List Nat), uviGo i n buf = .ok v r →
    uviGo i n (buf ++ x) = .ok v (r ++ x) := by
  induction buf with
  | nil => intro i n v r h; simp [uviGo] at h
  | cons b rest ih =>
    intro i n v r h
    rw [List.cons_append]
    unfold uviGo at h ⊢
    split at h
    · simp at h
    · rename_i h1
      simp only [h1, ↓reduceIte]
      split at h
      · rename_i h2
        simp only [h2, ↓reduceIte]
        split at h
        · simp at h
        · rename_i h3
          simp only [h3, ↓reduceIte]
          simp only [Uvi.ok.injEq] at h ⊢
          exact ⟨h.1, by rw [h.2]⟩
      · rename_i h2
        simp only [h2, ↓reduceIte]
        split at h
        · simp at h
        · rename_i h3
          simp only [h3, ↓reduceIte]
          exact ih _ _ _ _ h

theorem uviGo_overflow_append (buf x : List Nat) : ∀ (i n : Nat), uviGo i n buf = .overflow →
    uviGo i n (buf ++ x) = .overflow := by
  induction buf with
  | nil => intro i n h; simp [uviGo] at h
  | cons b rest ih =>
    intro i n h
    rw [List.cons_append]
    unfold uviGo at h ⊢
    split at h
    · simp at h
    · rename_i h1
      simp only [h1, ↓reduceIte]
      split at h
      · split at h <;> simp at h
      · rename_i h2
        simp only [h2, ↓reduceIte]
        split at h
        · rename_i h3; simp [h3]
        · rename_i h3
          simp only [h3, ↓reduceIte]
          exact ih _ _ h

theorem uviGo_notMinimal_append (buf x : List Nat) : ∀ (i n : Nat), uviGo i n buf = .notMinimal →
    uviGo i n (buf ++ x) = .notMinimal := by
  induction buf with
  | nil => intro i n h; simp [uviGo] at h
  | cons b rest ih =>
    intro i n h
    rw [List.cons_append]
    unfold uviGo at h ⊢
    split at h
    · simp at h
    · rename_i h1
      simp only [h1, ↓reduceIte]
      split at h
      · rename_i h2
        simp only [h2, ↓reduceIte]
        split at h
        · rename_i h3; simp [h3]
        · simp at h
      · rename_i h2
        simp only [h2, ↓reduceIte]
        split at h
        · simp at h
        · rename_i h3
          simp only [h3, ↓reduceIte]
          exact ih _ _ h

theorem pow7_succ (i : Nat) : 2 ^ ((i + 1) * 7) = 128 * 2 ^ (i * 7) := by
  rw [Nat.add_mul, Nat.pow_add]; simp [Nat.mul_comm]

/-- `acc | (k << s)` is an addition when `acc` lives below bit `s` -/
theorem or_shift_eq_add (acc k s : Nat) (h : acc < 2 ^ s) : acc ||| (k <<< s) = acc + k * 2 ^ s := by
  rw [Nat.or_comm, ← Nat.shiftLeft_add_eq_or_of_lt h, Nat.shiftLeft_eq, Nat.add_comm]

/-- the loop decodes the canonical encoding of `n` (the accumulated value is `acc + n·2^(7i)`) -/
theorem uviGo_encode (n : Nat) (rest : List Nat) : ∀ (i acc : Nat), i ≤ 9 → (0 < i → 0 < n) →
    n * 2 ^ (i * 7) < U64 → acc < 2 ^ (i * 7) →
    uviGo i acc (Varint.encode n ++ rest) = .ok (acc + n * 2 ^ (i * 7)) rest := by
  fun_induction Varint.encode n with
  | case1 n h =>
    intro i acc hi hpos hlt hacc
    simp only [List.cons_append, List.nil_append]
    unfold uviGo
    have h1 : ¬ (64 ≤ i * 7) := by omega
    have h2 : ¬ (n = 0 ∧ 0 < i) := by intro ⟨h0, hi0⟩; have := hpos hi0; omega
    have h3 : n % 128 = n := Nat.mod_eq_of_lt h
    simp only [h1, ↓reduceIte, h, h2, h3]
    have hm : (n <<< (i * 7)) % U64 = n <<< (i * 7) := by
      rw [Nat.shiftLeft_eq]; exact Nat.mod_eq_of_lt hlt
    rw [hm, or_shift_eq_add acc n _ hacc]
  | case2 n h ih =>
    intro i acc hi hpos hlt hacc
    simp only [List.cons_append]
    unfold uviGo
    have hP : 0 < 2 ^ (i * 7) := Nat.two_pow_pos _
    have h1 : ¬ (64 ≤ i * 7) := by omega
    have h2 : ¬ (n % 128 + 128 < 128) := by omega
    have h3 : (n % 128 + 128) % 128 = n % 128 := by omega
    have hn : n = 128 * (n / 128) + n % 128 := (Nat.div_add_mod n 128).symm
    have h9 : ¬ (i = 9) := by
      intro h9; subst h9
      have : 128 * 2 ^ (9 * 7) ≤ n * 2 ^ (9 * 7) := Nat.mul_le_mul_right _ (by omega)
      have h64 : U64 = 2 * 2 ^ (9 * 7) := by decide
      omega
    have hk : (n % 128) * 2 ^ (i * 7) ≤ n * 2 ^ (i * 7) := Nat.mul_le_mul_right _ (Nat.mod_le _ _)
    simp only [h1, ↓reduceIte, h2, h3, h9]
    have hm : ((n % 128) <<< (i * 7)) % U64 = (n % 128) <<< (i * 7) := by
      rw [Nat.shiftLeft_eq]; exact Nat.mod_eq_of_lt (by omega)
    rw [hm, or_shift_eq_add acc _ _ hacc]
    have hdiv : (n / 128) * 2 ^ ((i + 1) * 7) + (n % 128) * 2 ^ (i * 7) = n * 2 ^ (i * 7) := by
      rw [pow7_succ]
      conv => rhs; rw [hn]
      rw [Nat.add_mul, ← Nat.mul_assoc, Nat.mul_comm (n / 128) 128]
    have hacc' : acc + n % 128 * 2 ^ (i * 7) < 2 ^ ((i + 1) * 7) := by
      rw [pow7_succ]
      have : n % 128 * 2 ^ (i * 7) ≤ 127 * 2 ^ (i * 7) := Nat.mul_le_mul_right _ (by omega)
      omega
    rw [ih (i + 1) _ (by omega) (fun _ => by omega) (by omega) hacc']
    congr 1
    omega

theorem uvi_encode (n : Nat) (rest : List Nat) (h : n < U64) :
    uvi (Varint.encode n ++ rest) = .ok n rest := by
  have := uviGo_encode n rest 0 0 (by omega) (by omega) (by simpa using h) (by simp)
  simpa [uvi] using this

/-- `Varint.encode` of a `u64` value has at most 10 bytes -/
theorem encode_len_le_ten (n : Nat) (h : n < U64) : (Varint.encode n).length ≤ 10 := by
  have : n < 128 ^ (9 + 1) := by
    have : U64 ≤ 128 ^ (9 + 1) := by decide
    omega
  exact Varint.len_le_of_lt 9 n this

theorem uvi_ok_split (buf : List Nat) (v : Nat) (r : List Nat) (h : uvi buf = .ok v r) :
    ∃ pre, buf = pre ++ r ∧ 0 < pre.length ∧ pre.length ≤ 10 := by
  obtain ⟨pre, a, b, c⟩ := uviGo_ok_split buf 0 0 v r h
  exact ⟨pre, a, b, by omega⟩

/-! ## the frame decoder -/

/-- closed form of a successful `frame`: the buffer is `prefix ++ payload ++ rest` -/
theorem frame_ok_iff (max : Nat) (src p r : List Nat) :
    frame max src = .ok p r ↔
      ∃ pre, src = pre ++ p ++ r ∧ uvi src = .ok p.length (p ++ r) ∧ p.length ≤ max ∧
        p.length + pre.length < U64 := by
  constructor
  · intro h
    unfold frame at h
    split at h <;> try (simp at h; done)
    rename_i len remaining hu
    obtain ⟨pre, hsrc, hpos, hle⟩ := uvi_ok_split src len remaining hu
    have hlen : src.length = pre.length + remaining.length := by rw [hsrc]; simp
    have hvl : src.length - remaining.length = pre.length := by omega
    have hdrop : List.drop pre.length src = remaining := by rw [hsrc]; simp
    simp only [hvl, hdrop] at h
    split at h <;> try (simp at h; done)
    split at h <;> try (simp at h; done)
    split at h <;> try (simp at h; done)
    split at h <;> try (simp at h; done)
    split at h <;> try (simp at h; done)
    rename_i h1 h2 h3 h4 h5
    simp only [Res.ok.injEq] at h
    have htl : (List.take len remaining).length = len := by simp; omega
    refine ⟨pre, ?_, ?_, ?_, ?_⟩
    · rw [hsrc, ← h.1, ← h.2, List.append_assoc, List.take_append_drop]
    · rw [hu, ← h.1, ← h.2, htl, List.take_append_drop]
    · rw [← h.1, htl]; omega
    · rw [← h.1, htl]; omega
  · rintro ⟨pre, hsrc, hu, hmax, h64⟩
    unfold frame
    rw [hu]
    have hlen : src.length = pre.length + (p ++ r).length := by rw [hsrc]; simp
    have hvl : src.length - (p ++ r).length = pre.length := by omega
    have hdrop : List.drop pre.length src = p ++ r := by rw [hsrc, List.append_assoc]; simp
    simp only [hvl, hdrop]
    have h1 : ¬ (p.length > max) := by omega
    have h2 : ¬ (src.length < (p ++ r).length) := by omega
    have h3 : ¬ (U64 ≤ p.length + pre.length ∨ src.length < p.length + pre.length) := by
      simp at hlen; omega
    have h4 : ¬ (src.length < pre.length) := by omega
    simp only [List.length_append] at hlen h2 h3 ⊢
    have h5 : ¬ (p.length + r.length < p.length) := by omega
    simp [h1, h2, h3, h4, h5]

theorem frame_no_panic (max : Nat) (src : List Nat) : frame max src ≠ .panic := by
  unfold frame
  split
  · simp
  · simp
  · simp
  · rename_i hu; exact absurd hu (uviGo_no_panic src 0 0 (by omega))
  · rename_i len remaining hu
    obtain ⟨pre, hsrc, hpos, hle⟩ := uvi_ok_split src len remaining hu
    have hlen : src.length = pre.length + remaining.length := by rw [hsrc]; simp
    have hvl : src.length - remaining.length = pre.length := by omega
    have hdrop : List.drop pre.length src = remaining := by rw [hsrc]; simp
    simp only [hvl, hdrop]
    split
    · simp
    · split
      · omega
      · split
        · simp
        · split
          · omega
          · split
            · omega
            · simp

theorem frame_ok_append (max : Nat) (src p r x : List Nat) (h : frame max src = .ok p r) :
    frame max (src ++ x) = .ok p (r ++ x) := by
  obtain ⟨pre, hsrc, hu, hmax, h64⟩ := (frame_ok_iff max src p r).1 h
  refine (frame_ok_iff max (src ++ x) p (r ++ x)).2 ⟨pre, ?_, ?_, hmax, h64⟩
  · rw [hsrc]; simp
  · have := uviGo_ok_append src x 0 0 _ _ hu
    simpa [uvi] using this

theorem frame_err_append (max : Nat) (src x : List Nat) (e : Err) (h : frame max src = .err e) :
    frame max (src ++ x) = .err e := by
  unfold frame at h ⊢
  split at h
  · simp at h
  · rename_i hu
    have := uviGo_overflow_append src x 0 0 hu
    simp only [uvi] at this ⊢
    rw [this]; simpa using h
  · rename_i hu
    have := uviGo_notMinimal_append src x 0 0 hu
    simp only [uvi] at this ⊢
    rw [this]; simpa using h
  · simp at h
  · rename_i len remaining hu
    have hu' : uvi (src ++ x) = .ok len (remaining ++ x) := uviGo_ok_append src x 0 0 _ _ hu
    rw [hu']
    split at h
    · rename_i hgt; simp only [hgt, ↓reduceIte]; exact h
    · exfalso
      dsimp only at h
      split at h <;> try (simp at h; done)
      split at h <;> try (simp at h; done)
      split at h <;> try (simp at h; done)
      split at h <;> simp at h

theorem frameOk_good (max : Nat) : Framed.Good (frameOk max) where
  progress := by
    intro b f r h
    unfold frameOk at h
    split at h <;> try (simp at h; done)
    rename_i p r' hf
    simp only [Option.some.injEq, Prod.mk.injEq] at h
    obtain ⟨pre, hsrc, hu, _, _⟩ := (frame_ok_iff max b p r').1 hf
    obtain ⟨pre', hsrc', hpos, _⟩ := uvi_ok_split b _ _ hu
    have : b.length = pre'.length + (p ++ r').length := by rw [hsrc']; simp
    rw [← h.2]; simp at this; omega
  stable := by
    intro b f r x h
    unfold frameOk at h ⊢
    split at h <;> try (simp at h; done)
    rename_i p r' hf
    simp only [Option.some.injEq, Prod.mk.injEq] at h
    rw [frame_ok_append max b p r' x hf, ← h.1, ← h.2]

/-- one frame off the front of a buffer -/
theorem drainAll_cons {F : Type} (dec : Framed.Dec F) (hg : Framed.Good dec) (buf : List Nat) (f : F)
    (r : List Nat) (h : dec buf = some (f, r)) :
    Framed.drainAll dec buf = (f :: (Framed.drainAll dec r).1, (Framed.drainAll dec r).2) := by
  have hlt := hg.progress buf f r h
  unfold Framed.drainAll
  obtain ⟨k, hk⟩ : ∃ k, buf.length = k + 1 := ⟨buf.length - 1, by omega⟩
  rw [hk]
  simp only [Framed.drain, h]
  rw [Framed.drain_fuel_irrel dec hg k r.length r (by omega) (Nat.le_refl _)]

/-- encoding then framing returns the body, whatever follows -/
theorem frame_encode (max : Nat) (body rest : List Nat) (hmax : body.length ≤ max)
    (hmem : body.length < 2 ^ 63) : frame max (encode body ++ rest) = .ok body rest := by
  have h64 : body.length < U64 := by have : (2:Nat) ^ 63 < U64 := by decide
                                     omega
  refine (frame_ok_iff max _ body rest).2 ⟨Varint.encode body.length, by simp [encode], ?_, hmax, ?_⟩
  · simp only [encode, List.append_assoc]
    exact uvi_encode _ _ h64
  · have := encode_len_le_ten body.length h64
    have : (2:Nat) ^ 63 + 10 < U64 := by decide
    omega

end C57
