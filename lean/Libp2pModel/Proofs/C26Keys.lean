import Libp2pModel.Proofs.C24Send
namespace C26
open C25 (Sid Role Frame)

/-! ### entries of the substream table are never lost (while the connection is healthy)

`KK s s'`: if the connection is still open in `s'` it was open in `s`, and every substream present
in `s` is present in `s'`. -/

def KK (s s' : State) : Prop :=
  s'.status = .opn → s.status = .opn ∧ ∀ id, (s.get id).isSome = true → (s'.get id).isSome = true

theorem KK_refl (s : State) : KK s s := fun h => ⟨h, fun _ h => h⟩

theorem KK_trans {a b c : State} (h1 : KK a b) (h2 : KK b c) : KK a c := by
  intro hc
  obtain ⟨hb, k2⟩ := h2 hc
  obtain ⟨ha, k1⟩ := h1 hb
  exact ⟨ha, fun id h => k2 id (k1 id h)⟩

theorem KK_of_eq {s s' : State} (hs : s'.subs = s.subs) (hst : s'.status = s.status) : KK s s' := by
  intro h
  refine ⟨by rw [← hst]; exact h, fun id hid => ?_⟩
  unfold State.get at *; rw [hs]; exact hid

theorem KK_onError (t s : State) (k : EK) : KK t (onError s k) := by
  intro h; simp [onError] at h

theorem KK_put (s : State) (x : Sub) : KK s (s.put x) := by
  intro h
  refine ⟨h, fun id hid => ?_⟩
  rw [get_put]; split
  · rfl
  · exact hid

theorem KK_sinkReady (s : State) : KK s (sinkReady s).1 :=
  KK_of_eq (sinkReady_core s).2.1 (sinkReady_core s).2.2.2.2.2

theorem KK_sendFrame (s : State) (f : Frame) : KK s (sendFrame s f).1 := by
  unfold sendFrame
  have h := KK_sinkReady s
  rcases hsr : sinkReady s with ⟨s1, b⟩
  rw [hsr] at h
  cases b with
  | false => exact h
  | true =>
    simp only
    split
    · exact KK_onError _ _ _
    · exact KK_trans h (KK_of_eq rfl rfl)

theorem KK_sendPendingGo : ∀ (l : List Frame) (s : State), KK s (sendPendingGo s l).1 := by
  intro l
  induction l with
  | nil => intro s; exact KK_of_eq rfl rfl
  | cons f rest ih =>
    intro s
    simp only [sendPendingGo]
    have h := KK_sendFrame { s with pendQ := rest } f
    have h0 : KK s { s with pendQ := rest } := KK_of_eq rfl rfl
    rcases hsf : sendFrame { s with pendQ := rest } f with ⟨s', r⟩
    rw [hsf] at h
    cases r with
    | pending => exact KK_trans (KK_trans h0 h) (KK_of_eq rfl rfl)
    | ready e =>
      cases e with
      | error k => exact KK_trans h0 h
      | ok u => exact KK_trans (KK_trans h0 h) (ih s')

theorem KK_sendPending (s : State) : KK s (sendPending s).1 := KK_sendPendingGo _ _

theorem KK_pollFlush (s : State) : KK s (pollFlush s).1 := by
  unfold pollFlush
  split
  · exact KK_refl _
  · exact KK_refl _
  · have h := KK_sendPending s
    rcases hsp : sendPending s with ⟨s1, r⟩
    rw [hsp] at h
    cases r with
    | pending => exact h
    | ready e =>
      cases e with
      | error k => exact h
      | ok u =>
        simp only
        split
        · exact h
        · exact KK_trans h (KK_of_eq rfl rfl)

theorem KK_readFlush (s : State) (sid : Option Sid) : KK s (readFlush s sid).1 := by
  unfold readFlush
  split
  · split
    · have hp := KK_pollFlush s
      rcases hpf : pollFlush s with ⟨s2, r2⟩
      rw [hpf] at hp
      cases r2 with
      | pending => exact hp
      | ready e => cases e with
        | error k => exact hp
        | ok u => exact KK_trans hp (KK_of_eq rfl rfl)
    · exact KK_refl _
  · exact KK_refl _

theorem KK_readTail (s : State) : KK s (readTail s).1 := by
  unfold readTail
  split
  · exact KK_refl _
  · split
    · exact KK_refl _
    · exact KK_of_eq rfl rfl
    · exact KK_onError _ _ _
    · exact KK_onError _ _ _

theorem KK_readFrame (s : State) (sid : Option Sid) : KK s (readFrame s sid).1 := by
  unfold readFrame
  have h := KK_sendPending s
  rcases hsp : sendPending s with ⟨s1, r⟩
  rw [hsp] at h
  have rest : KK s (match readFlush s1 sid with
      | (s, some r) => (s, r)
      | (s, none) => readTail s : State × R Frame).1 := by
    have hf := KK_readFlush s1 sid
    rcases hrf : readFlush s1 sid with ⟨s2, o⟩
    rw [hrf] at hf
    cases o with
    | some r => exact KK_trans h hf
    | none => exact KK_trans h (KK_trans hf (KK_readTail s2))
  cases r with
  | pending => exact rest
  | ready e =>
    cases e with
    | error k => exact h
    | ok u => exact rest

theorem KK_checkMaxPending (s : State) : KK s (checkMaxPending s).1 := by
  unfold checkMaxPending; split
  · exact KK_onError _ _ _
  · exact KK_refl _

theorem KK_onOpen (s : State) (rid : Sid) : KK s (onOpen s rid).1 := by
  unfold onOpen
  simp only
  split
  · exact KK_onError _ _ _
  · split
    · have hc := KK_checkMaxPending s
      rcases hcm : checkMaxPending s with ⟨s1, r⟩
      rw [hcm] at hc
      cases r with
      | error k => exact hc
      | ok u => exact KK_trans hc (KK_of_eq rfl rfl)
    · exact KK_put _ _

theorem KK_onReset (s : State) (id : Sid) : KK s (onReset s id) := by
  unfold onReset
  split
  · exact KK_refl _
  · split <;> exact KK_put _ _

theorem KK_onClose (s : State) (id : Sid) : KK s (onClose s id) := by
  unfold onClose
  split
  · exact KK_refl _
  · split <;> first | exact KK_refl _ | exact KK_put _ _

theorem KK_buffer (s : State) (id : Sid) (d : List Nat) : KK s (buffer s id d).1 := by
  unfold buffer
  split
  · exact KK_refl _
  · split
    · exact KK_refl _
    · split
      · exact KK_refl _
      · simp only
        split
        · split
          · exact KK_trans (KK_put _ _) (KK_of_eq rfl rfl)
          · by_cases hge : s.pendQ.length ≥ s.cfg.maxSubs + EXTRA_PENDING_FRAMES
            · simp only [checkMaxPending, put_pendQ, put_cfg, hge, ↓reduceIte]
              exact KK_onError _ _ _
            · simp only [checkMaxPending, put_pendQ, put_cfg, hge, ↓reduceIte]
              exact KK_trans (KK_put _ _) (KK_trans (KK_put _ _) (KK_of_eq rfl rfl))
        · exact KK_put _ _

end C26
