import Libp2pModel.Proofs.C45Lemmas
/-! # C45 — the bookkeeping invariant and its preservation by every operation -/
namespace C45

/-- summary of the history (what the Spec's trace functions compute) -/
structure Hs where
  iss : List (RId × Peer)
  od : List (RId × Peer)
  dl : List (RId × Peer)
  idn : List (RId × Peer)
  seen : List RId
  opn : Peer → Int
  dial : Peer → Bool

def Hs.empty : Hs := ⟨[], [], [], [], [], fun _ => 0, fun _ => false⟩

def Hs.push (h : Hs) (e : Entry) : Hs :=
  { iss := h.iss ++ issuedOf e, od := h.od ++ outDone e.out.evs, dl := h.dl ++ delivered e.out.evs,
    idn := h.idn ++ inDone e.out.evs, seen := h.seen ++ reqIdOf e.op,
    opn := fun p => h.opn p + openDelta p e, dial := fun p => dialStep p (h.dial p) e }

/-- **The invariant.**  `part` is the partition: for every peer `p` and id, the number of places
the id is pending at (`pending_outbound_requests[p]`, the connections of `p`) plus the number of
outcomes reported for `(id, p)` equals the number of times `(id, p)` was issued (0 or 1). -/
structure Inv (s : St) (h : Hs) : Prop where
  next_pos : 1 ≤ s.nextId
  iss_eq : h.iss.map (·.1) = List.range' 1 (s.nextId - 1)
  part : ∀ p id, (s.pending p).count id + cnt true id (s.connected p) + h.od.count (id, p)
          = h.iss.count (id, p)
  opn_eq : ∀ p, ((s.connected p).length : Int) = h.opn p
  dial_ok : ∀ p, s.pending p ≠ [] → h.dial p = true
  seen_ok : ∀ p id, 0 < cnt false id (s.connected p) → id ∈ h.seen
  inb : h.seen.Nodup →
    (∀ p id, cnt false id (s.connected p) + h.idn.count (id, p) = h.dl.count (id, p)) ∧
    (h.dl.map (·.1)).Nodup ∧ (∀ x ∈ h.dl, x.1 ∈ h.seen)

@[simp] theorem upd_same {β : Type} (f : Nat → β) (k : Nat) (v : β) : upd f k v k = v := by simp [upd]
theorem upd_other {β : Type} (f : Nat → β) (k q : Nat) (v : β) (h : q ≠ k) : upd f k v q = f q := by
  simp [upd, h]

theorem Inv.fresh_not_issued {s : St} {h : Hs} (hi : Inv s h) (p : Peer) :
    h.iss.count (s.nextId, p) = 0 := by
  apply List.count_eq_zero.2
  intro hm
  have : s.nextId ∈ h.iss.map (·.1) := List.mem_map.2 ⟨_, hm, rfl⟩
  rw [hi.iss_eq, List.mem_range'_1] at this
  have := hi.next_pos
  omega

theorem nodup_of_map {α β : Type} (f : α → β) (l : List α) (h : (l.map f).Nodup) : l.Nodup := by
  have := List.pairwise_map.1 h
  exact this.imp (fun hab e => hab (by rw [e]))

theorem Inv.iss_count_le {s : St} {h : Hs} (hi : Inv s h) (x : RId × Peer) : h.iss.count x ≤ 1 := by
  have hn : (h.iss.map (·.1)).Nodup := by rw [hi.iss_eq]; exact List.nodup_range'
  exact List.nodup_iff_count.1 (nodup_of_map _ _ hn) x

theorem count_pair_singleton (a b : RId × Peer) :
    [a].count b = if b = a then 1 else 0 := by
  by_cases h : b = a
  · subst h; simp
  · have : ¬ (a = b) := fun e => h e.symm
    simp [h, List.count_cons, this]

theorem count_nat_singleton (a b : Nat) : [a].count b = if b = a then 1 else 0 := by
  by_cases h : b = a
  · subst h; simp
  · have : ¬ (a = b) := fun e => h e.symm
    simp [h, List.count_cons, this]

theorem inv_send (s : St) (h : Hs) (hi : Inv s h) (p : Peer) (po pi : List (Peer × RId)) :
    Inv (step true s (.send p)).1 (h.push ⟨.send p, (step true s (.send p)).2, po, pi⟩) := by
  have hf := hi.fresh_not_issued
  have hpos := hi.next_pos
  simp only [step]
  split
  · -- not connected: queue + Dial
    rename_i hemp
    have hemp' : s.connected p = [] := by simpa using hemp
    simp only [Hs.push, issuedOf, outDone, delivered, inDone, reqIdOf, openDelta, dialStep,
      List.filterMap_cons, List.filterMap_nil, outDoneOf, deliveredOf, inDoneOf, List.append_nil]
    refine ⟨by simp, ?_, ?_, ?_, ?_, ?_, ?_⟩
    · simp only [List.map_append, List.map_cons, List.map_nil, hi.iss_eq]
      have : s.nextId + 1 - 1 = (s.nextId - 1) + 1 := by omega
      rw [this, List.range'_1_concat]
      have : 1 + (s.nextId - 1) = s.nextId := by omega
      simp [this]
    · intro q id
      have hp := hi.part q id
      have hfq := hf q
      have hpf := hi.part q s.nextId
      simp only [List.count_append, count_pair_singleton, Prod.mk.injEq]
      by_cases hq : q = p
      · subst hq
        simp only [upd_same, List.count_append, count_nat_singleton]
        by_cases hid : id = s.nextId
        · subst hid; simp; omega
        · simp [hid]; omega
      · simp only [upd_other _ _ _ _ hq]
        have : ¬ (id = s.nextId ∧ q = p) := fun e => hq e.2
        simp [this]; omega
    · intro q; simpa using hi.opn_eq q
    · intro q hne
      by_cases hq : q = p
      · subst hq; simp
      · simp only [upd_other _ _ _ _ hq] at hne
        simp [hi.dial_ok q hne]
    · exact hi.seen_ok
    · exact hi.inb
  · rename_i hemp
    have hlen : 0 < (s.connected p).length := by
      cases hc : s.connected p with
      | nil => simp [hc] at hemp
      | cons x xs => simp
    obtain ⟨r, hr⟩ := sendTo_some s.nextId (s.nextId % (s.connected p).length) (s.connected p)
      (Nat.mod_lt _ hlen)
    have h0 : cnt true s.nextId (s.connected p) = 0 := by
      have := hi.part p s.nextId; have := hf p; omega
    obtain ⟨h1, h2, h3⟩ := sendTo_spec _ _ _ _ hr h0
    simp only [hr]
    simp only [Hs.push, issuedOf, outDone, delivered, inDone, reqIdOf, openDelta, dialStep,
      List.filterMap_cons, List.filterMap_nil, outDoneOf, deliveredOf, inDoneOf, List.append_nil]
    refine ⟨by simp, ?_, ?_, ?_, ?_, ?_, ?_⟩
    · simp only [List.map_append, List.map_cons, List.map_nil, hi.iss_eq]
      have : s.nextId + 1 - 1 = (s.nextId - 1) + 1 := by omega
      rw [this, List.range'_1_concat]
      have : 1 + (s.nextId - 1) = s.nextId := by omega
      simp [this]
    · intro q id
      have hp := hi.part q id
      have hfq := hf q
      simp only [List.count_append, count_pair_singleton, Prod.mk.injEq]
      by_cases hq : q = p
      · subst hq
        simp only [upd_same, h2 id]
        by_cases hid : id = s.nextId
        · subst hid; simp; omega
        · simp [hid]; omega
      · simp only [upd_other _ _ _ _ hq]
        have : ¬ (id = s.nextId ∧ q = p) := fun e => hq e.2
        simp [this]; omega
    · intro q
      by_cases hq : q = p
      · subst hq; simp [h1]; simpa using hi.opn_eq q
      · simp only [upd_other _ _ _ _ hq]; simpa using hi.opn_eq q
    · intro q hne; simp [hi.dial_ok q hne]
    · intro q id hc
      by_cases hq : q = p
      · subst hq; simp only [upd_same, h3 id] at hc; exact hi.seen_ok q id hc
      · simp only [upd_other _ _ _ _ hq] at hc; exact hi.seen_ok q id hc
    · intro hn
      obtain ⟨a, b, c⟩ := hi.inb hn
      refine ⟨?_, b, c⟩
      intro q id
      by_cases hq : q = p
      · subst hq; simp only [upd_same, h3 id]; exact a q id
      · simp only [upd_other _ _ _ _ hq]; exact a q id

/-! ### event-list helpers -/

theorem outDone_inFails (p : Peer) (c : CId) (e : InErr) (l : List RId) :
    outDone (l.map fun id => Ev.inFail p c id e) = [] := by
  induction l with
  | nil => rfl
  | cons x xs ih => simp_all [outDone, outDoneOf]

theorem outDone_outFails (p : Peer) (c : CId) (e : OutErr) (l : List RId) :
    outDone (l.map fun id => Ev.outFail p c id e) = l.map fun id => (id, p) := by
  induction l with
  | nil => rfl
  | cons x xs ih => simp_all [outDone, outDoneOf]

theorem inDone_inFails (p : Peer) (c : CId) (e : InErr) (l : List RId) :
    inDone (l.map fun id => Ev.inFail p c id e) = l.map fun id => (id, p) := by
  induction l with
  | nil => rfl
  | cons x xs ih => simp_all [inDone, inDoneOf]

theorem inDone_outFails (p : Peer) (c : CId) (e : OutErr) (l : List RId) :
    inDone (l.map fun id => Ev.outFail p c id e) = [] := by
  induction l with
  | nil => rfl
  | cons x xs ih => simp_all [inDone, inDoneOf]

theorem delivered_inFails (p : Peer) (c : CId) (e : InErr) (l : List RId) :
    delivered (l.map fun id => Ev.inFail p c id e) = [] := by
  induction l with
  | nil => rfl
  | cons x xs ih => simp_all [delivered, deliveredOf]

theorem delivered_outFails (p : Peer) (c : CId) (e : OutErr) (l : List RId) :
    delivered (l.map fun id => Ev.outFail p c id e) = [] := by
  induction l with
  | nil => rfl
  | cons x xs ih => simp_all [delivered, deliveredOf]

theorem dial_not_mem_inFails (q p : Peer) (c : CId) (e : InErr) (l : List RId) :
    Ev.dial q ∉ (l.map fun id => Ev.inFail p c id e) := by simp

theorem dial_not_mem_outFails (q p : Peer) (c : CId) (e : OutErr) (l : List RId) :
    Ev.dial q ∉ (l.map fun id => Ev.outFail p c id e) := by simp

theorem count_map_pair (l : List RId) (p q : Peer) (id : RId) :
    (l.map fun i => (i, p)).count (id, q) = if q = p then l.count id else 0 := by
  induction l with
  | nil => simp
  | cons x xs ih =>
    simp only [List.map_cons, List.count_cons, ih, beq_iff_eq, Prod.mk.injEq]
    by_cases hq : q = p
    · subst hq; simp
    · simp only [hq, if_false, and_false]
      have : ¬ (x = id ∧ p = q) := fun e => hq e.2.symm
      simp [this]

theorem outDone_append (a b : List Ev) : outDone (a ++ b) = outDone a ++ outDone b := by
  simp [outDone]
theorem inDone_append (a b : List Ev) : inDone (a ++ b) = inDone a ++ inDone b := by
  simp [inDone]
theorem delivered_append (a b : List Ev) : delivered (a ++ b) = delivered a ++ delivered b := by
  simp [delivered]

theorem outDone_hOutEv (p : Peer) (c : CId) (id : RId) (k : HOut) :
    outDone [hOutEv p c id k] = [(id, p)] := by cases k <;> rfl
theorem inDone_hOutEv (p : Peer) (c : CId) (id : RId) (k : HOut) :
    inDone [hOutEv p c id k] = [] := by cases k <;> rfl
theorem delivered_hOutEv (p : Peer) (c : CId) (id : RId) (k : HOut) :
    delivered [hOutEv p c id k] = [] := by cases k <;> rfl
theorem dial_ne_hOutEv (q p : Peer) (c : CId) (id : RId) (k : HOut) :
    Ev.dial q ∉ [hOutEv p c id k] := by cases k <;> simp [hOutEv]
theorem outDone_hInEv (p : Peer) (c : CId) (id : RId) (k : HIn) :
    outDone [hInEv p c id k] = [] := by cases k <;> rfl
theorem inDone_hInEv (p : Peer) (c : CId) (id : RId) (k : HIn) :
    inDone [hInEv p c id k] = [(id, p)] := by cases k <;> rfl
theorem delivered_hInEv (p : Peer) (c : CId) (id : RId) (k : HIn) :
    delivered [hInEv p c id k] = [] := by cases k <;> rfl
theorem dial_ne_hInEv (q p : Peer) (c : CId) (id : RId) (k : HIn) :
    Ev.dial q ∉ [hInEv p c id k] := by cases k <;> simp [hInEv]

/-- an op that changes neither the state nor the history (except possibly the `seen` list) -/
theorem inv_noop (s : St) (h : Hs) (hi : Inv s h) (e : Entry)
    (h1 : e.out.evs = []) (h2 : issuedOf e = []) (h3 : ∀ q, openDelta q e = 0)
    (h4 : ∀ q acc, dialStep q acc e = acc) : Inv s (h.push e) := by
  simp only [Hs.push, h1, h2, h3, h4, outDone, delivered, inDone, List.filterMap_nil,
    List.append_nil, Int.add_zero]
  refine ⟨hi.next_pos, hi.iss_eq, hi.part, hi.opn_eq, hi.dial_ok, ?_, ?_⟩
  · intro q id hc; exact List.mem_append_left _ (hi.seen_ok q id hc)
  · intro hn
    obtain ⟨a, b, c⟩ := hi.inb (List.nodup_append.1 hn).1
    exact ⟨a, b, fun x hx => List.mem_append_left _ (c x hx)⟩

theorem Inv.pending_nodup {s : St} {h : Hs} (hi : Inv s h) (p : Peer) : (s.pending p).Nodup := by
  apply List.nodup_iff_count.2
  intro id
  have := hi.part p id
  have := hi.iss_count_le (id, p)
  omega

theorem inv_established (s : St) (h : Hs) (hi : Inv s h) (p : Peer) (c : CId)
    (po pi : List (Peer × RId)) :
    Inv (step true s (.established p c)).1
      (h.push ⟨.established p c, (step true s (.established p c)).2, po, pi⟩) := by
  have hpre : (s.pending p).foldl insertSet [] = s.pending p := by
    have := foldl_insertSet (s.pending p) [] (by simpa using hi.pending_nodup p)
    simpa using this
  simp only [step, hpre]
  simp only [Hs.push, issuedOf, outDone, delivered, inDone, reqIdOf, openDelta, dialStep,
    List.filterMap_nil, List.append_nil, List.not_mem_nil, decide_false, Bool.or_false]
  refine ⟨hi.next_pos, hi.iss_eq, ?_, ?_, ?_, ?_, ?_⟩
  · intro q id
    have hp := hi.part q id
    by_cases hq : q = p
    · subst hq; simp only [upd_same, cnt_append, cnt_cons, cnt_nil, Conn.get, if_true]; simp; omega
    · simp only [upd_other _ _ _ _ hq]; exact hp
  · intro q
    have := hi.opn_eq q
    by_cases hq : q = p
    · subst hq; simp; omega
    · have hq' : ¬ (p = q) := fun e => hq e.symm
      simp only [upd_other _ _ _ _ hq, hq', if_false]; omega
  · intro q hne
    by_cases hq : q = p
    · subst hq; simp at hne
    · have hq' : ¬ (p = q) := fun e => hq e.symm
      simp only [upd_other _ _ _ _ hq] at hne
      simp [hq', hi.dial_ok q hne]
  · intro q id hc
    by_cases hq : q = p
    · subst hq
      simp only [upd_same, cnt_append, cnt_cons, cnt_nil, Conn.get] at hc
      simp at hc
      exact hi.seen_ok q id hc
    · simp only [upd_other _ _ _ _ hq] at hc; exact hi.seen_ok q id hc
  · intro hn
    obtain ⟨a, b, c'⟩ := hi.inb hn
    refine ⟨?_, b, c'⟩
    intro q id
    by_cases hq : q = p
    · subst hq
      simp only [upd_same, cnt_append, cnt_cons, cnt_nil, Conn.get]
      simpa using a q id
    · simp only [upd_other _ _ _ _ hq]; exact a q id

theorem inv_closed (s : St) (h : Hs) (hi : Inv s h) (p : Peer) (c : CId)
    (po pi : List (Peer × RId)) :
    Inv (step true s (.closed p c)).1
      (h.push ⟨.closed p c, (step true s (.closed p c)).2, po, pi⟩) := by
  simp only [step]
  split
  · exact inv_noop s h hi _ rfl rfl (by intro q; simp [openDelta]) (by intro q acc; simp [dialStep])
  · split
    · exact inv_noop s h hi _ rfl rfl (by intro q; simp [openDelta]) (by intro q acc; simp [dialStep])
    · rename_i conn rest htk
      obtain ⟨hl, hc⟩ := takeConn_spec c _ _ htk
      dsimp only at hl hc
      simp only [Hs.push, issuedOf, reqIdOf, openDelta, dialStep, outDone_append, inDone_append,
        delivered_append, outDone_inFails, outDone_outFails, inDone_inFails,
        inDone_outFails, delivered_inFails, delivered_outFails, List.append_nil, List.nil_append]
      refine ⟨hi.next_pos, hi.iss_eq, ?_, ?_, ?_, ?_, ?_⟩
      · intro q id
        have hp := hi.part q id
        simp only [List.count_append, count_map_pair]
        by_cases hq : q = p
        · subst hq
          have := hc true id
          simp only [upd_same, if_true]; simp only [Conn.get, if_true] at this; omega
        · simp only [upd_other _ _ _ _ hq, hq, if_false]; omega
      · intro q
        have := hi.opn_eq q
        by_cases hq : q = p
        · subst hq; simp; omega
        · have hq' : ¬ (p = q) := fun e => hq e.symm
          simp only [upd_other _ _ _ _ hq]; simp [hq']; omega
      · intro q hne
        have := hi.dial_ok q hne
        simp [this]
      · intro q id hcn
        by_cases hq : q = p
        · subst hq
          simp only [upd_same] at hcn
          have := hc false id
          exact hi.seen_ok q id (by omega)
        · simp only [upd_other _ _ _ _ hq] at hcn; exact hi.seen_ok q id hcn
      · intro hn
        obtain ⟨a, b, c'⟩ := hi.inb hn
        refine ⟨?_, b, c'⟩
        intro q id
        have ha := a q id
        simp only [List.count_append, count_map_pair]
        by_cases hq : q = p
        · subst hq
          have := hc false id
          simp only [upd_same, if_true]; simp only [Conn.get, Bool.false_eq_true, if_false] at this
          omega
        · simp only [upd_other _ _ _ _ hq, hq, if_false]; omega

theorem inv_dialFailure (s : St) (h : Hs) (hi : Inv s h) (po' : Option Peer) (c : CId) (cond : Bool)
    (po pi : List (Peer × RId)) :
    Inv (step true s (.dialFailure po' c cond)).1
      (h.push ⟨.dialFailure po' c cond, (step true s (.dialFailure po' c cond)).2, po, pi⟩) := by
  simp only [step]
  split
  · rename_i hc; subst hc
    exact inv_noop s h hi _ rfl rfl (by intro q; simp [openDelta]) (by intro q acc; simp [dialStep])
  · rename_i hc
    have hc' : cond = false := by simpa using hc
    subst hc'
    split
    · exact inv_noop s h hi _ rfl rfl (by intro q; simp [openDelta]) (by intro q acc; simp [dialStep])
    · rename_i p
      simp only [Hs.push, issuedOf, reqIdOf, openDelta, dialStep, outDone_outFails, inDone_outFails,
        delivered_outFails, List.append_nil, Int.add_zero]
      refine ⟨hi.next_pos, hi.iss_eq, ?_, hi.opn_eq, ?_, hi.seen_ok, hi.inb⟩
      · intro q id
        have hp := hi.part q id
        simp only [List.count_append, count_map_pair]
        by_cases hq : q = p
        · subst hq; simp only [upd_same, if_true]; simp; omega
        · simp only [upd_other _ _ _ _ hq, hq, if_false]; omega
      · intro q hne
        by_cases hq : q = p
        · subst hq; simp at hne
        · have hq' : ¬ (p = q) := fun e => hq e.symm
          simp only [upd_other _ _ _ _ hq] at hne
          simp [hq', hi.dial_ok q hne]

theorem Inv.cnt_out_le {s : St} {h : Hs} (hi : Inv s h) (p : Peer) (id : RId) :
    cnt true id (s.connected p) ≤ 1 := by
  have := hi.part p id
  have := hi.iss_count_le (id, p)
  omega

theorem inv_hOut (s : St) (h : Hs) (hi : Inv s h) (p : Peer) (c : CId) (id : RId) (k : HOut)
    (po pi : List (Peer × RId)) :
    Inv (step true s (.hOut p c id k)).1
      (h.push ⟨.hOut p c id k, (step true s (.hOut p c id k)).2, po, pi⟩) := by
  have hlen := removeP_length true c id (s.connected p)
  have hoth := fun id' => removeP_other true false (by decide) c id id' (s.connected p)
  simp only [step, if_true]
  split
  · rename_i hr
    obtain ⟨h0, h1⟩ := removeP_true true c id (s.connected p) hr (hi.cnt_out_le p id)
    have hne := fun id' (hn : id' ≠ id) => removeP_ne true c id id' hn (s.connected p)
    simp only [Hs.push, issuedOf, reqIdOf, openDelta, dialStep, outDone_hOutEv, inDone_hOutEv,
      delivered_hOutEv, dial_ne_hOutEv, decide_false, Bool.or_false, List.append_nil, Int.add_zero]
    refine ⟨hi.next_pos, hi.iss_eq, ?_, ?_, hi.dial_ok, ?_, ?_⟩
    · intro q id'
      have hp := hi.part q id'
      simp only [List.count_append, count_pair_singleton, Prod.mk.injEq]
      by_cases hq : q = p
      · subst hq
        simp only [upd_same]
        by_cases hid : id' = id
        · subst hid; simp; omega
        · simp [hid, hne id' hid]; omega
      · simp only [upd_other _ _ _ _ hq]
        have : ¬ (id' = id ∧ q = p) := fun e => hq e.2
        simp [this]; omega
    · intro q
      by_cases hq : q = p
      · subst hq; simp only [upd_same, hlen]; exact hi.opn_eq q
      · simp only [upd_other _ _ _ _ hq]; exact hi.opn_eq q
    · intro q id' hc
      by_cases hq : q = p
      · subst hq; simp only [upd_same, hoth id'] at hc; exact hi.seen_ok q id' hc
      · simp only [upd_other _ _ _ _ hq] at hc; exact hi.seen_ok q id' hc
    · intro hn
      obtain ⟨a, b, c'⟩ := hi.inb hn
      refine ⟨?_, b, c'⟩
      intro q id'
      by_cases hq : q = p
      · subst hq; simp only [upd_same, hoth id']; exact a q id'
      · simp only [upd_other _ _ _ _ hq]; exact a q id'
  · rename_i hr
    have hr' : (removeP true c id (s.connected p)).1 = false := by simpa using hr
    have hsame := fun id' => removeP_false true c id id' (s.connected p) hr'
    simp only [Hs.push, issuedOf, reqIdOf, openDelta, dialStep, outDone, inDone, delivered,
      List.filterMap_nil, List.not_mem_nil, decide_false, Bool.or_false, List.append_nil, Int.add_zero]
    refine ⟨hi.next_pos, hi.iss_eq, ?_, ?_, hi.dial_ok, ?_, ?_⟩
    · intro q id'
      by_cases hq : q = p
      · subst hq; simp only [upd_same, hsame id']; exact hi.part q id'
      · simp only [upd_other _ _ _ _ hq]; exact hi.part q id'
    · intro q
      by_cases hq : q = p
      · subst hq; simp only [upd_same, hlen]; exact hi.opn_eq q
      · simp only [upd_other _ _ _ _ hq]; exact hi.opn_eq q
    · intro q id' hc
      by_cases hq : q = p
      · subst hq; simp only [upd_same, hoth id'] at hc; exact hi.seen_ok q id' hc
      · simp only [upd_other _ _ _ _ hq] at hc; exact hi.seen_ok q id' hc
    · intro hn
      obtain ⟨a, b, c'⟩ := hi.inb hn
      refine ⟨?_, b, c'⟩
      intro q id'
      by_cases hq : q = p
      · subst hq; simp only [upd_same, hoth id']; exact a q id'
      · simp only [upd_other _ _ _ _ hq]; exact a q id'

theorem inv_hIn (s : St) (h : Hs) (hi : Inv s h) (p : Peer) (c : CId) (id : RId) (k : HIn)
    (po pi : List (Peer × RId)) :
    Inv (step true s (.hIn p c id k)).1
      (h.push ⟨.hIn p c id k, (step true s (.hIn p c id k)).2, po, pi⟩) := by
  have hlen := removeP_length false c id (s.connected p)
  have hoth := fun id' => removeP_other false true (by decide) c id id' (s.connected p)
  have hle := fun id' => removeP_le false c id id' (s.connected p)
  -- all the "not removed" branches of the repaired code emit nothing
  have hstep : step true s (.hIn p c id k) =
      if (removeP false c id (s.connected p)).1 then
        ({ s with connected := upd s.connected p (removeP false c id (s.connected p)).2 },
          { evs := [hInEv p c id k] })
      else ({ s with connected := upd s.connected p (removeP false c id (s.connected p)).2 }, {}) := by
    simp only [step, if_true]
    split
    · rfl
    · split <;> rfl
  rw [hstep]
  split
  · rename_i hr
    have hne := fun id' (hn : id' ≠ id) => removeP_ne false c id id' hn (s.connected p)
    simp only [Hs.push, issuedOf, reqIdOf, openDelta, dialStep, outDone_hInEv, inDone_hInEv,
      delivered_hInEv, dial_ne_hInEv, decide_false, Bool.or_false, List.append_nil, Int.add_zero]
    refine ⟨hi.next_pos, hi.iss_eq, ?_, ?_, hi.dial_ok, ?_, ?_⟩
    · intro q id'
      by_cases hq : q = p
      · subst hq; simp only [upd_same, hoth id']; exact hi.part q id'
      · simp only [upd_other _ _ _ _ hq]; exact hi.part q id'
    · intro q
      by_cases hq : q = p
      · subst hq; simp only [upd_same, hlen]; exact hi.opn_eq q
      · simp only [upd_other _ _ _ _ hq]; exact hi.opn_eq q
    · intro q id' hc
      by_cases hq : q = p
      · subst hq
        simp only [upd_same] at hc
        exact hi.seen_ok q id' (Nat.lt_of_lt_of_le hc (hle id'))
      · simp only [upd_other _ _ _ _ hq] at hc; exact hi.seen_ok q id' hc
    · intro hn
      obtain ⟨a, b, c'⟩ := hi.inb hn
      refine ⟨?_, b, c'⟩
      have hdl : ∀ x, h.dl.count x ≤ 1 := List.nodup_iff_count.1 (nodup_of_map _ _ b)
      have hc1 : cnt false id (s.connected p) ≤ 1 := by
        have := a p id; have := hdl (id, p); omega
      obtain ⟨h0, h1⟩ := removeP_true false c id (s.connected p) hr hc1
      intro q id'
      have ha := a q id'
      simp only [List.count_append, count_pair_singleton, Prod.mk.injEq]
      by_cases hq : q = p
      · subst hq
        simp only [upd_same]
        by_cases hid : id' = id
        · subst hid; simp; omega
        · simp [hid, hne id' hid]; omega
      · simp only [upd_other _ _ _ _ hq]
        have : ¬ (id' = id ∧ q = p) := fun e => hq e.2
        simp [this]; omega
  · rename_i hr
    have hr' : (removeP false c id (s.connected p)).1 = false := by simpa using hr
    have hsame := fun id' => removeP_false false c id id' (s.connected p) hr'
    simp only [Hs.push, issuedOf, reqIdOf, openDelta, dialStep, outDone, inDone, delivered,
      List.filterMap_nil, List.not_mem_nil, decide_false, Bool.or_false, List.append_nil, Int.add_zero]
    refine ⟨hi.next_pos, hi.iss_eq, ?_, ?_, hi.dial_ok, ?_, ?_⟩
    · intro q id'
      by_cases hq : q = p
      · subst hq; simp only [upd_same, hoth id']; exact hi.part q id'
      · simp only [upd_other _ _ _ _ hq]; exact hi.part q id'
    · intro q
      by_cases hq : q = p
      · subst hq; simp only [upd_same, hlen]; exact hi.opn_eq q
      · simp only [upd_other _ _ _ _ hq]; exact hi.opn_eq q
    · intro q id' hc
      by_cases hq : q = p
      · subst hq; simp only [upd_same, hsame id'] at hc; exact hi.seen_ok q id' hc
      · simp only [upd_other _ _ _ _ hq] at hc; exact hi.seen_ok q id' hc
    · intro hn
      obtain ⟨a, b, c'⟩ := hi.inb hn
      refine ⟨?_, b, c'⟩
      intro q id'
      by_cases hq : q = p
      · subst hq; simp only [upd_same, hsame id']; exact a q id'
      · simp only [upd_other _ _ _ _ hq]; exact a q id'

theorem inv_hRequest (s : St) (h : Hs) (hi : Inv s h) (p : Peer) (c : CId) (id : RId)
    (po pi : List (Peer × RId)) :
    Inv (step true s (.hRequest p c id)).1
      (h.push ⟨.hRequest p c id, (step true s (.hRequest p c id)).2, po, pi⟩) := by
  simp only [step]
  split
  · exact inv_noop s h hi _ rfl rfl (by intro q; simp [openDelta]) (by intro q acc; simp [dialStep])
  · rename_i ins conns' hins
    obtain ⟨hl, ht, hf, hz⟩ := insertIn_spec c id _ _ hins
    dsimp only at hl ht hf hz
    -- facts under the freshness hypothesis
    have hfresh : (h.seen ++ [id]).Nodup → h.seen.Nodup ∧ id ∉ h.seen ∧ ins = true := by
      intro hn
      have hn' := List.nodup_append.1 hn
      have hnot : id ∉ h.seen := fun hm => hn'.2.2 id hm id (by simp) rfl
      refine ⟨hn'.1, hnot, ?_⟩
      cases hb : ins with
      | true => rfl
      | false => exact absurd (hi.seen_ok p id (hz hb)) hnot
    split
    · -- debug build, id already pending on this connection: panic, nothing emitted
      rename_i hpan
      have hi0 : ins = false := by
        cases hb : ins with
        | true => simp [hb] at hpan
        | false => rfl
      subst hi0
      simp only [Hs.push, issuedOf, reqIdOf, openDelta, dialStep, outDone, inDone, delivered,
        List.filterMap_nil, List.not_mem_nil, decide_false, Bool.or_false, List.append_nil, Int.add_zero]
      refine ⟨hi.next_pos, hi.iss_eq, ?_, ?_, hi.dial_ok, ?_, ?_⟩
      · intro q id'
        by_cases hq : q = p
        · subst hq; simp only [upd_same, ht id']; exact hi.part q id'
        · simp only [upd_other _ _ _ _ hq]; exact hi.part q id'
      · intro q
        by_cases hq : q = p
        · subst hq; simp only [upd_same, hl]; exact hi.opn_eq q
        · simp only [upd_other _ _ _ _ hq]; exact hi.opn_eq q
      · intro q id' hc
        by_cases hq : q = p
        · subst hq
          simp only [upd_same, hf id'] at hc
          simp at hc
          exact List.mem_append_left _ (hi.seen_ok q id' hc)
        · simp only [upd_other _ _ _ _ hq] at hc
          exact List.mem_append_left _ (hi.seen_ok q id' hc)
      · intro hn
        have := (hfresh hn).2.2
        simp at this
    · simp only [Hs.push, issuedOf, reqIdOf, openDelta, dialStep, outDone, inDone, delivered,
        List.filterMap_cons, List.filterMap_nil, outDoneOf, inDoneOf, deliveredOf, List.append_nil,
        Int.add_zero]
      refine ⟨hi.next_pos, hi.iss_eq, ?_, ?_, ?_, ?_, ?_⟩
      · intro q id'
        by_cases hq : q = p
        · subst hq; simp only [upd_same, ht id']; exact hi.part q id'
        · simp only [upd_other _ _ _ _ hq]; exact hi.part q id'
      · intro q
        by_cases hq : q = p
        · subst hq; simp only [upd_same, hl]; exact hi.opn_eq q
        · simp only [upd_other _ _ _ _ hq]; exact hi.opn_eq q
      · intro q hne; simp [hi.dial_ok q hne]
      · intro q id' hc
        by_cases hid : id' = id
        · subst hid; simp
        · apply List.mem_append_left
          by_cases hq : q = p
          · subst hq
            simp only [upd_same, hf id'] at hc
            simp [hid] at hc
            exact hi.seen_ok q id' hc
          · simp only [upd_other _ _ _ _ hq] at hc
            exact hi.seen_ok q id' hc
      · intro hn
        obtain ⟨hn1, hnot, hins'⟩ := hfresh hn
        subst hins'
        obtain ⟨a, b, c'⟩ := hi.inb hn1
        have hnodl : ∀ q, (id, q) ∉ h.dl := fun q hm => hnot (c' _ hm)
        refine ⟨?_, ?_, ?_⟩
        · intro q id'
          have ha := a q id'
          simp only [List.count_append, count_pair_singleton, Prod.mk.injEq]
          by_cases hq : q = p
          · subst hq
            simp only [upd_same, hf id']
            by_cases hid : id' = id
            · subst hid; simp; omega
            · simp [hid]; omega
          · simp only [upd_other _ _ _ _ hq]
            have : ¬ (id' = id ∧ q = p) := fun e => hq e.2
            simp [this]; omega
        · simp only [List.map_append, List.map_cons, List.map_nil]
          apply List.nodup_append.2
          refine ⟨b, by simp, ?_⟩
          intro x hx y hy
          simp only [List.mem_singleton] at hy
          subst hy
          obtain ⟨⟨i, q⟩, hm, rfl⟩ := List.mem_map.1 hx
          intro e
          exact hnot (e ▸ c' _ hm)
        · intro x hx
          rcases List.mem_append.1 hx with hx | hx
          · exact List.mem_append_left _ (c' x hx)
          · simp only [List.mem_singleton] at hx; subst hx; simp

/-- **Every operation preserves the invariant.** -/
theorem inv_step (s : St) (h : Hs) (hi : Inv s h) (op : Op) (po pi : List (Peer × RId)) :
    Inv (step true s op).1 (h.push ⟨op, (step true s op).2, po, pi⟩) := by
  cases op with
  | send p => exact inv_send s h hi p po pi
  | established p c => exact inv_established s h hi p c po pi
  | closed p c => exact inv_closed s h hi p c po pi
  | dialFailure p c cond => exact inv_dialFailure s h hi p c cond po pi
  | hOut p c id k => exact inv_hOut s h hi p c id k po pi
  | hRequest p c id => exact inv_hRequest s h hi p c id po pi
  | hIn p c id k => exact inv_hIn s h hi p c id k po pi

theorem inv_init (dbg : Bool) : Inv (init dbg) Hs.empty := by
  refine ⟨by simp [init], by simp [init, Hs.empty], ?_, ?_, ?_, ?_, ?_⟩ <;> simp [init, Hs.empty]

end C45
