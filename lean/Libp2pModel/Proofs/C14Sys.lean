import Libp2pModel.Model.C14
/-!
# C14 helper: the message-level system — every reachable configuration is one of eleven shapes
-/
namespace C14
open Mss

/-- this proposal takes the lazy exit -/
def lz (P : Params) (rest : List Bytes) : Bool := P.lazy && rest.isEmpty

def dW (P : Params) (cur : Bytes) (rest : List Bytes) (hx : Bool) : DSt :=
  if lz P rest then .expecting cur hx else .await cur rest

def jk (P : Params) (rest : List Bytes) : List Item := if lz P rest then junkItems P else []

def hdr (hq : Bool) : List Item := if hq then [.msg .header] else []

inductive Phase where
  | p0 | e1 | e2
  | a (cur : Bytes) (rest : List Bytes)
  | b (pre : List Bytes) (cur : Bytes) (rest : List Bytes) (hq hx : Bool)
  | c (pre : List Bytes) (cur : Bytes) (rest : List Bytes) (hq hx : Bool)
  | cdone (pre : List Bytes) (cur : Bytes) (rest : List Bytes)
  | n (pre : List Bytes) (cur : Bytes) (rest : List Bytes) (hq hx : Bool)
  | nj (pre : List Bytes) (cur : Bytes) (hq hx : Bool)
  | f1 (pre : List Bytes) (cur : Bytes)
  | f2 (pre : List Bytes) (cur : Bytes)

def shape (P : Params) : Phase → Cfg
  | .p0 => init
  | .e1 => ⟨true, .done .failed, .recvHeader, ⟨[], true⟩, ⟨[], false⟩⟩
  | .e2 => ⟨true, .done .failed, .done .failed, ⟨[], true⟩, ⟨[], true⟩⟩
  | .a cur rest =>
    ⟨true, dW P cur rest true, .recvHeader, ⟨[.msg .header, .msg (.proto cur)] ++ jk P rest, false⟩, ⟨[], false⟩⟩
  | .b pre cur rest hq hx =>
    ⟨true, dW P cur rest hx, .recvMessage (!pre.isEmpty), ⟨[.msg (.proto cur)] ++ jk P rest, false⟩, ⟨hdr hq, false⟩⟩
  | .c _ cur rest hq hx =>
    ⟨true, dW P cur rest hx, .done (.ok cur), ⟨jk P rest, false⟩, ⟨hdr hq ++ [.msg (.proto cur)], false⟩⟩
  | .cdone _ cur rest =>
    ⟨true, .done (.ok cur), .done (.ok cur), ⟨jk P rest, false⟩, ⟨[], false⟩⟩
  | .n _ cur rest hq hx =>
    ⟨true, dW P cur rest hx, .recvMessage true, ⟨jk P rest, false⟩, ⟨hdr hq ++ [.msg .na], false⟩⟩
  | .nj _ cur hq hx =>
    ⟨true, .expecting cur hx, .done .failed, ⟨[], false⟩, ⟨hdr hq ++ [.msg .na], true⟩⟩
  | .f1 _ _ => ⟨true, .done .failed, .recvMessage true, ⟨jk P [], true⟩, ⟨[], false⟩⟩
  | .f2 _ _ => ⟨true, .done .failed, .done .failed, ⟨[], true⟩, ⟨[], true⟩⟩

def splitOK (P : Params) (pre : List Bytes) (cur : Bytes) (rest : List Bytes) : Prop :=
  P.ds = pre ++ cur :: rest ∧ ∀ x ∈ pre, P.ls.contains x = false

def flagsOK (pre : List Bytes) (hq hx : Bool) : Prop :=
  (hq = true → hx = true) ∧ (hq = true → pre = [])

def PhaseOK (P : Params) : Phase → Prop
  | .p0 => True
  | .e1 => P.ds = []
  | .e2 => P.ds = []
  | .a cur rest => P.ds = cur :: rest
  | .b pre cur rest hq hx => splitOK P pre cur rest ∧ flagsOK pre hq hx
  | .c pre cur rest hq hx => splitOK P pre cur rest ∧ flagsOK pre hq hx ∧ P.ls.contains cur = true
  | .cdone pre cur rest => splitOK P pre cur rest ∧ P.ls.contains cur = true
  | .n pre cur rest hq hx => splitOK P pre cur rest ∧ flagsOK pre hq hx ∧ P.ls.contains cur = false
  | .nj pre cur hq hx =>
    splitOK P pre cur [] ∧ flagsOK pre hq hx ∧ P.ls.contains cur = false ∧ P.lazy = true
  | .f1 pre cur => splitOK P pre cur [] ∧ P.ls.contains cur = false
  | .f2 pre cur => splitOK P pre cur [] ∧ P.ls.contains cur = false

end C14

namespace C14
open Mss

theorem sendable_header : sendable .header = true := by decide
theorem sendable_na : sendable .na = true := by decide

theorem valid_nameOk (p : Bytes) (h : validName p = true) : nameOk p = true := by
  simp [validName] at h; exact h.1.1.1.1

theorem valid_sendable (p : Bytes) (h : validName p = true) : sendable (.proto p) = true := by
  simp [validName] at h
  simp [sendable, encodeMsg]; omega

theorem dPropose_valid (lazy : Bool) (d : Bytes) (rest : List Bytes) (pending : List Msg)
    (h : validName d = true) :
    dPropose lazy d rest pending =
      (if lazy && rest.isEmpty then .expecting d true else .await d rest, pending ++ [.proto d]) := by
  simp [dPropose, valid_nameOk d h, valid_sendable d h]
  split <;> simp_all

end C14

namespace C14
open Mss

variable (P : Params)

theorem hdr_true : hdr true = [.msg .header] := rfl
theorem hdr_false : hdr false = [] := rfl

theorem stepD_header (cur : Bytes) (rest : List Bytes) (hx : Bool) (hxt : hx = true) :
    dStep P.lazy (dW P cur rest hx) (.msg .header) = (dW P cur rest false, []) := by
  subst hxt
  unfold dW
  split <;> simp [dStep]

theorem isExp_dW (cur : Bytes) (rest : List Bytes) (hx : Bool) :
    isExpecting (dW P cur rest hx) = lz P rest := by
  unfold dW; split <;> simp_all [isExpecting]

theorem dFailed_dW (cur : Bytes) (rest : List Bytes) (hx : Bool) :
    dFailed (dW P cur rest hx) = false := by
  unfold dW; split <;> simp [dFailed]

theorem dW_not_done (cur : Bytes) (rest : List Bytes) (hx : Bool) :
    ∀ r, dW P cur rest hx ≠ .done r := by
  intro r; unfold dW; split <;> simp

end C14

namespace C14
open Mss
variable (P : Params)

theorem stepD_item (c : Cfg) (it : Item) (rest : List Item) (hs : c.started = true)
    (hd : ∀ r, c.d ≠ .done r) (hq : c.ld.q = it :: rest) :
    stepD P c =
      { c with d := (dStep P.lazy c.d (itemEv it)).1, ld := ⟨rest, c.ld.closed⟩,
               dl := ⟨c.dl.q ++ dEmit P c.d (dStep P.lazy c.d (itemEv it)).1 (dStep P.lazy c.d (itemEv it)).2,
                      c.dl.closed || dFailed (dStep P.lazy c.d (itemEv it)).1⟩ } := by
  unfold stepD
  simp only [hs, Bool.not_true, Bool.false_eq_true, ↓reduceIte]
  cases hdd : c.d with
  | done r => exact absurd hdd (hd r)
  | await a b => simp [hq]
  | expecting a b => simp [hq]

theorem stepD_idle (c : Cfg) (hs : c.started = true) (hq : c.ld.q = []) (hc : c.ld.closed = false) :
    stepD P c = c := by
  unfold stepD
  simp only [hs, Bool.not_true, Bool.false_eq_true, ↓reduceIte]
  cases hdd : c.d <;> simp [hq, hc]

theorem stepD_done (c : Cfg) (hs : c.started = true) (r : NRes) (hd : c.d = .done r) :
    stepD P c = c := by
  unfold stepD
  simp [hs, hd]

theorem stepL_item (c : Cfg) (it : Item) (rest : List Item)
    (hd : ∀ r, c.l ≠ .done r) (hq : c.dl.q = it :: rest) :
    stepL P c =
      { c with l := (lStep P.ls c.l (itemEv it)).1, dl := ⟨rest, c.dl.closed⟩,
               ld := ⟨c.ld.q ++ (lStep P.ls c.l (itemEv it)).2.map .msg,
                      c.ld.closed || lFailed (lStep P.ls c.l (itemEv it)).1⟩ } := by
  unfold stepL
  cases hdd : c.l with
  | done r => exact absurd hdd (hd r)
  | recvHeader => simp [hq]
  | recvMessage b => simp [hq]

theorem stepL_idle (c : Cfg) (hq : c.dl.q = []) (hc : c.dl.closed = false) : stepL P c = c := by
  unfold stepL
  cases hdd : c.l <;> simp [hq, hc]

theorem stepL_done (c : Cfg) (r : NRes) (hd : c.l = .done r) : stepL P c = c := by
  unfold stepL; simp [hd]

theorem stepL_eof (c : Cfg) (hd : ∀ r, c.l ≠ .done r) (hq : c.dl.q = []) (hc : c.dl.closed = true) :
    stepL P c =
      { c with l := (lStep P.ls c.l .eof).1,
               ld := ⟨c.ld.q ++ (lStep P.ls c.l .eof).2.map .msg,
                      c.ld.closed || lFailed (lStep P.ls c.l .eof).1⟩ } := by
  unfold stepL
  cases hdd : c.l with
  | done r => exact absurd hdd (hd r)
  | recvHeader => simp [hq, hc]
  | recvMessage b => simp [hq, hc]

end C14

namespace C14
open Mss
variable (P : Params)

theorem preserve_D (hv : ∀ d ∈ P.ds, validName d = true) (ph : Phase) (hok : PhaseOK P ph) :
    ∃ ph', PhaseOK P ph' ∧ stepD P (shape P ph) = shape P ph' := by
  cases ph with
  | p0 =>
    cases hds : P.ds with
    | nil =>
      refine ⟨.e1, hds, ?_⟩
      simp [shape, init, stepD, hds, dStart, dEmit, isExpecting, dFailed]
    | cons cur rest =>
      refine ⟨.a cur rest, hds, ?_⟩
      have hval : validName cur = true := hv cur (by simp [hds])
      simp only [shape, init, stepD, hds, dStart, dPropose_valid _ _ _ _ hval, Bool.not_false, ↓reduceIte]
      unfold dW jk lz dEmit
      by_cases hl : (P.lazy && rest.isEmpty) = true
      · simp [hl, isExpecting, dFailed]
      · simp [hl, isExpecting, dFailed]
  | e1 => exact ⟨.e1, hok, stepD_done P _ rfl _ rfl⟩
  | e2 => exact ⟨.e2, hok, stepD_done P _ rfl _ rfl⟩
  | a cur rest =>
    exact ⟨.a cur rest, hok, stepD_idle P _ rfl rfl rfl⟩
  | b pre cur rest hq hx =>
    obtain ⟨hsplit, hflag⟩ := hok
    cases hq with
    | false => exact ⟨.b pre cur rest false hx, ⟨hsplit, hflag⟩, stepD_idle P _ rfl rfl rfl⟩
    | true =>
      have hxt := hflag.1 rfl
      refine ⟨.b pre cur rest false false, ⟨hsplit, by simp [flagsOK]⟩, ?_⟩
      rw [stepD_item P _ (.msg .header) [] rfl (dW_not_done P cur rest hx) rfl]
      simp only [shape, itemEv, stepD_header P cur rest hx hxt]
      simp [dEmit, isExp_dW, hdr, dFailed_dW]
  | c pre cur rest hq hx =>
    obtain ⟨hsplit, hflag, hin⟩ := hok
    cases hq with
    | true =>
      have hxt := hflag.1 rfl
      refine ⟨.c pre cur rest false false, ⟨hsplit, by simp [flagsOK], hin⟩, ?_⟩
      rw [stepD_item P _ (.msg .header) [.msg (.proto cur)] rfl (dW_not_done P cur rest hx) rfl]
      simp only [shape, itemEv, stepD_header P cur rest hx hxt]
      simp [dEmit, isExp_dW, hdr, dFailed_dW]
    | false =>
      refine ⟨.cdone pre cur rest, ⟨hsplit, hin⟩, ?_⟩
      rw [stepD_item P _ (.msg (.proto cur)) [] rfl (dW_not_done P cur rest hx) rfl]
      have : dStep P.lazy (dW P cur rest hx) (.msg (.proto cur)) = (.done (.ok cur), []) := by
        unfold dW; split <;> simp [dStep]
      simp only [shape, itemEv, this]
      simp [dEmit, isExpecting, dFailed]
  | cdone pre cur rest => exact ⟨.cdone pre cur rest, hok, stepD_done P _ rfl _ rfl⟩
  | n pre cur rest hq hx =>
    obtain ⟨hsplit, hflag, hnin⟩ := hok
    cases hq with
    | true =>
      have hxt := hflag.1 rfl
      refine ⟨.n pre cur rest false false, ⟨hsplit, by simp [flagsOK], hnin⟩, ?_⟩
      rw [stepD_item P _ (.msg .header) [.msg .na] rfl (dW_not_done P cur rest hx) rfl]
      simp only [shape, itemEv, stepD_header P cur rest hx hxt]
      simp [dEmit, isExp_dW, hdr, dFailed_dW]
    | false =>
      rw [show shape P (.n pre cur rest false hx) =
        ⟨true, dW P cur rest hx, .recvMessage true, ⟨jk P rest, false⟩, ⟨[.msg .na], false⟩⟩ from rfl]
      rw [stepD_item P _ (.msg .na) [] rfl (dW_not_done P cur rest hx) rfl]
      cases rest with
      | nil =>
        refine ⟨.f1 pre cur, ⟨hsplit, hnin⟩, ?_⟩
        have : dStep P.lazy (dW P cur [] hx) (.msg .na) = (.done .failed, []) := by
          unfold dW; split <;> simp [dStep]
        simp only [shape, itemEv, this]
        simp [dEmit, isExpecting, dFailed]
      | cons d' rest' =>
        have hval : validName d' = true := hv d' (by rw [hsplit.1]; simp)
        have hnl : lz P (d' :: rest') = false := by simp [lz]
        have hdw : dW P cur (d' :: rest') hx = .await cur (d' :: rest') := by simp [dW, hnl]
        refine ⟨.b (pre ++ [cur]) d' rest' false true, ⟨⟨?_, ?_⟩, by simp [flagsOK]⟩, ?_⟩
        · rw [hsplit.1]; simp
        · intro x hx'
          simp at hx'
          rcases hx' with h | rfl
          · exact hsplit.2 x h
          · exact hnin
        · simp only [shape, itemEv, hdw, dStep, dPropose_valid _ _ _ _ hval]
          simp only [jk, hnl, dEmit, isExpecting]
          unfold dW lz
          by_cases hl : (P.lazy && rest'.isEmpty) = true
          · simp [hl, isExpecting, dFailed, hdr]
          · simp [hl, isExpecting, dFailed, hdr]
  | nj pre cur hq hx =>
    obtain ⟨hsplit, hflag, hnin, hlazy⟩ := hok
    cases hq with
    | true =>
      have hxt := hflag.1 rfl
      subst hxt
      refine ⟨.nj pre cur false false, ⟨hsplit, by simp [flagsOK], hnin, hlazy⟩, ?_⟩
      rw [stepD_item P _ (.msg .header) [.msg .na] rfl (by intro r; simp [shape]) rfl]
      simp [shape, itemEv, dStep, dEmit, isExpecting, hdr, dFailed]
    | false =>
      refine ⟨.f2 pre cur, ⟨hsplit, hnin⟩, ?_⟩
      rw [stepD_item P _ (.msg .na) [] rfl (by intro r; simp [shape]) rfl]
      simp [shape, itemEv, dStep, dEmit, isExpecting, hdr, dFailed]
  | f1 pre cur => exact ⟨.f1 pre cur, hok, stepD_done P _ rfl _ rfl⟩
  | f2 pre cur => exact ⟨.f2 pre cur, hok, stepD_done P _ rfl _ rfl⟩

end C14

namespace C14
open Mss
variable (P : Params)

theorem garbage_all (e : PErr) : garbageAfterNa e = true := by cases e <;> rfl

theorem preserve_L (hv : ∀ d ∈ P.ds, validName d = true) (ph : Phase) (hok : PhaseOK P ph) :
    ∃ ph', PhaseOK P ph' ∧ stepL P (shape P ph) = shape P ph' := by
  cases ph with
  | p0 => exact ⟨.p0, trivial, stepL_idle P _ rfl rfl⟩
  | e1 =>
    refine ⟨.e2, hok, ?_⟩
    rw [stepL_eof P _ (by intro r; simp [shape]) rfl rfl]
    simp [shape, lStep, lFailed]
  | e2 => exact ⟨.e2, hok, stepL_done P _ _ rfl⟩
  | a cur rest =>
    have hds : P.ds = cur :: rest := hok
    refine ⟨.b [] cur rest true true, ⟨⟨by simp [hds], by simp⟩, by simp [flagsOK]⟩, ?_⟩
    rw [show shape P (.a cur rest) = ⟨true, dW P cur rest true, .recvHeader,
      ⟨.msg .header :: ([.msg (.proto cur)] ++ jk P rest), false⟩, ⟨[], false⟩⟩ from rfl]
    rw [stepL_item P _ (.msg .header) _ (by intro r; simp) rfl]
    simp [shape, itemEv, lStep, lSend, sendable_header, lFailed, hdr]
  | b pre cur rest hq hx =>
    obtain ⟨hsplit, hflag⟩ := hok
    have hval : validName cur = true := hv cur (by rw [hsplit.1]; simp)
    rw [show shape P (.b pre cur rest hq hx) = ⟨true, dW P cur rest hx, .recvMessage (!pre.isEmpty),
      ⟨.msg (.proto cur) :: jk P rest, false⟩, ⟨hdr hq, false⟩⟩ from rfl]
    rw [stepL_item P _ (.msg (.proto cur)) _ (by intro r; simp) rfl]
    by_cases hin : P.ls.contains cur = true
    · refine ⟨.c pre cur rest hq hx, ⟨hsplit, hflag, hin⟩, ?_⟩
      have hmem : cur ∈ P.ls := by simpa using hin
      simp [shape, itemEv, lStep, hmem, lSend, valid_sendable cur hval, lFailed]
    · have hin' : P.ls.contains cur = false := by simpa using hin
      refine ⟨.n pre cur rest hq hx, ⟨hsplit, hflag, hin'⟩, ?_⟩
      have hmem : cur ∉ P.ls := by simpa using hin'
      simp [shape, itemEv, lStep, hmem, lSend, sendable_na, lFailed]
  | c pre cur rest hq hx => exact ⟨_, hok, stepL_done P _ _ rfl⟩
  | cdone pre cur rest => exact ⟨_, hok, stepL_done P _ _ rfl⟩
  | n pre cur rest hq hx =>
    obtain ⟨hsplit, hflag, hnin⟩ := hok
    by_cases hl : lz P rest = true
    · have hrest : rest = [] := by
        simp [lz] at hl; exact hl.2
      subst hrest
      cases hj : P.junk with
      | none =>
        refine ⟨.n pre cur [] hq hx, ⟨hsplit, hflag, hnin⟩, ?_⟩
        apply stepL_idle P _ _ rfl
        simp [shape, jk, hl, junkItems, hj]
      | some e =>
        have hlazy : P.lazy = true := by simp [lz] at hl; exact hl
        refine ⟨.nj pre cur hq hx, ⟨hsplit, hflag, hnin, hlazy⟩, ?_⟩
        rw [show shape P (.n pre cur [] hq hx) = ⟨true, dW P cur [] hx, .recvMessage true,
          ⟨[.junk e], false⟩, ⟨hdr hq ++ [.msg .na], false⟩⟩ by simp [shape, jk, hl, junkItems, hj]]
        rw [stepL_item P _ (.junk e) [] (by intro r; simp) rfl]
        simp [shape, itemEv, lStep, garbage_all, lFailed, dW, hl]
    · refine ⟨.n pre cur rest hq hx, ⟨hsplit, hflag, hnin⟩, ?_⟩
      apply stepL_idle P _ _ rfl
      simp [shape, jk, hl]
  | nj pre cur hq hx => exact ⟨_, hok, stepL_done P _ _ rfl⟩
  | f1 pre cur =>
    refine ⟨.f2 pre cur, hok, ?_⟩
    by_cases hl : lz P [] = true
    · cases hj : P.junk with
      | none =>
        rw [stepL_eof P _ (by intro r; simp [shape]) (by simp [shape, jk, hl, junkItems, hj]) rfl]
        simp [shape, lStep, lFailed, jk, hl, junkItems, hj]
      | some e =>
        rw [show shape P (.f1 pre cur) = ⟨true, .done .failed, .recvMessage true,
          ⟨[.junk e], true⟩, ⟨[], false⟩⟩ by simp [shape, jk, hl, junkItems, hj]]
        rw [stepL_item P _ (.junk e) [] (by intro r; simp) rfl]
        simp [shape, itemEv, lStep, garbage_all, lFailed]
    · rw [stepL_eof P _ (by intro r; simp [shape]) (by simp [shape, jk, hl]) rfl]
      simp [shape, lStep, lFailed, jk, hl]
  | f2 pre cur => exact ⟨_, hok, stepL_done P _ _ rfl⟩

end C14

namespace C14
open Mss
variable (P : Params)

theorem preserve (hv : ∀ d ∈ P.ds, validName d = true) (ph : Phase) (hok : PhaseOK P ph) (mv : Move) :
    ∃ ph', PhaseOK P ph' ∧ step P (shape P ph) mv = shape P ph' := by
  cases mv with
  | stepD => exact preserve_D P hv ph hok
  | stepL => exact preserve_L P hv ph hok

/-- every configuration reachable under ANY schedule is one of the shapes -/
theorem reachable_shape (hv : ∀ d ∈ P.ds, validName d = true) (sched : List Move) :
    ∃ ph, PhaseOK P ph ∧ exec P sched = shape P ph := by
  have gen : ∀ (sched : List Move) (c : Cfg), (∃ ph, PhaseOK P ph ∧ c = shape P ph) →
      ∃ ph, PhaseOK P ph ∧ sched.foldl (step P) c = shape P ph := by
    intro sched
    induction sched with
    | nil => intro c h; simpa using h
    | cons mv rest ih =>
      intro c ⟨ph, hok, hc⟩
      subst hc
      obtain ⟨ph', hok', hstep⟩ := preserve P hv ph hok mv
      simp only [List.foldl_cons]
      exact ih _ ⟨ph', hok', hstep⟩
  exact gen sched init ⟨.p0, trivial, rfl⟩

theorem find_hit (f : Bytes → Bool) (pre : List Bytes) (cur : Bytes) (rest : List Bytes)
    (hpre : ∀ x ∈ pre, f x = false) (hc : f cur = true) :
    (pre ++ cur :: rest).find? f = some cur := by
  induction pre with
  | nil => simp [List.find?_cons, hc]
  | cons x xs ih =>
    have hx := hpre x (by simp)
    simp only [List.cons_append, List.find?_cons, hx]
    exact ih (fun y hy => hpre y (by simp [hy]))

theorem find_miss (f : Bytes → Bool) (l : List Bytes) (h : ∀ x ∈ l, f x = false) :
    l.find? f = none := by
  rw [List.find?_eq_none]
  intro x hx
  simp [h x hx]

theorem expected_hit (pre : List Bytes) (cur : Bytes) (rest : List Bytes)
    (h : splitOK P pre cur rest) (hin : P.ls.contains cur = true) :
    expected P.ds P.ls = .ok cur := by
  obtain ⟨hds, hpre⟩ := h
  unfold expected
  rw [hds, find_hit (fun d => P.ls.contains d) pre cur rest hpre hin]

theorem expected_miss (pre : List Bytes) (cur : Bytes)
    (h : splitOK P pre cur []) (hnin : P.ls.contains cur = false) :
    expected P.ds P.ls = .failed := by
  obtain ⟨hds, hpre⟩ := h
  unfold expected
  rw [hds, find_miss (fun d => P.ls.contains d) (pre ++ [cur])]
  intro x hx
  rw [List.mem_append, List.mem_singleton] at hx
  rcases hx with hx | rfl
  · exact hpre x hx
  · exact hnin

theorem expected_nil (h : P.ds = []) : expected P.ds P.ls = .failed := by
  simp [expected, h]

theorem shape_listener_result (ph : Phase) (hok : PhaseOK P ph) (rl : NRes)
    (h : (shape P ph).l = .done rl) : rl = expected P.ds P.ls := by
  cases ph with
  | p0 => simp [shape, init] at h
  | e1 => simp [shape] at h
  | e2 => simp [shape] at h; rw [← h, expected_nil P hok]
  | a cur rest => simp [shape] at h
  | b pre cur rest hq hx => simp [shape] at h
  | c pre cur rest hq hx => simp [shape] at h; rw [← h, expected_hit P pre cur rest hok.1 hok.2.2]
  | cdone pre cur rest => simp [shape] at h; rw [← h, expected_hit P pre cur rest hok.1 hok.2]
  | n pre cur rest hq hx => simp [shape] at h
  | nj pre cur hq hx => simp [shape] at h; rw [← h, expected_miss P pre cur hok.1 hok.2.2.1]
  | f1 pre cur => simp [shape] at h
  | f2 pre cur => simp [shape] at h; rw [← h, expected_miss P pre cur hok.1 hok.2]

theorem shape_dialer_result (ph : Phase) (hok : PhaseOK P ph) (rd : NRes)
    (hs : (shape P ph).started = true) (h : (shape P ph).d = .done rd) : rd = expected P.ds P.ls := by
  cases ph with
  | p0 => simp [shape, init] at hs
  | e1 => simp [shape] at h; rw [← h, expected_nil P hok]
  | e2 => simp [shape] at h; rw [← h, expected_nil P hok]
  | a cur rest => exact absurd h (by simpa [shape] using dW_not_done P cur rest true rd)
  | b pre cur rest hq hx => exact absurd h (by simpa [shape] using dW_not_done P cur rest hx rd)
  | c pre cur rest hq hx => exact absurd h (by simpa [shape] using dW_not_done P cur rest hx rd)
  | cdone pre cur rest => simp [shape] at h; rw [← h, expected_hit P pre cur rest hok.1 hok.2]
  | n pre cur rest hq hx => exact absurd h (by simpa [shape] using dW_not_done P cur rest hx rd)
  | nj pre cur hq hx => simp [shape] at h
  | f1 pre cur => simp [shape] at h; rw [← h, expected_miss P pre cur hok.1 hok.2]
  | f2 pre cur => simp [shape] at h; rw [← h, expected_miss P pre cur hok.1 hok.2]

end C14

namespace C14
open Mss
variable (P : Params)

theorem cons_ne_self {α : Type} (a : α) (l : List α) : l ≠ a :: l := by
  intro h
  have := congrArg List.length h
  simp at this

theorem stepD_item_ne (c : Cfg) (it : Item) (rest : List Item) (hs : c.started = true)
    (hd : ∀ r, c.d ≠ .done r) (hq : c.ld.q = it :: rest) : stepD P c ≠ c := by
  intro h
  have h2 := congrArg (fun x => x.ld.q) h
  rw [stepD_item P c it rest hs hd hq] at h2
  simp only [hq] at h2
  exact cons_ne_self it rest h2

theorem stepL_item_ne (c : Cfg) (it : Item) (rest : List Item)
    (hd : ∀ r, c.l ≠ .done r) (hq : c.dl.q = it :: rest) : stepL P c ≠ c := by
  intro h
  have h2 := congrArg (fun x => x.dl.q) h
  rw [stepL_item P c it rest hd hq] at h2
  simp only [hq] at h2
  exact cons_ne_self it rest h2

/-- **No deadlock**: a reachable configuration in which neither side can make a step is final —
both futures have resolved. -/
theorem quiescent_final (ph : Phase) (hok : PhaseOK P ph)
    (hD : stepD P (shape P ph) = shape P ph) (hL : stepL P (shape P ph) = shape P ph) :
    (shape P ph).started = true ∧ (∃ rd, (shape P ph).d = .done rd) ∧ (∃ rl, (shape P ph).l = .done rl) := by
  cases ph with
  | p0 =>
    exfalso
    have := congrArg (fun x => x.started) hD
    simp [shape, init, stepD] at this
  | e1 =>
    exfalso
    have := congrArg (fun x => x.l) hL
    rw [stepL_eof P _ (by intro r; simp [shape]) rfl rfl] at this
    simp [shape, lStep] at this
  | e2 => exact ⟨rfl, ⟨_, rfl⟩, ⟨_, rfl⟩⟩
  | a cur rest =>
    exact absurd hL (stepL_item_ne P _ (.msg .header) ([.msg (.proto cur)] ++ jk P rest)
      (by intro r; simp [shape]) rfl)
  | b pre cur rest hq hx =>
    exact absurd hL (stepL_item_ne P _ (.msg (.proto cur)) (jk P rest) (by intro r; simp [shape]) rfl)
  | c pre cur rest hq hx =>
    cases hq with
    | true => exact absurd hD (stepD_item_ne P _ (.msg .header) [.msg (.proto cur)] rfl
        (by simpa [shape] using dW_not_done P cur rest hx) rfl)
    | false => exact absurd hD (stepD_item_ne P _ (.msg (.proto cur)) [] rfl
        (by simpa [shape] using dW_not_done P cur rest hx) rfl)
  | cdone pre cur rest => exact ⟨rfl, ⟨_, rfl⟩, ⟨_, rfl⟩⟩
  | n pre cur rest hq hx =>
    cases hq with
    | true => exact absurd hD (stepD_item_ne P _ (.msg .header) [.msg .na] rfl
        (by simpa [shape] using dW_not_done P cur rest hx) rfl)
    | false => exact absurd hD (stepD_item_ne P _ (.msg .na) [] rfl
        (by simpa [shape] using dW_not_done P cur rest hx) rfl)
  | nj pre cur hq hx =>
    cases hq with
    | true => exact absurd hD (stepD_item_ne P _ (.msg .header) [.msg .na] rfl
        (by intro r; simp [shape]) rfl)
    | false => exact absurd hD (stepD_item_ne P _ (.msg .na) [] rfl (by intro r; simp [shape]) rfl)
  | f1 pre cur =>
    exfalso
    have hl := congrArg (fun x => x.l) hL
    by_cases hlz : lz P [] = true
    · cases hj : P.junk with
      | none =>
        rw [stepL_eof P _ (by intro r; simp [shape]) (by simp [shape, jk, hlz, junkItems, hj]) rfl] at hl
        simp [shape, lStep] at hl
      | some e =>
        exact absurd hL (stepL_item_ne P _ (.junk e) [] (by intro r; simp [shape])
          (by simp [shape, jk, hlz, junkItems, hj]))
    · rw [stepL_eof P _ (by intro r; simp [shape]) (by simp [shape, jk, hlz]) rfl] at hl
      simp [shape, lStep] at hl
  | f2 pre cur => exact ⟨rfl, ⟨_, rfl⟩, ⟨_, rfl⟩⟩

end C14
