#!/bin/bash
# tools/seed_round2.sh <ID> : second, different-in-kind seeded change for a property (worktree /tmp/seed/<ID>-2)
id=$1
avoid=$(python3 -c "
import json,sys,os
p='/verif/seeded/$id/meta.json'
print(json.load(open(p))['needs_to_manifest'] if os.path.exists(p) else '')")
[ -z "$avoid" ] && avoid="(see the first change's description: unknown)"
/verif/tools/seed_new.sh $id-2 >/dev/null && python3 /verif/tools/seed_prompt.py $id-2 "$avoid" > /tmp/seed/$id-2-out/TASK.md && echo "prepared $id-2"
