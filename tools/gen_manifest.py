#!/usr/bin/env python3
"""Regenerate MANIFEST.json from checks/*.json (one file per claimed property) and properties.jsonl."""
import json, os, subprocess
root = os.path.join(os.path.dirname(os.path.abspath(__file__)), "..")
props = [json.loads(l) for l in open(os.path.join(root, "properties.jsonl")) if l.strip()]
cfgs = {}
for f in sorted(os.listdir(os.path.join(root, "checks"))):
    if f.endswith(".json"):
        c = json.load(open(os.path.join(root, "checks", f)))
        cfgs[c["id"]] = c
na_reasons = {}
p = os.path.join(root, "checks", "not_applicable.jsonl")
if os.path.exists(p):
    for l in open(p):
        if l.strip():
            e = json.loads(l)
            na_reasons[e["property_id"]] = e["reason"]
try:
    hooks = subprocess.run(["git", "-C", "/repo", "log", "--format=%H %s", "--grep=^verif:"], capture_output=True, text=True).stdout.split("\n")
    hook_commits = [h.split()[0] for h in hooks if h.strip()]
except Exception:
    hook_commits = []
checks = []
for pr in props:
    c = cfgs.get(pr["id"])
    if not c:
        continue
    checks.append(dict(
        property_id=c["id"],
        quick_cmd=f"./check.py {c['id']} --tier quick",
        thorough_cmd=f"./check.py {c['id']} --tier thorough",
        evidence_file=f"evidence/{c['id']}.json",
        replay_cmd_template=f"./check.py {c['id']} --replay {{path}}",
        engine="lean4-proof+correspondence",
        level_claimed=dict(category=(c.get("level") if c.get("level") in ("exploration", "fault_enumeration", "model_checking", "proof", "translation_validation", "other") else "proof"), text=c["level_text"], design_ref=c.get("design_ref", "DESIGN.md §7")),
        level_note=c["level_note"],
        technique=c["technique"],
    ))
manifest = dict(
    version=1,
    setup_cmd="./setup.sh",
    hooks=dict(
        guard="libp2p_verif",
        enable="harness/.cargo/config.toml sets rustflags = [\"--cfg\", \"libp2p_verif\"]; the harness workspace path-depends on /repo, so every check recompiles /repo's working tree with the hooks on",
        baseline_off_cmd="cd /repo && cargo test --workspace --no-fail-fast --offline",
        source_commits=hook_commits,
        add_only=True,
    ),
    engines=[dict(name="lean4-proof+correspondence", path="check.py",
                  serves_properties=[c["property_id"] for c in checks],
                  kind_free_text="Lean 4 kernel-checked theorems about hand-written executable models (lean/), tied to /repo by a differential correspondence run (Rust harness in harness/ drives the real code, lean_exe modeldriver runs model + executable Spec on the same lines); constants regenerated from source by tools/gen_consts.py")],
    checks=checks,
    notes="See DESIGN.md. Known findings: known_findings.jsonl. Seeded changes: seeded/.",
    not_applicable=[dict(property_id=pr["id"], reason=na_reasons.get(pr["id"], "not claimed yet: model/proof for this property is not built in the committed state (planned in DESIGN.md §7); no other technique is substituted"))
                    for pr in props if pr["id"] not in cfgs],
)
json.dump(manifest, open(os.path.join(root, "MANIFEST.json"), "w"), indent=1)
print(f"MANIFEST.json: {len(checks)} checks, {len(manifest['not_applicable'])} not claimed")
