#!/usr/bin/env python3
"""Translator for constants: re-extract the constants the property theorems name from /repo's
CURRENT source into lean/Libp2pModel/Gen/Consts.lean.  A constant that no longer parses is simply
not emitted, so every theorem that mentions it stops type-checking (obligation broken).
Table: tools/consts.json  [{"name": LeanName, "file": path under /repo, "regex": one capture group,
"kind": "nat"|"expr"}]"""
import json, os, re, sys
here = os.path.dirname(os.path.abspath(__file__))
table = json.load(open(os.path.join(here, "consts.json")))
REPO = os.environ.get("VERIF_REPO", "/repo")

def evaluate(expr):
    e = expr.strip().replace("_", "")
    e = re.sub(r"\b(\d+)(usize|u8|u16|u32|u64|u128|i32|i64|isize)\b", r"\1", e)
    e = re.sub(r"\bas\s+(usize|u8|u16|u32|u64|u128|i32|i64|isize)\b", "", e)
    m = re.fullmatch(r"Duration::from_(secs|millis|micros|nanos)\((.*)\)", e)
    if m:
        return evaluate(m.group(2))
    if not re.fullmatch(r"[0-9xXa-fA-F\s\+\-\*\/\(\)<>]+", e):
        raise ValueError("not a constant arithmetic expression: " + expr)
    e = e.replace("/", "//")
    return int(eval(e, {"__builtins__": {}}, {}))

out = ["-- GENERATED on every check run by tools/gen_consts.py from /repo's working tree — do not edit",
       "namespace Gen", ""]
report = []
for ent in table:
    path = os.path.join(REPO, ent["file"])
    try:
        src = open(path).read()
        m = re.search(ent["regex"], src, re.M | re.S)
        if not m:
            raise ValueError("pattern not found")
        v = evaluate(m.group(1))
        out.append(f"/-- `{ent['file']}`: `{m.group(0).strip().splitlines()[0][:100]}` -/")
        out.append(f"def {ent['name']} : Nat := {v}")
        report.append(f"{ent['name']}={v}")
    except Exception as ex:
        report.append(f"{ent['name']}=MISSING({ex})")
out += ["", "end Gen", ""]
text = "\n".join(out)
dst = os.path.join(here, "..", "lean", "Libp2pModel", "Gen", "Consts.lean")
if not os.path.exists(dst) or open(dst).read() != text:
    open(dst, "w").write(text)
print(" ".join(report))
sys.exit(1 if any("MISSING" in r for r in report) else 0)
