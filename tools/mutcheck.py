#!/usr/bin/env python3
"""Isolated mutation self-test:  tools/mutcheck.py Cxx <patch.diff> [--tier quick] [--keep]

Copies /repo's working tree (without target/.git) and the harness sources to /tmp/verif-mut/<ID>-<pid>/,
applies the patch (`patch -p1`, paths relative to /repo) to the COPY, points the harness copy's path
dependencies at it (own target dir, seeded from /verif/harness/target), and runs check.py with all
outputs redirected to the scratch dir.  /repo, /verif/evidence and /verif/replays are untouched, so
concurrently running agents are not disturbed.  Exit code = check.py's (1 = mutation caught).
A mutation of a constant that tools/gen_consts.py extracts is NOT seen by this tool (the shared
Gen/Consts.lean is left alone) — report such mutations to the lead instead.
"""
import os, shutil, subprocess, sys
if len(sys.argv) < 3:
    sys.exit(__doc__)
pid, patch = sys.argv[1], os.path.abspath(sys.argv[2])
tier = "quick"
if "--tier" in sys.argv:
    tier = sys.argv[sys.argv.index("--tier") + 1]
keep = "--keep" in sys.argv
root = os.path.join(os.path.dirname(os.path.abspath(__file__)), "..")
scratch = f"/tmp/verif-mut/{pid}-{os.getpid()}"
# at most 3 isolated runs at a time (each does its own cargo build): take one of 3 slot locks
import fcntl, time
_slot = None
while _slot is None:
    for i in range(3):
        f = open(f"/tmp/verif-mut-slot-{i}.lock", "w")
        try:
            fcntl.flock(f, fcntl.LOCK_EX | fcntl.LOCK_NB)
            _slot = f  # mutcheck-slot held until exit
            break
        except OSError:
            f.close()
    if _slot is None:
        time.sleep(5)
os.makedirs(scratch, exist_ok=True)
try:
    subprocess.check_call(["rsync", "-a", "--exclude", "/target", "--exclude", "/.git", "/repo/", scratch + "/repo/"])
    r = subprocess.run(["patch", "-p1", "--no-backup-if-mismatch", "-i", patch], cwd=scratch + "/repo", capture_output=True, text=True)
    print(r.stdout.strip())
    if r.returncode != 0:
        print(r.stderr)
        sys.exit("mutcheck: patch does not apply")
    subprocess.check_call(["rsync", "-a", "--exclude", "/target", os.path.join(root, "harness") + "/", scratch + "/harness/"])
    for dp, dn, fn in os.walk(scratch + "/harness"):
        for f in fn:
            if f == "Cargo.toml" or f == "config.toml":
                p = os.path.join(dp, f)
                s = open(p).read().replace('"/repo/', f'"{scratch}/repo/').replace("/verif/harness/target", scratch + "/target")
                open(p, "w").write(s)
    if os.path.isdir(os.path.join(root, "harness", "target")):
        # best effort seed of the build cache (files may vanish while another build is running)
        subprocess.call(["rsync", "-a", "--ignore-missing-args", os.path.join(root, "harness", "target") + "/", scratch + "/target/"],
                        stderr=subprocess.DEVNULL)
    env = dict(os.environ, VERIF_SCRATCH=scratch, VERIF_HARNESS=scratch + "/harness", VERIF_TARGET=scratch + "/target")
    pr = subprocess.run([os.path.join(root, "check.py"), pid, "--tier", tier], env=env, capture_output=True, text=True)
    print(pr.stdout[-6000:])
    print(pr.stderr[-3000:])
    rc = pr.returncode
    caught = rc == 1 and "VIOLATION property=" in pr.stdout
    print(f"mutcheck: check.py exit code {rc} ({'CAUGHT' if caught else 'NOT caught' if rc == 0 else 'ERROR (not a verdict)'})")
    rp = os.path.join(scratch, "replays")
    if os.path.isdir(rp):
        for f in sorted(os.listdir(rp)):
            if f.endswith(".json"):
                print("--- " + f)
                print(open(os.path.join(rp, f)).read()[:1500])
    sys.exit(rc)
finally:
    if not keep:
        shutil.rmtree(scratch, ignore_errors=True)
