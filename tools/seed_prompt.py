#!/usr/bin/env python3
"""print the prompt for a seeded-change sub-agent (gets ONLY the property text + its scratch worktree)"""
import json, sys
pid = sys.argv[1]
base = pid.split('-')[0]
avoid = sys.argv[2] if len(sys.argv) > 2 else None
p = next(json.loads(l) for l in open('/verif/properties.jsonl') if json.loads(l)['id'] == base)
print(f"""You are given a scratch git worktree of the Rust project rust-libp2p at /tmp/seed/{pid} (a throw-away copy: edit anything inside it). Work ONLY inside /tmp/seed/{pid} and /tmp/seed/{pid}-out. Do not read, list or touch /verif, /repo, or any other /tmp/seed/* directory. There is no network. Never run shell commands in the background (no run_in_background, no trailing &); give long commands an explicit timeout.

The following semantic property is supposed to hold for this codebase:

  "{p['title']}"
  {p['statement']}

YOUR TASK: craft ONE realistic change to the library source (not to tests) that BREAKS this property, such that
  * the workspace still compiles and the existing tests of the affected crate(s) still pass, unedited
    (run them: `cd /tmp/seed/{pid} && CARGO_TARGET_DIR=/tmp/seed/{pid}-target cargo test --offline -p <crate>` — ALWAYS use exactly this private target dir; the first build takes several minutes; delete /tmp/seed/{pid}-target when you are completely done);
  * it looks like something a developer could plausibly do (a refactor, an optimisation, a "fix", a changed default, a reordered statement, an off-by-one, a dropped or loosened guard…), not sabotage;
  * it needs something SPECIFIC to manifest — a particular interleaving or order of events, a multi-step sequence of operations, an unusual or boundary input, a fault at a particular point, or two cooperating sites that each look fine alone. A change that ordinary use would expose at once is not wanted.
  * Files named verif_*.rs and items behind `cfg(libp2p_verif)` are test instrumentation: do not modify them and do not rely on them.

{{AVOID}}Then write a DEMONSTRATION: a test (a new file under the crate's tests/ directory or a new #[test] in a new #[cfg(test)] module file) or a small example program that FAILS with your change and PASSES without it. Verify both directions yourself. Do NOT use `git stash` (the stash is shared between worktrees of the same repository and other agents use it concurrently); use `git diff > file` and `git apply -R file` instead.

DELIVER in /tmp/seed/{pid}-out/ :
  patch.diff   `git diff` of the library source change ONLY (apply-able with `git apply` at the worktree root; must not contain the demonstration)
  demo.diff    a second patch adding ONLY the demonstration test/program (apply-able on top of the unchanged tree as well as on top of patch.diff)
  notes.md     which crate; what the change is and why it breaks the property; exactly what is needed to make it manifest; the exact commands you ran (existing tests with the change: result; demo with the change: fails — paste the failing assertion; demo without the change: passes).
Finish by leaving the worktree with BOTH patches applied. Reply with a 10-line summary (crate, files changed, what manifests it, test results).""".replace("{AVOID}", (f"IMPORTANT: another contributor has already produced a change for this property; theirs needs this to manifest: \"{avoid}\". Yours must be DIFFERENT IN KIND: break another clause of the property, or the same clause through a different code path / function, and need a different kind of trigger. Do not touch the same function.\n\n" if avoid else "")))
