#!/usr/bin/env python3
"""tools/seed_keep.py <ID> <crate> <caught:yes|no|after-strengthening> "<what it needs to manifest>" "<how the check reacted>" [--log /tmp/sv_ID.log]
Keep a confirmed seeded change under seeded/<ID>/ (patch.diff, demo.diff, notes.md, meta.json) and regenerate seeded/README.md."""
import json, os, shutil, sys, glob
pid, crate, caught, needs, reaction = sys.argv[1:6]
log = sys.argv[sys.argv.index("--log") + 1] if "--log" in sys.argv else None
root = os.path.join(os.path.dirname(os.path.abspath(__file__)), "..")
src = f"/tmp/seed/{pid}-out"
dst = os.path.join(root, "seeded", pid)
os.makedirs(dst, exist_ok=True)
for f in ("patch.diff", "demo.diff", "notes.md"):
    if os.path.exists(os.path.join(src, f)):
        shutil.copy(os.path.join(src, f), os.path.join(dst, f))
prop = next(json.loads(l) for l in open(os.path.join(root, "properties.jsonl")) if json.loads(l)["id"] == pid.split('-')[0])
meta = dict(property=pid.split('-')[0], seed=pid, title=prop["title"], crate=crate, origin="independent sub-agent given only the property text and a scratch worktree",
            needs_to_manifest=needs, caught_by_check=caught, check_reaction=reaction,
            confirmed=dict(how="tools/seed_verify.sh in a fresh worktree of /repo HEAD with a private target dir: demo passes without the change, fails with it, the crate's existing tests pass with it; then tools/mutcheck.py (the whole check on a private copy of /repo + harness with the patch applied)",
                           log=(open(log).read()[-3000:] if log and os.path.exists(log) else None)))
json.dump(meta, open(os.path.join(dst, "meta.json"), "w"), indent=1)
rows = []
for m in sorted(glob.glob(os.path.join(root, "seeded", "*", "meta.json"))):
    x = json.load(open(m))
    rows.append(f"| {x.get('seed', x['property'])} | {x['crate']} | {x['needs_to_manifest']} | {x['caught_by_check']} | {x['check_reaction']} |")
open(os.path.join(root, "seeded", "README.md"), "w").write(
    "# Seeded changes (independently produced) and which check catches them\n\n"
    "Each directory holds `patch.diff` (the breaking change), `demo.diff` (a test that fails with it and passes without), the author's `notes.md` and `meta.json`.\n"
    "None of these is ever committed to /repo. Reproduce: `tools/mutcheck.py <ID> seeded/<ID>/patch.diff` (for a second-round directory `<ID>-2` the property id is `<ID>`).\n"
    "Rows `<ID>-2` are the second round: a change different in kind from the first one for the same property. `caught` = what the check said when the change was first tried: "
    "`yes` = caught as the check stood; `after-strengthening` = missed at first, the check was strengthened (last column) and now catches it. "
    "Procedure, tooling notes and the lessons from the misses: DESIGN.md §12.\n\n"
    "| property | crate | needs, to manifest | caught | how the check reacted / what was strengthened |\n|---|---|---|---|---|\n" + "\n".join(rows) + "\n")
print("kept", pid)
import subprocess; subprocess.call([os.path.join(root,"tools","gen_asbuilt_md.py")])
