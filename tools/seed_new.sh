#!/bin/sh
# tools/seed_new.sh <ID> : scratch worktree of /repo HEAD for a seeded-change sub-agent
set -e
id=$1
git -C /repo worktree add --detach /tmp/seed/$id HEAD >/dev/null 2>&1
mkdir -p /tmp/seed/$id-out
python3 - "$id" <<'PY'
import json,sys
pid=sys.argv[1].split('-')[0]
for l in open('/verif/properties.jsonl'):
    p=json.loads(l)
    if p['id']==pid:
        print(p['title']); print(); print(p['statement'])
PY
