#!/bin/bash
# run every registered check (quick tier) and summarise
cd "$(dirname "$0")/.."
for f in checks/C*.json; do
  id=$(basename $f .json)
  s=$(date +%s)
  out=$(./check.py $id --tier ${1:-quick} 2>&1 | tail -4)
  rc=$?
  echo "$id $(echo "$out" | grep -E "^OK|^VIOLATION|KNOWN-FINDING" | tr '\n' ' ') [$(( $(date +%s) - s ))s] $(echo "$out" | grep -o 'cases: [0-9]*')"
done
