#!/usr/bin/env python3
"""(Re)generate the 'confirmed findings' table of DESIGN.md §8.1 from known_findings.jsonl + findings/*.md"""
import json, os, re
root = os.path.join(os.path.dirname(os.path.abspath(__file__)), "..")
rows = []
for l in open(os.path.join(root, "known_findings.jsonl")):
    l = l.strip()
    if not l:
        continue
    e = json.loads(l)
    what = re.sub(r"^fixed: property=\S+ \S+ ", "", e["what"])
    rows.append(f"| {e['property']} | {e['status']} | `{e['key']}` | {e.get('commit', '—')} | {what} |")
table = ("| property | status | Spec failure key | /repo commit | what failed on the pinned tree |\n|---|---|---|---|---|\n" + "\n".join(rows))
text = f"""### 8.1 Confirmed on the real code (generated from `known_findings.jsonl` by `tools/gen_findings_md.py`)

Every row was reproduced on the implementation through the harness (the Spec printed the key on the
implementation's output; exact failing inputs are in `findings/<property>-*.md` and `corpus/<property>/*.case`,
which every run replays first). `fixed` = repaired by one minimal unguarded `fix:` commit in /repo (the
existing tests pass unedited with it; the model mirrors the repaired code; the pre-fix variant is kept
as a proved `…_buggy_counterexample`; the reverse diff is one of the mutations in `mutations/` and is
caught). `known` = recorded, not repaired: the check prints `KNOWN-FINDING` for exactly that key and
exits 0; any other failure key is a violation.

{table}

Not repaired although a repair was written (kept under `findings/rejected/`): **C34** (the complete
repair of `ConfigBuilder::build` makes an existing test fail that builds an invalid per-topic
configuration and unwraps the result — a repair may not edit the test suite, so the defect is
recorded as known findings); **C45** (the "late handler event" case cannot be produced by a real
`ConnectionHandler`/`Swarm`; the code's `debug_assert!` documents that contract — a false alarm of
the check, which was corrected to quantify over in-contract event sequences only).
"""
p = os.path.join(root, "DESIGN.md")
s = open(p).read()
start = s.find("### 8.1 Confirmed on the real code")
if start >= 0:
    end = s.find("\n---------------------------------------------------------------------------------------------", start)
    s = s[:start] + text + s[end:]
else:
    marker = "\n---------------------------------------------------------------------------------------------\n\n## 9. Limits of the tooling"
    s = s.replace(marker, "\n" + text + marker, 1)
open(p, "w").write(s)
print(len(rows), "rows")
