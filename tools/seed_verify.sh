#!/bin/bash
# tools/seed_verify.sh <ID> <crate> [extra cargo test args for the demo, e.g. "--test seed_demo"]
# Confirms a seeded change independently in a fresh worktree:
#   (1) demo passes without the change, (2) demo fails with it, (3) the crate's existing tests pass with it,
# then runs the check in isolation (tools/mutcheck.py) and prints whether it was caught.
id=$1; crate=$2; shift 2; demo_args="$@"
out=/tmp/seed/$id-out; wt=/tmp/seed/v-$id
# private target dir: worktrees sharing one target dir overwrite each other's artefacts
export CARGO_TARGET_DIR=/tmp/seed/v-$id-target CARGO_NET_OFFLINE=true
git -C /repo worktree remove --force $wt >/dev/null 2>&1
git -C /repo worktree add --detach $wt HEAD >/dev/null 2>&1 || { echo "cannot create worktree"; exit 2; }
cd $wt
git apply $out/demo.diff || { echo "demo.diff does not apply"; exit 2; }
echo "== (1) demo WITHOUT the change"
timeout 3000 cargo test --offline -p $crate $SEED_FEATURES $demo_args 2>&1 | grep -E "^test result|^test .*(FAILED|ok)$|panicked|error(\[|:)" | tail -8
r1=${PIPESTATUS[0]}
git apply $out/patch.diff || { echo "patch.diff does not apply"; exit 2; }
echo "== (2) demo WITH the change"
timeout 3000 cargo test --offline -p $crate $SEED_FEATURES $demo_args 2>&1 | grep -E "^test result|^test .*(FAILED|ok)$|panicked|error(\[|:)" | tail -8
r2=${PIPESTATUS[0]}
echo "== (3) existing tests of $crate WITH the change (demo removed)"
git apply -R $out/demo.diff
timeout 3000 cargo test --offline -p $crate $SEED_FEATURES 2>&1 | grep -E "^test result|FAILED|error(\[|:)" | tail -12
r3=${PIPESTATUS[0]}
echo "rc: demo-without=$r1 demo-with=$r2 existing-with=$r3   (want 0, non-0, 0)"
cd /verif
git -C /repo worktree remove --force $wt
rm -rf /tmp/seed/v-$id-target
echo "== (4) the check, in isolation"
env -u CARGO_TARGET_DIR tools/mutcheck.py $id $out/patch.diff 2>&1 | grep -E "VIOLATION|mutcheck:|theorems checked|obligation|KNOWN" | tail -6
