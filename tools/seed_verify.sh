#!/bin/bash
# tools/seed_verify.sh <ID> <crate> [extra cargo test args for the demo, e.g. "--test seed_demo"]
# Confirms a seeded change independently in a fresh worktree:
#   (1) demo passes without the change, (2) demo fails with it, (3) the crate's existing tests pass with it,
# then runs the check in isolation (tools/mutcheck.py) and prints whether it was caught.
id=$1; crate=$2; shift 2; demo_args="$@"
out=/tmp/seed/$id-out; wt=/tmp/seed/v-$id
# private target dir: worktrees sharing one target dir overwrite each other's artefacts
export CARGO_TARGET_DIR=/tmp/seed/v-$id-target CARGO_NET_OFFLINE=true
git -C /repo worktree remove --force $wt >/dev/null 2>&1
git -C /repo worktree add --detach $wt HEAD >/dev/null 2>&1 || { echo "cannot create worktree"; exit 2; }
cd $wt
git apply $out/demo.diff || { echo "demo.diff does not apply"; exit 2; }
echo "== (1) demo WITHOUT the change"
timeout 3000 cargo test --offline -p $crate $SEED_FEATURES $demo_args 2>&1 | grep -E "^test result|^test .*(FAILED|ok)$|panicked|error(\[|:)" | tail -8
r1=${PIPESTATUS[0]}
git apply $out/patch.diff || { echo "patch.diff does not apply"; exit 2; }
echo "== (2) demo WITH the change"
timeout 3000 cargo test --offline -p $crate $SEED_FEATURES $demo_args 2>&1 | grep -E "^test result|^test .*(FAILED|ok)$|panicked|error(\[|:)" | tail -8
r2=${PIPESTATUS[0]}
echo "== (3) existing tests of $crate WITH the change (demo removed)"
git apply -R $out/demo.diff
timeout 3000 cargo test --offline -p $crate $SEED_FEATURES --no-fail-fast > /tmp/seed/v-$id-step3.log 2>&1
r3=$?
grep -E "^test result|FAILED|error(\[|:)" /tmp/seed/v-$id-step3.log | tail -12
if [ $r3 -ne 0 ]; then
  # timing-based tests of several crates are flaky on a loaded machine: a test that passes in one of 3 isolated
  # re-runs WITH the change is not broken by the change
  failed=$(grep -E "^test .* \.\.\. FAILED$" /tmp/seed/v-$id-step3.log | sed -E 's/^test (.*) \.\.\. FAILED$/\1/' | sort -u)
  r3=0
  for t in $failed; do
    okone=1
    for k in 1 2 3; do
      if timeout 1500 cargo test --offline -p $crate $SEED_FEATURES "$t" -- --exact >/dev/null 2>&1 || timeout 1500 cargo test --offline -p $crate $SEED_FEATURES --lib "$t" >/dev/null 2>&1; then okone=0; break; fi
    done
    echo "   re-run of $t in isolation: $([ $okone = 0 ] && echo passes '(flaky under load)' || echo STILL FAILS)"
    [ $okone = 0 ] || r3=101
  done
  [ -z "$failed" ] && r3=101
fi
rm -f /tmp/seed/v-$id-step3.log
echo "rc: demo-without=$r1 demo-with=$r2 existing-with=$r3   (want 0, non-0, 0)"
cd /verif
git -C /repo worktree remove --force $wt
rm -rf /tmp/seed/v-$id-target
[ -n "$SKIP_MC" ] && exit 0
echo "== (4) the check, in isolation"
env -u CARGO_TARGET_DIR tools/mutcheck.py ${id%%-*} $out/patch.diff > /tmp/seed/v-$id-step4.log 2>&1
grep -E "VIOLATION|mutcheck:|theorems checked|obligation|KNOWN" /tmp/seed/v-$id-step4.log | tail -6
echo "spec keys: $(grep -ohE 'FAIL:[A-Za-z0-9_:.-]+' /tmp/seed/v-$id-step4.log | sort | uniq -c | sort -rn | head -4 | tr '\n' ';')"
rm -f /tmp/seed/v-$id-step4.log
